"""Shared harness for the engine properties (C05, C11, C12): component-wise deterministic driving of the real
consumer generator (`unit.execute`) and the real `worker_task`/`run_test`/`cached_test_func`, real multi-threaded
engine runs against a scripted WSGI app, and the forced queue race on real threads.

Model side: lean/Drivers/Engine.lean (ops consumer / worker / fire / plan).
"""
from __future__ import annotations

import queue
import threading
import types
import uuid
from contextlib import contextmanager
from unittest import mock

import hypothesis
import requests

import schemathesis
from schemathesis.core.result import Err, Ok
from schemathesis.engine import Status, events, from_schema
from schemathesis.engine.config import EngineConfig, ExecutionConfig
from schemathesis.engine.context import EngineContext
from schemathesis.engine.phases import Phase, PhaseName
from schemathesis.engine.phases import unit as unit_phase
from schemathesis.engine.phases.unit import _executor as unit_executor
from schemathesis.engine.recorder import ScenarioRecorder
from schemathesis.generation.hypothesis.builder import HypothesisTestMode

RAW = {
    "openapi": "3.0.2", "info": {"title": "t", "version": "1"},
    "paths": {f"/op{i}": {"get": {"parameters": [{"name": "q", "in": "query", "schema": {"type": "integer"}}],
                                   "responses": {"200": {"description": "ok"}}}} for i in range(6)},
}


def make_app(behaviour=None, log=None):
    """WSGI app: behaviour(path, n_call) -> status; log collects (path, thread name, query)"""
    from flask import Flask, request

    app = Flask("verif")
    counts: dict = {}
    lock = threading.Lock()

    @app.route("/openapi.json")
    def spec():
        return RAW

    @app.route("/<path:p>", methods=["GET", "POST", "PUT", "DELETE", "PATCH"])
    def any_(p):
        with lock:
            counts[p] = counts.get(p, 0) + 1
            n = counts[p]
            if log is not None:
                log.append((p, threading.current_thread().name, request.query_string.decode(), request.method))
        st = behaviour("/" + p, n) if behaviour else 200
        return ("x", st)

    return app


class Server:
    """the scripted app served on loopback by werkzeug (threaded), as the engine's requests transport needs a URL"""

    def __init__(self, app):
        from werkzeug.serving import make_server
        self.srv = make_server("127.0.0.1", 0, app, threaded=True)
        self.port = self.srv.server_port
        self.thread = threading.Thread(target=self.srv.serve_forever, daemon=True)

    def __enter__(self):
        self.thread.start()
        return self

    def __exit__(self, *a):
        self.srv.shutdown()
        self.thread.join(5)
        self.srv.server_close()

    @property
    def url(self):
        return f"http://127.0.0.1:{self.port}"


def load_schema(base_url=None, n_ops=None, raw=None):
    raw = dict(raw or RAW)
    if n_ops is not None:
        raw = {**raw, "paths": {k: v for k, v in list(raw["paths"].items())[:n_ops]}}
    s = schemathesis.openapi.from_dict(raw)
    if base_url:
        s = s.configure(base_url=base_url)
    return s


def ev_kind(e):
    return type(e).__name__


STATUS = {Status.SUCCESS: "success", Status.FAILURE: "failure", Status.ERROR: "error",
          Status.INTERRUPTED: "interrupted", Status.SKIP: "skip"}


def canon_stream(evs, ids=None):
    """Real events -> the model's event vocabulary. Scenario ids are numbered by first appearance."""
    ids = {} if ids is None else ids
    out = []
    for e in evs:
        k = ev_kind(e)
        if k == "ScenarioStarted":
            ids.setdefault(e.id, len(ids) + 1)
            out.append({"k": "scenStarted", "id": ids[e.id]})
        elif k == "ScenarioFinished":
            ids.setdefault(e.id, len(ids) + 1)
            out.append({"k": "scenFinished", "id": ids[e.id], "st": STATUS[e.status]})
        elif k == "NonFatalError":
            out.append({"k": "nonFatal"})
        elif k == "Interrupted":
            out.append({"k": "interrupted"})
        elif k == "SuiteStarted":
            out.append({"k": "suiteStarted"})
        elif k == "SuiteFinished":
            out.append({"k": "suiteFinished", "st": STATUS[e.status]})
        elif k == "PhaseFinished":
            from schemathesis.engine.phases import PhaseSkipReason
            out.append({"k": "phaseFinished", "st": STATUS[e.status],
                        "ntt": e.phase.skip_reason == PhaseSkipReason.NOTHING_TO_TEST})
        else:
            out.append({"k": k})
    return out


def strip_ids(evs):
    return [{k: v for k, v in e.items() if not (e["k"] == "nonFatal" and k == "id")} for e in evs]


# ---------------------------------------------------------------------------------------------------------------
# A. the consumer generator driven by a scripted pool
# ---------------------------------------------------------------------------------------------------------------

class _ScriptedQueue:
    def __init__(self, inputs, real_events, ctx):
        self.inputs = list(inputs)
        self.real = real_events
        self.ctx = ctx
        self.pos = 0
        self.last_empty = None
        self.pending_sdy = False

    def get(self, timeout=None):
        if self.pos >= len(self.inputs):
            self.last_empty = {"k": "empty", "alive": False, "qempty": True}
            self.inputs.append(self.last_empty)
            self.pos += 1
            raise queue.Empty
        i = self.inputs[self.pos]
        self.pos += 1
        if i["k"] == "got":
            self.pending_sdy = i["sdy"]
            return self.real(i["e"])
        if i["k"] == "ki":
            raise KeyboardInterrupt
        self.last_empty = i
        raise queue.Empty

    def empty(self):
        return bool(self.last_empty and self.last_empty.get("qempty", True))


class _FakeThread:
    def __init__(self, q, idx=0):
        self.q = q
        self.idx = idx

    def is_alive(self):
        le = self.q.last_empty
        if not le:
            return False
        per = le.get("alive_each")
        if per is not None:
            return bool(per[self.idx % len(per)])
        return bool(le["alive"])

    def join(self, timeout=None):
        return None


class _FakePool:
    def __init__(self, q):
        self.events_queue = q
        self.workers = [_FakeThread(q, 0), _FakeThread(q, 1), _FakeThread(q, 2)]

    def __enter__(self):
        return self

    def __exit__(self, *a):
        return None


def make_ctx(schema, max_failures=None, **exec_kwargs):
    cfg = EngineConfig(execution=ExecutionConfig(max_failures=max_failures, **exec_kwargs))
    return EngineContext(schema=schema, stop_event=threading.Event(), config=cfg)


def drive_consumer(schema, inputs, max_failures=None):
    """Runs the real `unit.execute` against the scripted inputs. Returns (canonical stream, ctl, consumed inputs)."""
    ctx = make_ctx(schema, max_failures)
    phase = Phase(name=PhaseName.FUZZING, is_supported=True, is_enabled=True)
    suite_id = uuid.uuid4()
    started: dict = {}
    inv: dict = {}

    def real(e):
        k = e["k"]
        if k == "scenStarted":
            ev = events.ScenarioStarted(label=f"GET /op{e['id']}", phase=PhaseName.FUZZING, suite_id=suite_id)
            started[e["id"]] = ev.id
            inv[ev.id] = e["id"]
            return ev
        if k == "scenFinished":
            sid = started.setdefault(e["id"], uuid.uuid4())
            inv[sid] = e["id"]
            return events.ScenarioFinished(id=sid, suite_id=suite_id, phase=PhaseName.FUZZING, label=f"GET /op{e['id']}",
                                           status=Status(e["st"]), recorder=ScenarioRecorder(label="x"), elapsed_time=0.0,
                                           skip_reason=None, is_final=False)
        if k == "nonFatal":
            return events.NonFatalError(error=RuntimeError("x"), phase=PhaseName.FUZZING, label="GET /x",
                                        related_to_operation=True)
        if k == "interrupted":
            return events.Interrupted(phase=PhaseName.FUZZING)
        raise ValueError(k)

    q = _ScriptedQueue(inputs, real, ctx)
    out = []
    with mock.patch.object(unit_phase, "WorkerPool", lambda **kw: _FakePool(q)):
        gen = unit_phase.execute(ctx, phase)
        try:
            for ev in gen:
                out.append(ev)
                if ev_kind(ev) in ("ScenarioStarted", "ScenarioFinished", "NonFatalError", "Interrupted") and q.pending_sdy \
                        and not (ev_kind(ev) == "Interrupted" and ev.id not in [x.id for x in out[:-1]] and False):
                    q.pending_sdy = False
                    ctx.stop()
        except KeyboardInterrupt:
            out.append("KeyboardInterrupt-escaped")
    ids = {}
    canon = []
    for e in out:
        if isinstance(e, str):
            canon.append({"k": e})
            continue
        c = canon_stream([e], ids)[0]
        if c["k"] in ("scenStarted", "scenFinished"):
            c["id"] = inv.get(e.id, 0)
        canon.append(c)
    ctl = {"stop": ctx.control.stop_event.is_set(), "failures": ctx.control._failures_counter if max_failures is not None else 0,
           "limit": ctx.control.has_reached_the_failure_limit}
    return canon, ctl, q.inputs[:q.pos]


def gen_consumer_inputs(rng, n):
    """a plausible consumer view: events of up to 3 interleaved scenarios, empties, occasional stops"""
    ins = []
    open_ids = []
    next_id = 1
    for _ in range(n):
        r = rng.random()
        if r < 0.22:
            ins.append({"k": "got", "e": {"k": "scenStarted", "id": next_id}, "sdy": rng.random() < 0.04})
            open_ids.append(next_id)
            next_id += 1
        elif r < 0.50 and open_ids:
            i = open_ids.pop(rng.randrange(len(open_ids)))
            st = rng.choice(["success", "skip", "failure", "error", "skip", "failure"])
            ins.append({"k": "got", "e": {"k": "scenFinished", "id": i, "st": st}, "sdy": rng.random() < 0.04})
        elif r < 0.62 and open_ids:
            ins.append({"k": "got", "e": {"k": "nonFatal", "id": rng.choice(open_ids)}, "sdy": rng.random() < 0.04})
        elif r < 0.66:
            ins.append({"k": "got", "e": {"k": "nonFatal", "id": 0}, "sdy": False})
        elif r < 0.90:
            each = [rng.random() < 0.6 for _ in range(3)]
            if rng.random() < 0.25:
                each = [False, False, False]
            ins.append({"k": "empty", "alive": any(each), "alive_each": each, "qempty": rng.random() < 0.7})
        elif r < 0.93:
            ins.append({"k": "ki"})
        elif r < 0.96 and open_ids:
            i = open_ids.pop(0)
            ins.append({"k": "got", "e": {"k": "scenFinished", "id": i, "st": "interrupted"}, "sdy": False})
            ins.append({"k": "got", "e": {"k": "interrupted"}, "sdy": False})
    return ins


# ---------------------------------------------------------------------------------------------------------------
# B. the worker driven synchronously: real worker_task + run_test + cached_test_func/test_func + checks
# ---------------------------------------------------------------------------------------------------------------

class _Producer:
    def __init__(self, results):
        self.results = list(results)

    def next_operation(self):
        return self.results.pop(0) if self.results else None


class OutcomeError(Exception):
    pass


def drive_worker(schema, app_log, op_scripts, stop_after_sends=None, limit_at_start=False, continue_on_failure=False,
                 checks=None):
    """op_scripts: [{"op": idx, "kind": "cases", "statuses": [200, 500, …]} | {"kind": "create_error"} |
                    {"kind": "load_error", "bare": bool} | {"kind": "raise", "exc": callable}]
    Each case is sent through the real `test_func` (stop test, transport, checks). Returns the canonical list of
    events the worker put, the number of requests the app saw, and the operations left with the producer."""
    from schemathesis.checks import not_a_server_error
    from schemathesis.core.errors import InvalidSchema, OperationNotFound  # noqa: F401

    ctx = make_ctx(schema, None, continue_on_failure=continue_on_failure, checks=checks or [not_a_server_error])
    if limit_at_start:
        ctx.control.has_reached_the_failure_limit = True
    ops = [r.ok() for r in schema.get_all_operations()]
    sent = [0]
    results = []
    plans = {}
    for sc in op_scripts:
        if sc["kind"] == "load_error":
            err = InvalidSchema("bad", path=None if sc.get("bare") else "/broken", method=None if sc.get("bare") else "get")
            results.append(Err(err))
        else:
            op = ops[sc["op"]]
            plans[op.label] = sc
            results.append(Ok(op))

    def fake_create_test(*, operation, test_func, config):
        sc = plans[operation.label]
        if sc["kind"] == "create_error":
            raise sc.get("exc", InvalidSchema)("cannot build")

        def test(*, ctx, errors, recorder):
            if sc["kind"] == "raise":
                raise sc["exc"]()
            for k, st in enumerate(sc["statuses"]):
                case = operation.Case(query={"q": k, "st": st})
                before = len(app_log)
                try:
                    test_func(ctx=ctx, case=case, errors=errors, recorder=recorder)
                finally:
                    if len(app_log) > before:
                        sent[0] += 1
                        if stop_after_sends is not None and sent[0] == stop_after_sends:
                            ctx.stop()

        test.hypothesis = types.SimpleNamespace(inner_test=types.SimpleNamespace())
        return test

    q: queue.Queue = queue.Queue()
    producer = _Producer(results)
    with mock.patch("schemathesis.generation.hypothesis.builder.create_test", fake_create_test):
        unit_phase.worker_task(events_queue=q, producer=producer, ctx=ctx, mode=HypothesisTestMode.FUZZING,
                               phase=PhaseName.FUZZING, suite_id=uuid.uuid4())
    evs = []
    while not q.empty():
        evs.append(q.get_nowait())
    return canon_stream(evs), sent[0], len(producer.results), evs


# ---------------------------------------------------------------------------------------------------------------
# C. real engine runs
# ---------------------------------------------------------------------------------------------------------------

def engine_config(*, phases=None, workers=1, max_failures=None, max_examples=4, seed=1, continue_on_failure=False,
                  unique_inputs=False, checks=None, stateful_step_count=None):
    from schemathesis.checks import not_a_server_error
    kw = dict(max_examples=max_examples, deadline=None, database=None, derandomize=False,
              suppress_health_check=list(hypothesis.HealthCheck))
    if stateful_step_count is not None:
        kw["stateful_step_count"] = stateful_step_count
    return EngineConfig(execution=ExecutionConfig(
        phases=phases or [PhaseName.EXAMPLES, PhaseName.COVERAGE, PhaseName.FUZZING, PhaseName.STATEFUL_TESTING],
        checks=checks or [not_a_server_error], hypothesis_settings=hypothesis.settings(**kw), max_failures=max_failures,
        unique_inputs=unique_inputs, continue_on_failure=continue_on_failure, seed=seed, workers_num=workers))


def run_engine(schema, config, stop_after_event=None, on_event=None):
    """Runs the real engine; returns the list of real events. `stop_after_event=k`: call stream.stop() after the k-th."""
    stream = from_schema(schema, config=config).execute()
    out = []
    for ev in stream:
        out.append(ev)
        if on_event:
            on_event(ev, stream)
        if stop_after_event is not None and len(out) == stop_after_event:
            stream.stop()
    return out


def plan_canon(evs):
    """real plan-level stream -> list of dicts {k, phase?, st?, id?, suite?}"""
    out = []
    for e in evs:
        k = ev_kind(e)
        d = {"k": k}
        if hasattr(e, "phase") and e.phase is not None:
            d["phase"] = e.phase.name.name if hasattr(e.phase, "name") and hasattr(e.phase.name, "name") else e.phase.name
        if hasattr(e, "status"):
            d["st"] = STATUS[e.status]
        if k in ("ScenarioStarted", "ScenarioFinished", "SuiteStarted", "SuiteFinished"):
            d["id"] = str(e.id)
        if k in ("ScenarioStarted", "ScenarioFinished"):
            d["suite"] = str(e.suite_id)
        if k == "PhaseFinished":
            d["reason"] = e.phase.skip_reason.value if e.phase.skip_reason else None
            d["enabled"] = e.phase.is_enabled
        if k == "NonFatalError":
            d["label"] = e.label
        out.append(d)
    return out


PHASE_ORDER = ["PROBING", "EXAMPLES", "COVERAGE", "FUZZING", "STATEFUL_TESTING"]


def stream_violations(ps, interrupted):
    """Reference automaton for C11 on a real plan-level stream (list from plan_canon). Returns a list of
    (signature_suffix, message)."""
    bad = []
    if not ps or ps[0]["k"] != "EngineStarted":
        bad.append(("no-start-first", "first event is not EngineStarted"))
    if not ps or ps[-1]["k"] != "EngineFinished":
        bad.append(("no-finish-last", "last event is not EngineFinished"))
    if sum(1 for e in ps if e["k"] == "EngineStarted") != 1 or sum(1 for e in ps if e["k"] == "EngineFinished") != 1:
        bad.append(("start-finish-count", "EngineStarted/EngineFinished not exactly once"))
    open_phase, opened, closed = None, [], []
    open_suites, open_scen, seen_scen = {}, {}, set()
    worst = {}
    for e in ps:
        k = e["k"]
        if k == "PhaseStarted":
            if open_phase is not None:
                bad.append(("phase-nested", f"phase {e['phase']} opened inside {open_phase}"))
            open_phase = e["phase"]
            opened.append(e["phase"])
        elif k == "PhaseFinished":
            if open_phase != e["phase"]:
                bad.append(("phase-close-without-open", f"phase {e['phase']} closed but {open_phase} is open"))
            if any(s == e["phase"] for s in open_suites.values()):
                bad.append(("suite-unclosed-at-phase-end", f"suite left open when phase {e['phase']} closed"))
            w = worst.get(e["phase"])
            rank = {"success": 0, "failure": 1, "error": 2, "interrupted": 3, "skip": 4}
            if w is not None and e["st"] != "skip" and rank[e["st"]] < rank[w] and not interrupted:
                bad.append(("status-not-monotone", f"phase {e['phase']} finished {e['st']} but a scenario was {w}"))
            if w is not None and e["st"] == "skip" and w in ("failure", "error") and not interrupted:
                bad.append(("status-not-monotone", f"phase {e['phase']} finished skip but a scenario was {w}"))
            closed.append(e["phase"])
            open_phase = None
        elif k == "SuiteStarted":
            if open_phase != e["phase"]:
                bad.append(("suite-outside-phase", "SuiteStarted outside its phase"))
            open_suites[e["id"]] = e["phase"]
        elif k == "SuiteFinished":
            if e["id"] not in open_suites:
                bad.append(("suite-close-without-open", "SuiteFinished without SuiteStarted"))
            else:
                if any(s == e["id"] for s in open_scen.values()) and not interrupted:
                    bad.append(("scenario-unclosed-at-suite-end", "scenario left open when its suite closed (run not interrupted)"))
                del open_suites[e["id"]]
        elif k == "ScenarioStarted":
            if e["suite"] not in open_suites:
                bad.append(("scenario-outside-suite", "ScenarioStarted outside an open suite"))
            if e["id"] in seen_scen:
                bad.append(("scenario-id-reused", "scenario id announced twice"))
            seen_scen.add(e["id"])
            open_scen[e["id"]] = e["suite"]
        elif k == "ScenarioFinished":
            if e["id"] not in open_scen:
                bad.append(("scenario-close-without-open", "ScenarioFinished without (or twice for) its ScenarioStarted"))
            else:
                del open_scen[e["id"]]
            if e["st"] != "skip":
                rank = {"success": 0, "failure": 1, "error": 2, "interrupted": 3}
                w = worst.get(e["phase"])
                if w is None or rank[e["st"]] > rank[w]:
                    worst[e["phase"]] = e["st"]
        elif k in ("EngineStarted", "EngineFinished", "NonFatalError", "Interrupted", "FatalError"):
            pass
    if open_phase is not None:
        bad.append(("phase-unclosed", f"phase {open_phase} never closed"))
    if open_suites:
        bad.append(("suite-unclosed", "a suite was never closed"))
    if open_scen and not interrupted:
        bad.append(("scenario-unclosed-not-interrupted", "an announced scenario was never closed although the run was not interrupted"))
    idx = [PHASE_ORDER.index(p) for p in opened]
    if idx != sorted(idx) or len(set(idx)) != len(idx):
        bad.append(("phase-order", f"phases opened out of order or twice: {opened}"))
    # a run that is neither interrupted nor ended by a fatal error goes through every phase of the plan: a phase that is
    # disabled, has nothing to do or comes after the failure limit is still opened and closed (as skipped)
    if not interrupted and not any(e["k"] in ("Interrupted", "FatalError") for e in ps) and ps and ps[-1]["k"] == "EngineFinished" \
            and (opened != PHASE_ORDER or closed != PHASE_ORDER):
        bad.append(("phases-not-all-opened-and-closed", f"run not interrupted, but the phases opened are {opened} and closed {closed}"))
    return bad


def exit_code_of(evs):
    """the real CLI fold"""
    from schemathesis.cli.commands.run.context import ExecutionContext
    ctx = ExecutionContext()
    for e in evs:
        if ev_kind(e) == "ScenarioFinished":
            continue  # statistics only
        ctx.on_event(e)
    return ctx.exit_code


# ---------------------------------------------------------------------------------------------------------------
# E. the queue race, forced on real threads
# ---------------------------------------------------------------------------------------------------------------

def race_probe(schema, config):
    """Workers are held at a gate until the consumer's `get` has timed out; the first liveness test then lets them run
    to completion before it answers. Returns the real event list."""
    gate = threading.Event()
    real_factory = unit_phase.worker_task
    pools = []

    def gated_worker(**kw):
        gate.wait(10)
        return real_factory(**kw)

    RealPool = unit_phase.WorkerPool

    class GatedThread(threading.Thread):
        def is_alive(self):
            if not gate.is_set():
                gate.set()
                for t in pools[-1].workers:
                    threading.Thread.join(t, 20)
            return super().is_alive()

    class Pool(RealPool):
        def __init__(self, **kw):
            kw["worker_factory"] = gated_worker
            super().__init__(**kw)
            pools.append(self)

        def start(self):
            with mock.patch("threading.Thread", GatedThread):
                super().start()

    try:
        with mock.patch.object(unit_phase, "WorkerPool", Pool):
            return run_engine(schema, config)
    finally:
        gate.set()


# ---------------------------------------------------------------------------------------------------------------
# correspondence runs shared by C05 / C11 / C12
# ---------------------------------------------------------------------------------------------------------------

def consumer_correspondence(chk, variant, n):
    """real `unit.execute` (scripted pool) vs the Lean consumer on the same inputs"""
    from harness.core import Driver
    drv = Driver("Engine")
    schema = load_schema("http://127.0.0.1:9", 2)
    rng = chk.rng
    runs, reqs = [], []
    import itertools
    alphabet = [{"k": "got", "e": {"k": "scenFinished", "id": 1, "st": st}, "sdy": False}
                for st in ("skip", "success", "failure", "error")] + [
        {"k": "got", "e": {"k": "scenStarted", "id": 2}, "sdy": False}, {"k": "got", "e": {"k": "nonFatal", "id": 1}, "sdy": False},
        {"k": "empty", "alive": True, "alive_each": [True, False, False], "qempty": True},
        {"k": "empty", "alive": False, "alive_each": [False, False, False], "qempty": False}]
    systematic = [list(seq) for L in (1, 2, 3) for seq in itertools.product(alphabet, repeat=L)]
    if not getattr(chk, "thorough", False):
        systematic = [q for q in systematic if len(q) < 3] + rng.sample([q for q in systematic if len(q) == 3], 120)
    plans = [(q, mf) for q in systematic for mf in (None,)] + \
            [(gen_consumer_inputs(rng, rng.randint(1, 14)), rng.choice([None, None, 1, 2, 3])) for _ in range(n)]
    for ins, mf in plans:
        real, ctl, used = drive_consumer(schema, [dict(i) for i in ins], mf)
        runs.append((used, mf, real, ctl))
        reqs.append(("consumer", {"variant": variant, "maxFailures": mf, "inputs": used}))
    outs = drv.batch(reqs)
    for (used, mf, real, ctl), m in zip(runs, outs):
        if "__err__" in m:
            from harness.core import InfraError
            raise InfraError(f"consumer model error {m}")
        mo = strip_ids(m["state"]["out"])
        mctl = m["state"]["ctl"]
        kinds = {i["k"] if i["k"] != "got" else "got:" + i["e"]["k"] for i in used}
        chk.case("consumer:unit.execute", key=[used, mf], nontrivial=len(used) >= 2,
                 sample={"inputs": used, "max_failures": mf, "stream": real})
        for k in kinds:
            chk.feature(f"consumer-input:{k}")
        same = mo == real and mctl["stop"] == ctl["stop"] and mctl["limit"] == ctl["limit"] and \
            (mf is None or mctl["failures"] == ctl["failures"])
        if not same:
            chk.disagreement("consumer:unit.execute", {"inputs": used, "max_failures": mf},
                             {"out": mo, "ctl": mctl}, {"out": real, "ctl": ctl})
        # failing-input search: the property's own predicates on what the real consumer did
        replay = {"inputs": used, "max_failures": mf, "real_stream": real, "real_ctl": ctl}
        prop = getattr(chk, "prop", "C05")
        closing = [e for e in real if e["k"] == "phaseFinished"]
        bad_seen = any((e["k"] == "scenFinished" and e["st"] in ("failure", "error")) or e["k"] == "nonFatal" for e in real)
        if closing and bad_seen and not ctl["stop"] and closing[-1]["st"] not in ("failure", "error"):
            chk.violation(f"{prop}:unit.execute:phase-status-hides-a-delivered-failure",
                          f"a failing scenario / NonFatalError was yielded but the phase finished {closing[-1]['st']} "
                          "(no stop request)", replay)
        n_fail = sum(1 for e in real if e["k"] == "scenFinished" and e["st"] in ("failure", "error"))
        if mf is not None and n_fail > mf:
            chk.violation(f"{prop}:unit.execute:more-failing-scenarios-yielded-than-max_failures",
                          f"{n_fail} failing scenarios yielded with max_failures={mf}", replay)
        # SV.Props.C11.consumer_interrupt_is_final / consumer_interrupt_at_most_once on the real stream: when no worker
        # reported an Interrupted, every Interrupted in the stream is the consumer's own: at most one, the stop flag is
        # set, and nothing but the two closing events follows it (INTERRUPTED once any event had been consumed)
        if prop == "C11" and not any(i["k"] == "got" and i["e"]["k"] == "interrupted" for i in used) \
                and not any(e["k"] == "KeyboardInterrupt-escaped" for e in real):
            pos = [j for j, e in enumerate(real) if e["k"] == "interrupted"]
            if pos:
                tail = real[pos[0] + 1:]
                consumed = any(i["k"] == "got" for i in used)
                ok_tail = tail == [] or (len(tail) == 2 and tail[0]["k"] == "suiteFinished" and tail[1]["k"] == "phaseFinished"
                                         and tail[0]["st"] == tail[1]["st"]
                                         and (not consumed or tail[0]["st"] == "interrupted"))
                if len(pos) > 1 or not ctl["stop"] or not ok_tail:
                    chk.violation(f"{prop}:unit.execute:consumer-Interrupted-is-not-final",
                                  "the consumer's own Interrupted must appear at most once, with the stop flag set, and be "
                                  f"followed only by the closing events of an INTERRUPTED phase; stream {[e['k'] for e in real]}, "
                                  f"stop flag {ctl['stop']}", replay)
        # the loop must not be left (no stop / limit / Ctrl-C) while a worker is alive or events are still queued
        last = used[-1] if used else None
        left_early = (closing and not ctl["stop"] and not ctl["limit"] and last is not None and last["k"] == "empty"
                      and (last["alive"] or (variant == "repaired" and not last["qempty"])))
        if left_early:
            chk.violation(f"{prop}:unit.execute:loop-left-while-a-worker-is-alive-or-events-are-queued",
                          "the consumer left its loop although a worker was still alive (or events were still queued): "
                          "everything reported afterwards is lost", replay)
        yield used, mf, real, ctl


def script_of(sc, idx):
    """abstraction: what the model expects an operation script to do (default check, no continue_on_failure)"""
    if sc["kind"] == "load_error":
        return {"id": idx, "sends": 0, "errs": 1, "final": "error", "bare": bool(sc.get("bare"))}
    if sc["kind"] == "create_error":
        return {"id": idx, "sends": 0, "errs": 1, "final": "error"}
    sts = sc["statuses"]
    first_bad = next((i for i, s in enumerate(sts) if s >= 500), None)
    if first_bad is None:
        return {"id": idx, "sends": len(sts), "errs": 0, "final": "success"}
    return {"id": idx, "sends": first_bad + 1, "errs": 0, "final": "failure"}


def gen_worker_scripts(rng, n_ops):
    out = []
    for _ in range(rng.randint(1, 5)):
        r = rng.random()
        if r < 0.12:
            out.append({"kind": "load_error", "bare": rng.random() < 0.4})
        elif r < 0.22:
            out.append({"op": rng.randrange(n_ops), "kind": "create_error"})
        else:
            out.append({"op": rng.randrange(n_ops), "kind": "cases",
                        "statuses": [rng.choice([200, 200, 200, 404, 500]) for _ in range(rng.randint(0, 4))]})
    # an operation label must not repeat inside one run (plans are keyed by label)
    seen, uniq = set(), []
    for sc in out:
        if "op" in sc:
            if sc["op"] in seen:
                continue
            seen.add(sc["op"])
        uniq.append(sc)
    return uniq


def worker_correspondence(chk, n):
    """real worker_task/run_test/cached_test_func/test_func against a loopback app vs the Lean worker"""
    import flask
    from harness.core import Driver, InfraError
    drv = Driver("Engine")
    log: list = []
    rng = chk.rng
    app = make_app(lambda p, k: int(flask.request.args.get("st", "200")), log)
    runs, reqs = [], []
    with Server(app) as srv:
        schema = load_schema(srv.url, 6)
        for _ in range(n):
            scripts = gen_worker_scripts(rng, 6)
            total_sends = sum(script_of(s, 0)["sends"] for s in scripts)
            stop = rng.choice([None, None] + list(range(1, total_sends + 1))) if total_sends else None
            limit = rng.random() < 0.05
            evs, sent, left, _ = drive_worker(schema, log, scripts, stop_after_sends=stop, limit_at_start=limit)
            model_ops = [script_of(s, i + 1) for i, s in enumerate(scripts)]
            runs.append((scripts, stop, limit, evs, sent, left))
            reqs.append(("worker", {"ops": model_ops, "stopAfterSends": stop, "limitAtStart": limit}))
    outs = drv.batch(reqs)
    for (scripts, stop, limit, evs, sent, left), m in zip(runs, outs):
        if "__err__" in m:
            raise InfraError(f"worker model error {m}")
        # the model numbers scenarios by script position; the real stream by first appearance: renumber the model
        ren, mo = {}, []
        for e in strip_ids(m["events"]):
            if "id" in e:
                ren.setdefault(e["id"], len(ren) + 1)
                e = {**e, "id": ren[e["id"]]}
            mo.append(e)
        chk.case("worker:worker_task", key=[scripts, stop, limit], nontrivial=bool(evs),
                 sample={"scripts": scripts, "stop_after_sends": stop, "events": evs})
        chk.feature(f"worker-stop:{'none' if stop is None else 'mid'}")
        for s in scripts:
            chk.feature(f"worker-script:{s['kind']}")
        if mo != evs or m["sends"] != sent or m["left"] != left:
            chk.disagreement("worker:worker_task", {"scripts": scripts, "stop_after_sends": stop, "limit": limit},
                             {"events": mo, "sends": m["sends"], "left": m["left"]},
                             {"events": evs, "sends": sent, "left": left})
        yield scripts, stop, limit, evs, sent, left


# ---------------------------------------------------------------------------------------------------------------
# F. the stateful phase: the suite loop (thread side) and the consumer, each driven against the Lean model
# ---------------------------------------------------------------------------------------------------------------

STATEFUL_RAW = {
    "openapi": "3.0.2", "info": {"title": "t", "version": "1"},
    "paths": {
        "/users": {"post": {"operationId": "createUser", "responses": {"201": {"description": "ok", "links": {
            "get": {"operationId": "getUser", "parameters": {"id": "$response.body#/id"}}}}}}},
        "/users/{id}": {"get": {"operationId": "getUser", "parameters": [
            {"name": "id", "in": "path", "required": True, "schema": {"type": "integer"}}],
            "responses": {"200": {"description": "ok"}}}}},
}

ENDINGS = ["ok", "keyboardInterrupt", "skipTest", "failureGroup", "flaky", "otherException"]


def canon_stateful(evs):
    ids, suites, out = {}, {}, []
    for e in evs:
        k = ev_kind(e)
        if k == "SuiteStarted":
            suites.setdefault(e.id, len(suites))
            out.append({"k": "suiteStarted", "n": suites[e.id]})
        elif k == "SuiteFinished":
            suites.setdefault(e.id, len(suites))
            out.append({"k": "suiteFinished", "n": suites[e.id], "st": STATUS[e.status]})
        elif k == "ScenarioStarted":
            ids.setdefault(e.id, len(ids) + 1)
            out.append({"k": "scenStarted", "id": ids[e.id]})
        elif k == "ScenarioFinished":
            ids.setdefault(e.id, len(ids) + 1)
            out.append({"k": "scenFinished", "id": ids[e.id], "st": STATUS[e.status]})
        elif k == "NonFatalError":
            out.append({"k": "nonFatal"})
        elif k == "Interrupted":
            out.append({"k": "interrupted"})
        elif k == "PhaseFinished":
            from schemathesis.engine.phases import PhaseSkipReason
            out.append({"k": "phaseFinished", "st": STATUS[e.status],
                        "ntt": e.phase.skip_reason == PhaseSkipReason.NOTHING_TO_TEST})
        else:
            out.append({"k": k})
    return out


def scenario_suite_mismatches(evs):
    """scenario events whose `suite_id` is not the id of the suite that is open when they are delivered"""
    open_suite, bad = None, []
    for i, e in enumerate(evs):
        k = ev_kind(e)
        if k == "SuiteStarted":
            open_suite = e.id
        elif k == "SuiteFinished":
            open_suite = None
        elif k in ("ScenarioStarted", "ScenarioFinished") and e.suite_id != open_suite:
            bad.append([i, k])
    return bad


def drive_stateful_thread(suites, max_failures=None):
    """real `execute_state_machine_loop` with a scripted state machine class; returns the canonical events it put"""
    import unittest
    import hypothesis.errors
    from schemathesis.core.failures import Failure, FailureGroup
    from schemathesis.engine.phases.stateful._executor import execute_state_machine_loop
    schema = load_schema("http://127.0.0.1:9", raw=STATEFUL_RAW)
    ctx = make_ctx(schema, max_failures)
    q: queue.Queue = queue.Queue()
    script = list(suites)
    counter = [0]

    class FakeSM:
        @classmethod
        def run(cls, settings=None):
            s = script.pop(0)
            for st in s["scen_statuses"]:
                started = events.ScenarioStarted(label=None, phase=PhaseName.STATEFUL_TESTING, suite_id=uuid.uuid4())
                q.put(started)
                q.put(events.ScenarioFinished(id=started.id, suite_id=started.suite_id, phase=PhaseName.STATEFUL_TESTING,
                                              label=None, status=Status(st), recorder=ScenarioRecorder(label="s"),
                                              elapsed_time=0.0, skip_reason=None, is_final=False))
            nxt = script[0] if script else None
            if nxt is not None and nxt.get("interruptedAtStart"):
                ctx.stop()      # seen by the *next* iteration right after its SuiteStarted
            e = s["ending"]
            if s.get("limitReached"):
                ctx.control.has_reached_the_failure_limit = True
            if e == "ok":
                return
            if e == "keyboardInterrupt":
                raise KeyboardInterrupt
            if e == "skipTest":
                raise unittest.SkipTest("no examples")
            if e == "failureGroup":
                counter[0] += 1
                raise FailureGroup([Failure(operation="GET /x", title="t", message=f"m{counter[0]}")])
            if e == "flaky":
                raise hypothesis.errors.Flaky("flaky")
            raise RuntimeError("internal")

    if suites and suites[0].get("interruptedAtStart"):
        ctx.stop()
    execute_state_machine_loop(state_machine=FakeSM, event_queue=q, engine=ctx)
    evs = []
    while not q.empty():
        evs.append(q.get_nowait())
    return canon_stateful(evs)


def gen_suites(rng):
    out = []
    for i in range(rng.randint(1, 4)):
        out.append({"scen_statuses": [rng.choice(["success", "failure", "skip", "error"]) for _ in range(rng.randint(0, 3))],
                    "ending": rng.choice(ENDINGS), "interruptedAtStart": (i > 0 and rng.random() < 0.08) or (i == 0 and rng.random() < 0.04),
                    "limitReached": rng.random() < 0.25})
    # the loop continues after a failed suite: always script one more run that ends normally
    out.append({"scen_statuses": [], "ending": "ok", "interruptedAtStart": False, "limitReached": False})
    return out


def stateful_thread_correspondence(chk, n):
    from harness.core import Driver
    drv = Driver("Engine")
    rng = chk.rng
    flaky_variant = detect_flaky_variant()
    runs, reqs = [], []
    for _ in range(n):
        suites = gen_suites(rng)
        real = drive_stateful_thread(suites)
        msuites, sid = [], 0
        for s in suites:
            scen = []
            for st in s["scen_statuses"]:
                sid += 1
                scen += [{"k": "scenStarted", "id": sid}, {"k": "scenFinished", "id": sid, "st": st}]
            # the scripted machine never collects a check failure: on a tree with the repaired Flaky arm a "flaky" ending is
            # the model's `flakyNoFailure` (error, leave the loop); on the tree as found both behave as `flaky`
            ending = "flakyNoFailure" if s["ending"] == "flaky" and flaky_variant == "repaired" else s["ending"]
            msuites.append({"scen": scen, "ending": ending, "interruptedAtStart": s["interruptedAtStart"],
                            "limitReached": s["limitReached"]})
        runs.append((suites, real))
        reqs.append(("stateful_thread", {"suites": msuites}))
    for (suites, real), m in zip(runs, drv.batch(reqs)):
        # the model numbers scenario ids over all scripted suites; renumber by appearance like the real stream
        ren, mo = {}, []
        for e in m:
            if "id" in e:
                ren.setdefault(e["id"], len(ren) + 1)
                e = {**e, "id": ren[e["id"]]}
            mo.append(e)
        chk.case("stateful-thread:execute_state_machine_loop", key=suites, sample={"suites": suites, "events": real})
        for s in suites:
            chk.feature(f"stateful-ending:{s['ending']}")
        if mo != real:
            chk.disagreement("stateful-thread:execute_state_machine_loop", suites, mo, real)
        # failing-input search: the suite bracket on what the real loop put (mirror of Stateful.suitesWf)
        prop = getattr(chk, "prop", "C11")
        open_suite, bad = None, None
        for e in real:
            if e["k"] == "suiteStarted":
                if open_suite is not None:
                    bad = "a suite was opened while another one was still open"
                open_suite = e["n"]
            elif e["k"] == "suiteFinished":
                if open_suite != e["n"]:
                    bad = "SuiteFinished for a suite that was not (or no longer) open"
                open_suite = None
            elif e["k"] in ("scenStarted", "scenFinished") and open_suite is None:
                bad = "scenario event outside a suite"
        if open_suite is not None:
            bad = "a suite was never closed"
        if bad:
            chk.violation(f"{prop}:execute_state_machine_loop:suite-bracket-broken", bad, {"suites": suites, "events": real})
        ran = []
        for sc in suites:
            if sc["interruptedAtStart"]:
                break
            ran.append(sc)
            if not (sc["ending"] in (("failureGroup", "flaky") if flaky_variant == "asFound" else ("failureGroup",))
                    and not sc["limitReached"]):
                break
        failing_end = any(sc["ending"] in ("failureGroup", "flaky", "otherException") for sc in ran)
        if failing_end and not any(e["k"] == "suiteFinished" and e["st"] in ("failure", "error") for e in real):
            chk.violation(f"{prop}:execute_state_machine_loop:failed-run-not-reflected-in-any-suite-status",
                          "a state-machine run ended with a failure/error but no suite was closed as FAILURE/ERROR",
                          {"suites": suites, "events": real})
        yield suites, real


def stateful_consumer_correspondence(chk, n):
    """real `stateful.execute` with the thread body replaced by a scripted producer"""
    from harness.core import Driver
    from schemathesis.engine.phases import stateful as stateful_phase
    from schemathesis.engine.phases.stateful import _executor as st_exec
    drv = Driver("Engine")
    rng = chk.rng
    schema = load_schema("http://127.0.0.1:9", raw=STATEFUL_RAW)
    runs, reqs = [], []
    for _ in range(n):
        gets = []
        for k in range(rng.randint(0, 3)):
            gets.append({"k": "suiteStarted", "n": k})
            for i in range(rng.randint(0, 2)):
                gets += [{"k": "scenStarted", "id": 10 * k + i + 1},
                         {"k": "scenFinished", "id": 10 * k + i + 1, "st": rng.choice(["success", "failure", "error"])}]
            if rng.random() < 0.2:
                gets.append({"k": "nonFatal"})
            gets.append({"k": "suiteFinished", "n": k, "st": rng.choice(["success", "failure", "error", "skip", "interrupted"])})
        suite_ids = {}
        scen_ids = {}

        def real_ev(e):
            k = e["k"]
            if k == "suiteStarted":
                ev = events.SuiteStarted(phase=PhaseName.STATEFUL_TESTING)
                suite_ids[e["n"]] = ev.id
                return ev
            if k == "suiteFinished":
                return events.SuiteFinished(id=suite_ids.get(e["n"], uuid.uuid4()), phase=PhaseName.STATEFUL_TESTING,
                                            status=Status(e["st"]))
            if k == "scenStarted":
                ev = events.ScenarioStarted(label=None, phase=PhaseName.STATEFUL_TESTING, suite_id=uuid.uuid4())
                scen_ids[e["id"]] = ev.id
                return ev
            if k == "scenFinished":
                return events.ScenarioFinished(id=scen_ids[e["id"]], suite_id=uuid.uuid4(), phase=PhaseName.STATEFUL_TESTING,
                                               label=None, status=Status(e["st"]), recorder=ScenarioRecorder(label="s"),
                                               elapsed_time=0.0, skip_reason=None, is_final=False)
            return events.NonFatalError(error=RuntimeError("x"), phase=PhaseName.STATEFUL_TESTING, label="Stateful tests",
                                        related_to_operation=False)

        def producer(*, state_machine, event_queue, engine):
            for e in gets:
                event_queue.put(real_ev(e))
                if rng.random() < 0.3:
                    time_sleep(0.012)

        import time as _t
        time_sleep = _t.sleep
        ctx = make_ctx(schema)
        phase = Phase(name=PhaseName.STATEFUL_TESTING, is_supported=True, is_enabled=True)
        with mock.patch.object(st_exec, "execute_state_machine_loop", producer):
            out = list(stateful_phase.execute(ctx, phase))
        runs.append((gets, canon_stateful(out)))
        reqs.append(("stateful_consume", {"gets": gets, "ki": False}))
    for (gets, real), m in zip(runs, drv.batch(reqs)):
        # scenario ids: model keeps the scripted ids, the real stream numbers by appearance
        ren, mo = {}, []
        for e in m:
            if "id" in e:
                ren.setdefault(e["id"], len(ren) + 1)
                e = {**e, "id": ren[e["id"]]}
            mo.append(e)
        chk.case("stateful-consumer:stateful.execute", key=gets, nontrivial=bool(gets), sample={"gets": gets, "stream": real})
        if mo != real:
            chk.disagreement("stateful-consumer:stateful.execute", gets, mo, real)
        yield gets, real


def stateful_interrupt_probe(chk):
    """Ctrl-C during the stateful phase: when the consumer is handed `Interrupted`, the stop flag must already be set —
    the state-machine thread keeps running while the consumer handles the event, and it only stops sending requests once it
    sees the flag.  Real `stateful.execute`; the thread body is a scripted producer that goes on "sending" until it sees
    the flag; KeyboardInterrupt is raised from the consumer's k-th `get`; the consumer is slow to come back for more."""
    import time as _t
    from schemathesis.engine.phases import stateful as stateful_phase
    from schemathesis.engine.phases.stateful import _executor as st_exec
    schema = load_schema("http://127.0.0.1:9", raw=STATEFUL_RAW)
    for k in (1, 2, 4):
        ctx = make_ctx(schema)
        sent_after_report = []
        reported = threading.Event()

        def producer(*, state_machine, event_queue, engine):
            event_queue.put(events.SuiteStarted(phase=PhaseName.STATEFUL_TESTING))
            t0 = _t.time()
            while not engine.has_to_stop and _t.time() - t0 < 5:
                if reported.is_set():
                    sent_after_report.append(_t.time())      # a request that goes out after the run was reported interrupted
                _t.sleep(0.005)

        RealQueue = queue.Queue

        class KiQueue(RealQueue):
            n = 0

            def get(self, *a, **kw):
                if threading.current_thread() is threading.main_thread() or threading.current_thread().name == "MainThread":
                    KiQueue.n += 1
                    if KiQueue.n == k:
                        raise KeyboardInterrupt
                return super().get(*a, **kw)

        phase = Phase(name=PhaseName.STATEFUL_TESTING, is_supported=True, is_enabled=True)
        seen = []
        with mock.patch.object(st_exec, "execute_state_machine_loop", producer), \
                mock.patch.object(stateful_phase.queue, "Queue", KiQueue):
            gen = stateful_phase.execute(ctx, phase)
            for ev in gen:
                kind = ev_kind(ev)
                seen.append((kind, ctx.has_to_stop))
                if kind == "Interrupted":
                    reported.set()
                    _t.sleep(0.15)          # the consumer handles the event before it asks for the next one
        flag_at_report = [f for kd, f in seen if kd == "Interrupted"]
        chk.case("stateful:interrupt", key=[k], nontrivial=True,
                 sample={"ki_at_get": k, "events": [kd for kd, _ in seen], "stop_flag_when_Interrupted_is_delivered": flag_at_report,
                         "producer_iterations_after_the_report": len(sent_after_report)})
        chk.feature(f"stateful:interrupt:reported={bool(flag_at_report)}")
        if not flag_at_report:
            chk.violation(f"{chk.prop}:stateful.execute:KeyboardInterrupt-not-reported",
                          f"KeyboardInterrupt at the consumer's get #{k}: no Interrupted event ({[kd for kd, _ in seen]})",
                          {"mechanism": "stateful_interrupt_probe", "k": k})
        elif flag_at_report != [True] or sent_after_report:
            chk.violation(f"{chk.prop}:stateful.execute:reported-Interrupted-before-the-stop-flag-is-set",
                          f"KeyboardInterrupt at the consumer's get #{k}: when Interrupted is delivered the stop flag is "
                          f"{flag_at_report}; the state-machine thread went on for {len(sent_after_report)} more iterations "
                          f"while the consumer handled the event",
                          {"mechanism": "stateful_interrupt_probe", "k": k, "events": seen})


# ---------------------------------------------------------------------------------------------------------------
# G. the instrumented state machine: the real `_InstrumentedStateMachine` (setup / step / validate_response /
#    teardown), `StatefulContext`, `ExecutionControl` and every arm of `execute_state_machine_loop`, driven by a
#    scripted stand-in for Hypothesis, against SV/Model/StatefulMachine.lean (driver ops sm_ops / sm_thread)
# ---------------------------------------------------------------------------------------------------------------

class _Boom(BaseException):
    """a BaseException that is neither KeyboardInterrupt nor an Exception"""


N_SM_CHECKS = 3


class MachineRig:
    def __init__(self, max_failures=None, unique=False, max_examples=100):
        from schemathesis.core.failures import Failure, FailureGroup
        from schemathesis.core.transport import Response
        self.Failure, self.FailureGroup = Failure, FailureGroup
        self.schema = load_schema("http://127.0.0.1:9", raw=STATEFUL_RAW)
        self.op = self.schema["/users/{id}"]["GET"]
        self.cur = None            # the step being executed
        self.calls = 0
        self.machines = []         # every constructed machine, in order
        self.q: queue.Queue = queue.Queue()
        rig = self

        def mk_check(i):
            def chk(ctx, response, case):
                outs = rig.cur["call"]
                o = outs[i] if i < len(outs) else "pass"
                if o == "pass":
                    return None
                if o == "crash":
                    raise RuntimeError("check crashed")
                fs = [rig.failure(f) for f in o]
                if len(fs) == 1:
                    raise fs[0]
                raise FailureGroup(fs)
            chk.__name__ = f"chk{i}"
            return chk

        self.engine = make_ctx(self.schema, max_failures, unique_inputs=unique, checks=[mk_check(i) for i in range(N_SM_CHECKS)],
                               hypothesis_settings=hypothesis.settings(max_examples=max_examples, database=None, deadline=None))
        req = requests.Request("GET", "http://127.0.0.1:9/users/1").prepare()

        class Scripted(self.schema.as_state_machine()):
            def call(self, case, **kwargs):
                rig.calls += 1
                c = rig.cur["call"]
                if c == "raises":
                    raise RuntimeError("transport")
                if c == "interrupted":
                    raise KeyboardInterrupt
                if c == "baseExc":
                    raise _Boom()
                return Response(status_code=200, headers={}, content=b"{}", request=req, elapsed=0.1, verify=False)

            @classmethod
            def run(cls, *, settings=None):
                return rig.on_run(cls)

        self.Scripted = Scripted
        self._cases = {}
        self.on_run = None
        self.sctx = None
        self.teardown_fails = False

    def teardown(self, machine, fails=False):
        """`machine.teardown()`; `fails`: ctx.maximize_metrics() raises (a target metric that cannot be aggregated)"""
        from schemathesis.generation.targets import TargetMetricCollector

        def maximize(collector):
            if fails:
                raise TypeError("unsupported operand type(s) for +: 'int' and 'NoneType'")
        with mock.patch.object(TargetMetricCollector, "maximize", maximize):
            machine.teardown()

    def failure(self, f):
        return self.Failure(operation=self.op.label, title="t", message=f"k{f}")

    def case(self, key):
        # one Case object per key and use: hash(case) is the hash of its curl command, so equal keys collide as intended
        return self.op.Case(path_parameters={"id": key})

    def grab(self, cls):
        fn = cls.__dict__["teardown"]
        self.sctx = dict(zip(fn.__code__.co_freevars, fn.__closure__))["ctx"].cell_contents

    def construct(self, cls, fails=False):
        if fails:
            with mock.patch.object(type(self.engine), "get_check_context", side_effect=RuntimeError("no check context")):
                cls()
        m = cls()
        self.machines.append(m)
        return m

    def do_step(self, machine, st):
        """one rule invocation as `transition.step_function` performs it; returns the canonical step result"""
        from schemathesis.generation.stateful.state_machine import StepInput
        if st.get("stopBefore"):
            self.engine.stop()
        self.cur = st
        case = self.case(st["case"])
        machine.recorder.record_case(parent_id=None, transition=None, case=case)
        try:
            r = machine.step(StepInput.initial(case))
            return ("returnedNone" if r is None else "returned"), None
        except self.FailureGroup as exc:
            return sorted(int(f.message[1:]) for f in exc.exceptions), exc
        except KeyboardInterrupt as exc:
            return "ki", exc
        except Exception as exc:
            return "exception", exc
        except BaseException as exc:
            return "baseExc", exc

    def state(self):
        s, c = self.sctx, self.engine.control
        keyof = {hash(self.case(k)): k for k in range(8)}

        def kind(o):
            if o is None:
                return "none"
            if isinstance(o, self.Failure):
                return "failure"
            return "exception" if isinstance(o, Exception) else "baseExc"
        evs = []
        while not self.q.empty():
            evs.append(self.q.get_nowait())
        self._evs = getattr(self, "_evs", []) + evs
        rec = []
        for i, m in enumerate(self.machines):
            for nodes in m.recorder.checks.values():
                for n in nodes:
                    if n.failure_info is not None:
                        rec.append([i + 1, int(n.failure_info.failure.message[1:])])
        return {"ctl": {"stop": c.is_interrupted, "failures": c._failures_counter, "limit": c.has_reached_the_failure_limit},
                "seenRun": sorted(int(f.message[1:]) for f in s.seen_in_run),
                "seenSuite": sorted(int(f.message[1:]) for f in s.seen_in_suite),
                "stepStatus": None if s.current_step_status is None else STATUS[s.current_step_status],
                "completed": s.completed_scenarios,
                "outcomes": sorted([keyof.get(h, -1), kind(o)] for h, o in s.step_outcomes.items()),
                "out": canon_stateful(self._evs), "recorded": sorted(rec), "calls": self.calls,
                "suiteIdMismatch": scenario_suite_mismatches(self._evs)}


def canon_model_state(m):
    """model state -> the shape MachineRig.state() produces"""
    seen, outs = set(), []
    for c, o in m["outcomes"]:
        if c not in seen:
            seen.add(c)
            outs.append([c, o])
    ren, out = {}, []
    for e in m["out"]:
        if "id" in e:
            ren.setdefault(e["id"], len(ren) + 1)
            e = {**e, "id": ren[e["id"]]}
        out.append(e)
    # the model numbers scenarios by id; the rig numbers *machines* (a failed setup constructs none): same numbering
    rec = sorted([ren.get(i, i), f] for i, f in m["recorded"])
    return {"ctl": m["ctl"], "seenRun": sorted(set(m["seenRun"])), "seenSuite": sorted(set(m["seenSuite"])), "stepStatus": m["stepStatus"],
            "completed": m["completed"], "outcomes": sorted(outs), "out": out, "recorded": rec, "calls": m["calls"],
            # in the model a scenario's events are built under the suite they are put in: no event names another suite
            "suiteIdMismatch": []}


@contextmanager
def _build_context():
    from hypothesis.control import BuildContext
    from hypothesis.internal.conjecture.data import ConjectureData
    with BuildContext(ConjectureData.for_choices([]), is_final=False, wrapped_test=lambda: None):
        yield


def drive_machine_ops(ops, max_failures=None, unique=False):
    """arbitrary sequences of setup / step / teardown on the real instrumented machine (one suite)"""
    from schemathesis.engine.phases.stateful._executor import execute_state_machine_loop
    rig = MachineRig(max_failures, unique)
    res = {}

    def on_run(cls):
        rig.grab(cls)
        machine, results = None, []
        with _build_context():
            for op in ops:
                if op["op"] == "setup":
                    try:
                        machine = rig.construct(cls, op.get("fails", False))
                        results.append(True)
                    except RuntimeError:
                        results.append(False)
                elif op["op"] == "step":
                    results.append(rig.do_step(machine, op)[0])
                else:
                    try:
                        rig.teardown(machine, op.get("fails", False))
                        results.append(None)
                    except TypeError:
                        results.append("raised")
        res["results"], res["state"] = results, rig.state()

    rig.on_run = on_run
    execute_state_machine_loop(state_machine=rig.Scripted, event_queue=rig.q, engine=rig.engine)
    st = res["state"]
    st["out"] = [e for e in st["out"] if e["k"] != "suiteStarted"]
    return res["results"], st


def gen_sm_call(rng, keys=(1, 2, 3)):
    r = rng.random()
    if r < 0.08:
        return "raises"
    if r < 0.11:
        return "interrupted"
    if r < 0.14:
        return "baseExc"
    checks = []
    for _ in range(rng.randint(0, N_SM_CHECKS)):
        x = rng.random()
        if x < 0.55:
            checks.append("pass")
        elif x < 0.62:
            checks.append("crash")
        else:
            checks.append([rng.choice(keys) for _ in range(rng.choice([1, 1, 1, 2, 3]))])
    return checks


def gen_sm_ops(rng):
    """mostly Hypothesis-shaped (setup, steps, teardown), sometimes not (steps after a raising step, a machine abandoned
    without teardown); never an operation on a machine that was not constructed or was already torn down"""
    ops = []
    for _ in range(rng.randint(1, 4)):
        fails = rng.random() < 0.1
        ops.append({"op": "setup", "fails": fails})
        if fails:
            continue
        for _ in range(rng.randint(0, 4)):
            ops.append({"op": "step", "case": rng.choice([1, 1, 2, 3]), "stopBefore": rng.random() < 0.04, "call": gen_sm_call(rng)})
        if rng.random() < 0.9:
            ops.append({"op": "teardown", "fails": rng.random() < 0.08})
    return ops


def machine_ops_correspondence(chk, n):
    from harness.core import Driver
    drv = Driver("Engine")
    rng = chk.rng
    runs, reqs = [], []
    for _ in range(n):
        ops = gen_sm_ops(rng)
        mf = rng.choice([None, None, 1, 2, 3])
        unique = rng.random() < 0.5
        results, state = drive_machine_ops(ops, mf, unique)
        runs.append((ops, mf, unique, results, state))
        reqs.append(("sm_ops", {"ops": ops, "maxFailures": mf, "unique": unique}))
    for (ops, mf, unique, results, state), m in zip(runs, drv.batch(reqs)):
        inp = {"ops": ops, "maxFailures": mf, "unique": unique}
        mres = [sorted(r) if isinstance(r, list) else r for r in m["results"]]
        mstate = canon_model_state(m["state"])
        chk.case("stateful-machine:_InstrumentedStateMachine", key=inp, sample={"ops": ops, "results": results})
        for r in results:
            chk.feature("sm-step:" + ("failureGroup" if isinstance(r, list) else str(r)))
        if mres != results or mstate != state:
            chk.disagreement("stateful-machine:_InstrumentedStateMachine", inp, {"results": mres, "state": mstate},
                             {"results": results, "state": state})
        yield inp, results, state


def drive_machine_thread(runs, max_failures=None, unique=False, max_examples=100):
    """the real loop with Hypothesis replaced by a script: per iteration the scenarios it runs and how `run` ends.
    Returns (final state, number of iterations the loop began)."""
    import unittest
    import hypothesis.errors
    from schemathesis.engine.phases.stateful import _executor as st_exec
    rig = MachineRig(max_failures, unique, max_examples)
    script = list(runs)
    it = [0]          # iterations begun (= SuiteStarted events built)

    class OutOfScript(Exception):
        pass

    real_suite_started = events.SuiteStarted

    def suite_started(*a, **k):
        # the first thing an iteration does: the place where "the stop event is set before the is_interrupted test" goes
        r = script[it[0]] if it[0] < len(script) else None
        it[0] += 1
        if r is not None and r.get("stopBeforeSuite"):
            rig.engine.stop()
        return real_suite_started(*a, **k)

    def on_run(cls):
        rig.grab(cls)
        if it[0] > len(script):
            raise OutOfScript()        # the loop wants another iteration: the script is exhausted
        r = script[it[0] - 1]
        with _build_context():
            for sc in r["scens"]:
                try:
                    machine = rig.construct(cls, sc.get("setupFails", False))
                except RuntimeError:
                    continue
                try:
                    try:
                        for st in sc["steps"]:
                            res, exc = rig.do_step(machine, st)
                            if res in ("ki", "baseExc"):
                                raise exc
                            if exc is not None:
                                break
                    finally:
                        rig.teardown(machine, sc.get("teardownFails", False))
                except (KeyboardInterrupt, _Boom):
                    raise
                except Exception:  # noqa: BLE001 - Hypothesis records the failing example and goes on
                    continue
        h = r["hyp"]
        if h == "skipTest":
            raise unittest.SkipTest("no examples")
        if isinstance(h, list):
            raise rig.FailureGroup([rig.failure(f) for f in h])
        if h == "flaky":
            raise hypothesis.errors.Flaky("flaky")
        if h == "unsatisfiable":
            raise hypothesis.errors.Unsatisfiable("unsat")
        if h == "otherException":
            raise RuntimeError("internal")

    rig.on_run = on_run
    try:
        with mock.patch.object(st_exec.events, "SuiteStarted", suite_started):
            st_exec.execute_state_machine_loop(state_machine=rig.Scripted, event_queue=rig.q, engine=rig.engine)
    except _Boom:
        pass
    if rig.sctx is None:
        # interrupted before the first run: no machine class was ever handed out; the context is untouched
        return None, it[0]
    return rig.state(), it[0]


def gen_sm_runs(rng):
    runs = []
    for i in range(rng.randint(1, 4)):
        scens = []
        for _ in range(rng.randint(0, 3)):
            scens.append({"setupFails": rng.random() < 0.06, "teardownFails": rng.random() < 0.06,
                          "steps": [{"case": rng.choice([1, 1, 2, 3]), "stopBefore": rng.random() < 0.03, "call": gen_sm_call(rng, (1, 2, 3, 4))}
                                    for _ in range(rng.randint(0, 3))]})
        x = rng.random()
        hyp = ("ok" if x < 0.15 else "skipTest" if x < 0.2 else "flaky" if x < 0.5 else "unsatisfiable" if x < 0.6
               else "otherException" if x < 0.68 else [rng.choice([1, 2, 3, 4]) for _ in range(rng.randint(1, 2))])
        runs.append({"scens": scens, "hyp": hyp, "stopBeforeSuite": rng.random() < 0.05})
    return runs


def detect_flaky_variant():
    """which `except Flaky` arm does the tree have?  Witness: a run that ends Flaky without any check failure."""
    runs = [{"scens": [{"steps": [{"case": 1, "call": "raises"}]}, {"steps": [{"case": 1, "call": []}]}], "hyp": "flaky"},
            {"scens": [], "hyp": "ok"}]
    _, n = drive_machine_thread(runs)
    return "asFound" if n == 2 else "repaired"


def machine_thread_correspondence(chk, n):
    from harness.core import Driver
    drv = Driver("Engine")
    rng = chk.rng
    variant = detect_flaky_variant()
    chk.notes.append(f"execute_state_machine_loop `except Flaky` arm: variant {variant} (detected by witness)")
    runs_, reqs = [], []
    for _ in range(n):
        runs = gen_sm_runs(rng)
        mf = rng.choice([None, None, 1, 2])
        unique = rng.random() < 0.3
        mx = rng.choice([1, 2, 3, 100])
        # the loop may want more iterations than scripted: give it a closing one
        full = runs + [{"scens": [], "hyp": "ok", "stopBeforeSuite": False}] * 8
        state, used = drive_machine_thread(full, mf, unique, mx)
        runs_.append((full, mf, unique, mx, state, used))
        reqs.append(("sm_thread", {"variant": variant, "runs": full, "maxFailures": mf, "unique": unique, "maxExamples": mx}))
    for (runs, mf, unique, mx, state, used), m in zip(runs_, drv.batch(reqs)):
        inp = {"runs": runs[:used + 1], "maxFailures": mf, "unique": unique, "maxExamples": mx}
        chk.case("stateful-machine:execute_state_machine_loop+machine", key=inp, sample={"input": inp, "suites": used})
        for r in runs[:max(used, 1)]:
            chk.feature("sm-hyp:" + ("failureGroup" if isinstance(r["hyp"], list) else r["hyp"]))
        if state is None:
            # stop before the first suite: compare the events only (drained below)
            continue
        mstate = canon_model_state(m["state"])
        n_suites = sum(1 for e in state["out"] if e["k"] == "suiteStarted")
        if mstate != state or m["suites"] != n_suites:
            chk.disagreement("stateful-machine:execute_state_machine_loop+machine", inp,
                             {"state": mstate, "suites": m["suites"]}, {"state": state, "suites": n_suites})
        yield inp, state, used


def sm_stream_violation(out):
    """Python mirror of SV.Spec.SM.wfRun / idsFrom on a canonical stateful stream: None if accepted, else why not"""
    suite, scen, seen_ids = None, None, set()
    for e in out:
        k = e["k"]
        if k == "suiteStarted":
            if suite is not None or scen is not None:
                return "a suite is opened while a suite or a scenario is still open"
            suite = e["n"]
        elif k == "suiteFinished":
            if suite != e["n"] or scen is not None:
                return "SuiteFinished for a suite that is not open, or while a scenario is still open"
            suite = None
        elif k == "scenStarted":
            if suite is None or scen is not None:
                return "ScenarioStarted outside a suite or while another scenario is open"
            if e["id"] in seen_ids:
                return "scenario id used twice"
            seen_ids.add(e["id"])
            scen = e["id"]
        elif k == "scenFinished":
            if scen != e["id"]:
                return "ScenarioFinished without its ScenarioStarted (or for another scenario)"
            scen = None
        elif k in ("nonFatal", "interrupted"):
            if suite is None or scen is not None:
                return f"{k} outside a suite or inside a scenario"
        else:
            return f"unexpected event {k}"
    if suite is not None or scen is not None:
        return "a suite or a scenario is left open"
    return None


INTERMITTENT_KF = "stateful:execute_state_machine_loop:intermittent-error-never-ends"


def intermittent_error_probe(chk, prop, max_failures=1, suite_cap=8):
    """failing-input search for the Flaky arm on the REAL engine and the real Hypothesis: an internal error that occurs on
    every other call (so it never repeats when Hypothesis replays the scenario).  The stateful phase must end, and the
    error must be reported."""
    n = [0]

    def intermittent(ctx, response, case):
        n[0] += 1
        if n[0] % 2 == 1:
            raise RuntimeError("intermittent internal error")

    from flask import Flask, jsonify
    app = Flask("verif-sm")

    @app.route("/users", methods=["POST"])
    def create():
        return jsonify({"id": 1}), 201

    @app.route("/users/<int:i>", methods=["GET"])
    def get(i):
        return jsonify({"id": i}), 200

    with Server(app) as srv:
        schema = load_schema(srv.url, raw=STATEFUL_RAW)
        cfg = engine_config(phases=[PhaseName.STATEFUL_TESTING], max_failures=max_failures, max_examples=6, checks=[intermittent])
        suites = [0]
        errored = [0]
        nonfatal = [0]

        def on_event(ev, stream):
            k = ev_kind(ev)
            if k == "SuiteStarted" and ev.phase == PhaseName.STATEFUL_TESTING:
                suites[0] += 1
                if suites[0] >= suite_cap:
                    stream.stop()
            if k == "ScenarioFinished" and ev.status == Status.ERROR:
                errored[0] += 1
            if k == "NonFatalError":
                nonfatal[0] += 1
        evs = run_engine(schema, cfg, on_event=on_event)
    last = [e for e in evs if ev_kind(e) == "PhaseFinished" and e.phase.name == PhaseName.STATEFUL_TESTING]
    info = {"suites": suites[0], "errored_scenarios": errored[0], "non_fatal_errors": nonfatal[0], "max_failures": max_failures,
            "phase_status": STATUS[last[-1].status] if last else None, "suite_cap": suite_cap,
            "how": "stateful phase, 2-operation API with one link, one custom check that raises RuntimeError on every odd call"}
    chk.case("stateful-machine:intermittent-error:engine-run", key=[max_failures], sample=info)
    if suites[0] >= suite_cap:
        chk.violation(f"{prop}:{INTERMITTENT_KF}",
                      f"an internal error that does not repeat on replay keeps the stateful phase running: {suites[0]} suites "
                      f"(stopped by the harness), {errored[0]} errored scenarios with max_failures={max_failures}, no error reported",
                      info)
    elif errored[0] and not nonfatal[0]:
        chk.violation(f"{prop}:stateful:intermittent-error:not-reported", "an errored scenario but no error event", info)
    return info


def stateful_machine_checks(chk, n_ops, n_thread, prop):
    """correspondence of the machine model + the specification predicates on what the real code produced"""
    for inp, results, state in machine_ops_correspondence(chk, n_ops):
        # C05: every failure marked as seen in this suite was recorded for some scenario (nothing is swallowed on the way)
        rec = {f for _, f in state["recorded"]}
        missing = [f for f in state["seenSuite"] if f not in rec]
        if missing:
            chk.violation(f"{prop}:stateful:validate_response:failure-marked-seen-but-not-recorded",
                          f"failures {missing} were marked as seen in the suite but no scenario recorder holds them", inp)
        # C12: with a limit the counter is the number of recorded failures, and the flag is set iff it reached the limit
        mf = inp["maxFailures"]
        if mf is not None:
            if state["ctl"]["failures"] != len(state["recorded"]) or state["ctl"]["limit"] != (len(state["recorded"]) >= mf):
                chk.violation(f"{prop}:stateful:count_failure:counter-or-limit-flag-disagrees-with-recorded-failures",
                              f"{len(state['recorded'])} failures recorded, control says {state['ctl']}", inp)
    for inp, state, used in machine_thread_correspondence(chk, n_thread):
        bad = sm_stream_violation(state["out"])
        if bad:
            chk.violation(f"{prop}:stateful:thread-stream-not-well-nested", bad, {**inp, "out": state["out"]})
        if state.get("suiteIdMismatch"):
            chk.violation(f"{prop}:stateful:scenario-carries-the-id-of-another-suite-than-the-one-it-is-nested-in",
                          f"{len(state['suiteIdMismatch'])} scenario events carry a suite_id that is not the open suite's "
                          f"(first: event #{state['suiteIdMismatch'][0][0]} {state['suiteIdMismatch'][0][1]})",
                          {**inp, "out": state["out"], "mismatches": state["suiteIdMismatch"][:6]})
        # C12: a stop requested before an iteration begins (before its is_interrupted test): no scenario is started any more
        k_stop = next((k for k, r in enumerate(inp["runs"]) if r.get("stopBeforeSuite")), None)
        earlier_stop = k_stop is not None and any(stp.get("stopBefore") or stp["call"] in ("interrupted", "baseExc")
                                                 for r in inp["runs"][:k_stop] for sc in r["scens"] for stp in sc["steps"])
        if k_stop is not None and not earlier_stop:
            seen_suites, after = 0, []
            for e in state["out"]:
                if e["k"] == "suiteStarted":
                    seen_suites += 1
                if seen_suites > k_stop:
                    after.append(e)
            if any(e["k"] == "scenStarted" for e in after):
                chk.violation(f"{prop}:stateful:scenario-started-after-stop-request",
                              f"the stop event was set before iteration #{k_stop} began, yet a scenario was started in it: "
                              f"{[e['k'] for e in after]}", {**inp, "out": state["out"]})
        # C05: a run that Hypothesis ends with a failure / flaky / error never leaves every suite SUCCESS or SKIP
        hyps = [r["hyp"] for r in inp["runs"][:max(used, 1)]]
        closed = [e["st"] for e in state["out"] if e["k"] == "suiteFinished"]
        ran = len([e for e in state["out"] if e["k"] == "suiteStarted"])
        for r, h, st in zip(inp["runs"], hyps, closed):
            # runs in which a stop request, Ctrl-C or another BaseException occurs end by those, not by Hypothesis' verdict
            if r.get("stopBeforeSuite") or any(stp.get("stopBefore") or stp["call"] in ("interrupted", "baseExc")
                                               for sc in r["scens"] for stp in sc["steps"]):
                break
            if (isinstance(h, list) or h in ("flaky", "otherException")) and st in ("success", "skip"):
                chk.violation(f"{prop}:stateful:failed-run-closed-as-{st}", f"run ended {h} but its suite was closed {st}",
                              {**inp, "out": state["out"]})
    chk.proved += ["StatefulMachine: stateful_thread_wellformed (every Hypothesis/API/check behaviour), new_failure_reported, "
                   "scenario_closed_as_failed, nothing_sent_after_stop, loop_terminates_repaired, loop_asFound_unbounded"]
