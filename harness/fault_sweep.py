"""Single-fault sweep over the per-operation pipeline (shared by C05 and C11).

The properties quantify over "all single internal faults injected at each stage of the per-operation pipeline" (C05) and
"all single faults injected into workers" (C11). The stages are not hand-picked: a traced clean run of the real engine
(`harness/children/fault_child.py`, fresh process) lists every call made *from* a schemathesis frame to a schemathesis,
`requests` or `json` function, with the thread it happened on; each such call site is then a fault point: the n-th call
of the site raises one exception (at function entry, through `sys.settrace`), once, and the real event stream that
results is judged by the reference automaton of C11 (`engine_common.stream_violations`) and by C05's "the run says so"
predicate. Judged sites: every site reached on a worker thread (unit workers, the stateful thread) and every network call of
`requests` on the main thread (network-level faults of the probes: an API behaviour). Internal faults on the main
thread outside the per-operation pipeline (plan construction, the consumer loop itself) end the generator with the
exception, which the CLI turns into a fatal error; they are outside both quantifiers and only counted.
"""
from __future__ import annotations

import json
import os
import subprocess
import sys
from concurrent.futures import ThreadPoolExecutor
from pathlib import Path

from harness.core import InfraError

ROOT = Path(__file__).resolve().parent.parent

CONFIGS = {
    "unit": {"schema": "flat", "phases": ["PROBING", "COVERAGE", "FUZZING"], "workers": 1, "max_examples": 3},
    "unit-2w": {"schema": "flat", "phases": ["COVERAGE", "FUZZING"], "workers": 2, "max_examples": 3},
    "stateful": {"schema": "linked", "phases": ["STATEFUL_TESTING"], "workers": 1, "max_examples": 3, "steps": 3},
    "unit-err": {"schema": "flat-err", "phases": ["FUZZING"], "workers": 1, "max_examples": 2},
    "all-linked": {"schema": "linked", "phases": ["EXAMPLES", "COVERAGE", "FUZZING", "STATEFUL_TESTING"], "workers": 1,
                   "max_examples": 2, "steps": 2},
}
EXC = {"schemathesis": ["Injected", "KeyError", "AssertionError", "ValueError", "TypeError", "AttributeError"],
       "requests": ["TooManyRedirects", "ConnectionError", "Timeout", "ChunkedEncodingError", "InvalidURL",
                    "ContentDecodingError"],
       "json": ["TypeError", "ValueError"]}
# main thread: only the calls that do network I/O are fault points (an API behaviour); building a Session or a Request
# object is not
NETWORK_CALLS = ("send", "request", "get", "post", "put", "delete", "head", "options", "patch")
SKELETON = ("engine/", "transport/requests.py", "checks.py")


def _child(job):
    env = dict(os.environ, SCHEMATHESIS_VERIF="1", PYTHONDONTWRITEBYTECODE="1")
    r = subprocess.run([sys.executable, "-m", "harness.children.fault_child", json.dumps(job)], cwd=ROOT, env=env,
                       capture_output=True, text=True, timeout=1200)
    rows = [json.loads(ln) for ln in r.stdout.splitlines() if ln.startswith("{")]
    if r.returncode != 0 and not rows:
        raise InfraError(f"fault child failed: {r.stderr[-1500:]}")
    return rows


def is_worker(thread_name):
    return bool(thread_name) and thread_name.startswith("schemathesis_")


def reflected(row):
    return (row["errors"] > 0 or any(s in ("error", "failure") for s in row["scenarios"])
            or any(st in ("error", "failure") for _, st in row["phases"]))


def judge(prop, row, clean):
    """-> (kind, message) or None"""
    if prop == "C11":
        if row["died"] is not None:
            return ("stream-died", f"the event stream ended with {row['died']} escaping the generator: "
                                   f"{[b[0] for b in row['bad']]}")
        if row["bad"]:
            return (row["bad"][0][0], row["bad"][0][1])
        return None
    # C05
    if row["died"] is not None:
        return None  # the exception reaches the caller of the stream (CLI: fatal error, non-zero exit); C11's concern
    if reflected(row):
        if row["exit"] == 0:
            return ("reported-but-exit-zero", "the fault is reported in the event stream but the CLI fold gives exit code 0")
        return None
    if row["requests"] == clean["requests"] and row["scenarios"] == clean["scenarios"]:
        return None  # swallowed on purpose and harmless: everything was still sent and checked
    return ("fault-not-reported", f"no error event, no failing status, exit code {row['exit']}; {row['requests']} requests "
                                  f"reached the API instead of {clean['requests']}, scenarios {row['scenarios']} instead "
                                  f"of {clean['scenarios']}")


def sweep(chk, prop, procs=4):
    names = ["unit", "stateful", "unit-err"] + (["unit-2w", "all-linked"] if chk.thorough else [])
    for cname in names:
        cfg = CONFIGS[cname]
        col = _child({"mode": "collect", **cfg})
        if not col:
            raise InfraError("fault sweep: the collecting run printed nothing")
        clean, sites = col[0]["clean"], col[0]["sites"]
        mech = f"fault-sweep:{cname}"
        chk.feature(f"{mech}:sites={len(sites) // 25 * 25}+")
        if clean["bad"] or clean["died"]:
            chk.violation(f"{prop}:{mech}:clean-run", f"the traced run without any fault is already ill-formed: {clean}",
                          {"mechanism": "fault-sweep", "config": cfg, "job": None})
            continue
        judged, skipped = [], 0
        for s in sites:
            cf, fn, pk, callee, _count, thread = s
            if is_worker(thread) or (pk == "requests" and callee in NETWORK_CALLS):
                judged.append(s)
            else:
                skipped += 1
        chk.feature(f"{mech}:main-thread-internal-sites-not-judged", skipped)
        if chk.thorough:
            chosen = judged
        else:
            core = [s for s in judged if s[0].startswith(SKELETON) or s[2] != "schemathesis"]
            rest = [s for s in judged if s not in core]
            chk.rng.shuffle(rest)
            chosen = core + rest[:20]
        jobs = []
        for s in chosen:
            menu = EXC[s[2]]
            if chk.thorough:
                picks = menu if s[2] != "schemathesis" else menu[:3]
                nths = [1, 2] if s[4] >= 2 else [1]
            else:
                picks = [menu[0]] if s[2] == "schemathesis" else [menu[chk.seed % len(menu)], menu[(chk.seed + 2) % len(menu)]]
                nths = [1]
            for e in picks:
                for n in nths:
                    jobs.append({"site": s[:4], "nth": n, "exc": e})
        chunks = [jobs[i::procs] for i in range(procs) if jobs[i::procs]]
        with ThreadPoolExecutor(max_workers=procs) as ex:
            results = list(ex.map(lambda ch: _child({"mode": "inject", **cfg, "jobs": ch}), chunks))
        rows = [r for rs in results for r in rs]
        if len(rows) != len(jobs):
            raise InfraError(f"fault sweep: {len(jobs)} jobs, {len(rows)} results")
        for row in rows:
            site = row["site"]
            key = [cname, site, row["nth"], row["exc"]]
            fired = row["fired"] is not None
            chk.case(mech, key=key, nontrivial=fired,
                     sample={"site": site, "exc": row["exc"], "fired_on": row["fired"], "scenarios": row["scenarios"],
                             "errors": row["errors"], "exit": row["exit"]})
            if not fired:
                chk.feature(f"{mech}:not-reached")   # memoised on the first run (lru caches)
                continue
            chk.feature(f"{mech}:{'worker' if is_worker(row['fired']) else 'main'}:{site[2]}:{row['exc']}")
            chk.feature(f"{mech}:outcome:{'died' if row['died'] else 'reported' if reflected(row) else 'silent'}")
            v = judge(prop, row, clean)
            if v is not None:
                kind, msg = v
                if kind == "status-not-monotone" and row["fired"] == "schemathesis_stateful_tests" \
                        and "finished failure but a scenario was error" in msg:
                    # one root cause whatever the site: the single fault makes the replay flaky (`except Flaky`)
                    sig = f"{prop}:fault-sweep:stateful:flaky-error:phase-finished-failure-although-a-scenario-errored"
                elif row.get("escaped"):
                    # the exception left a worker thread: named by the unprotected call of the thread's own function
                    via = row["escaped"][0]["via"]
                    sig = f"{prop}:fault-sweep:thread-died:{'->'.join(via)}:{kind}"
                else:
                    sig = f"{prop}:fault-sweep:{site[0]}:{site[1]}:{kind}"
                chk.violation(sig,
                              f"{row['exc']} at call #{row['nth']} of {site[1]} -> {site[3]} ({site[0]}, thread "
                              f"{row['fired']}, config {cname}): {msg}",
                              {"mechanism": "fault-sweep", "config": cfg, "job": {"site": site, "nth": row["nth"], "exc": row["exc"]}})


def replay(chk, data):
    rows = _child({"mode": "inject", **data["config"], "jobs": [data["job"]]})
    clean = _child({"mode": "collect", **data["config"]})[0]["clean"]
    print("clean run :", json.dumps(clean))
    print("with fault:", json.dumps(rows[0]))
    for prop in ("C05", "C11"):
        print(f"{prop} verdict:", judge(prop, rows[0], clean))
    return 0
