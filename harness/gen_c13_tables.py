"""Entropy-site table for C13, extracted from /repo's working tree with `ast` on every run -> lean/SV/Generated/C13.lean.

A *site* is a call that starts a Hypothesis run or constructs a PRNG inside the request-generation code. Each site is
classified by fixed rules; a site no rule knows is `unclassified` (a theorem then fails, and the double runs search for
a concrete difference)."""
from __future__ import annotations

import ast
from collections import Counter

from harness.core import REPO

SRC = REPO / "src" / "schemathesis"
FILES = ["generation/hypothesis/builder.py", "generation/hypothesis/examples.py", "generation/coverage.py",
         "generation/__init__.py", "engine/phases/unit/__init__.py", "engine/phases/stateful/_executor.py",
         "specs/openapi/examples.py", "generation/stateful/state_machine.py", "specs/openapi/_hypothesis.py",
         "specs/openapi/negative/__init__.py", "specs/openapi/negative/mutations.py"]


def callee_name(n):
    f = n.func
    if isinstance(f, ast.Attribute):
        base = f.value.id if isinstance(f.value, ast.Name) else (f.value.attr if isinstance(f.value, ast.Attribute) else "?")
        return f"{base}.{f.attr}"
    if isinstance(f, ast.Name):
        return f.id
    return "?"


def default_settings_derandomized():
    tree = ast.parse((SRC / "generation/hypothesis/examples.py").read_text())
    fn = next(n for n in ast.walk(tree) if isinstance(n, ast.FunctionDef) and n.name == "default_settings")
    for n in ast.walk(fn):
        if isinstance(n, ast.Call) and callee_name(n) == "settings":
            for kw in n.keywords:
                if kw.arg == "derandomize" and isinstance(kw.value, ast.Constant):
                    return bool(kw.value.value)
    return False


INTERESTING = {"hypothesis.seed", "seed", "generate_one", "examples.generate_one", "cached_draw", "random.Random", "Random",
               "given", "hypothesis.given", "InstrumentedStateMachine.run", "random.choice", "random.shuffle", "random.random",
               "RANDOM.choice", "RANDOM.choices", "uuid.uuid4", "uuid4"}


def sites():
    derand = default_settings_derandomized()
    out = []
    for rel in FILES:
        p = SRC / rel
        if not p.exists():
            continue
        tree = ast.parse(p.read_text())
        parents = {}
        for node in ast.walk(tree):
            for ch in ast.iter_child_nodes(node):
                parents[ch] = node
        for n in ast.walk(tree):
            if not isinstance(n, ast.Call):
                continue
            name = callee_name(n)
            if name not in INTERESTING:
                continue
            fn = n
            while fn in parents and not isinstance(fn, (ast.FunctionDef, ast.AsyncFunctionDef)):
                fn = parents[fn]
            fname = fn.name if isinstance(fn, (ast.FunctionDef, ast.AsyncFunctionDef)) else "<module>"
            arg = ast.unparse(n.args[0]) if n.args else ""
            out.append((rel, fname, name, arg if name in ("hypothesis.seed", "seed") else "", classify(rel, fname, name, arg, derand)))
    return out, derand


def classify(rel, fname, name, arg, derand):
    if name in ("hypothesis.seed", "seed"):
        if rel.endswith("builder.py") and fname == "create_test" and arg == "config.seed":
            return "seeded"
        if rel.endswith("stateful/_executor.py") and arg == "seed":
            return "seededDerived"
        if rel.endswith("hypothesis/examples.py") and arg == "SCHEMATHESIS_BENCHMARK_SEED":
            return "envSeed"
        return "unclassified"
    if name in ("generate_one", "examples.generate_one", "cached_draw"):
        return "derandomized" if derand else "simplestFirst"
    if name in ("given", "hypothesis.given"):
        if rel.endswith("hypothesis/examples.py"):
            return "derandomized" if derand else "simplestFirst"
        return "seededByCaller"
    if name in ("random.Random", "Random"):
        return "excludedById" if rel == "generation/__init__.py" else "unclassified"
    if name in ("RANDOM.choice", "RANDOM.choices"):
        return "excludedById"
    if name in ("uuid.uuid4", "uuid4"):
        return "excludedById"
    if name == "InstrumentedStateMachine.run":
        return "seededByCaller"
    return "unclassified"


def phase_of(rel, fname):
    if rel == "generation/coverage.py":
        return "coverage"
    if rel in ("specs/openapi/examples.py",) or fname in ("add_examples", "add_single_example", "generate_one"):
        return "examples"
    if rel.endswith("stateful/_executor.py"):
        return "stateful"
    if fname == "create_test":
        return "unit"
    return "any"


def render():
    ss, derand = sites()
    rows = ",\n".join(f'  ("{rel}", "{fn}", "{name}", "{arg.replace(chr(34), chr(39))}", "{cls}", "{phase_of(rel, fn)}")'
                      for rel, fn, name, arg, cls in ss)
    return f"""/- GENERATED from /repo by harness/gen_c13_tables.py on every run — do not edit. -/
namespace SV.Generated.C13

/-- (file, enclosing function, callee, first argument, class, phase) -/
def sites : List (String × String × String × String × String × String) := [
{rows}
]

/-- `generate_one` runs under `settings(derandomize=True)` -/
def generateOneDerandomized : Bool := {'true' if derand else 'false'}

end SV.Generated.C13
"""


if __name__ == "__main__":
    print(render())


# ---------------------------------------------------------------------------------------------------------------
# state shared by worker threads: lazily initialised members of the schema object, accesses to its single resolver
# ---------------------------------------------------------------------------------------------------------------

SHARED_FILES = ["specs/openapi/schemas.py", "schemas.py"]
RESOLVER_ATTRS = {"resolve", "resolving", "resolve_all", "push_scope", "pop_scope", "resolve_in_scope", "in_scope",
                  "_scopes_stack", "resolution_scope", "base_uri"}
SCOPE_HELPERS = {"in_scope", "in_scopes"}


def _parents(tree):
    parents = {}
    for node in ast.walk(tree):
        for ch in ast.iter_child_nodes(node):
            parents[ch] = node
    return parents


def _enclosing(node, parents, kinds):
    while node in parents:
        node = parents[node]
        if isinstance(node, kinds):
            return node
    return None


def _lock_of(node, parents):
    """the innermost enclosing `with <expr>:` whose expression names a lock (textually contains 'lock')"""
    cur = node
    while cur in parents:
        cur = parents[cur]
        if isinstance(cur, (ast.FunctionDef, ast.AsyncFunctionDef, ast.Lambda)):
            # a nested function / lambda runs when it is called, not where it is written
            if isinstance(cur, ast.Lambda):
                continue
            return ""
        if isinstance(cur, ast.With):
            for item in cur.items:
                txt = ast.unparse(item.context_expr)
                if "lock" in txt.lower():
                    return txt
    return ""


def _lazy_test(test):
    """`not hasattr(self, "_x")` / `self._x is None` -> "_x" """
    if isinstance(test, ast.UnaryOp) and isinstance(test.op, ast.Not) and isinstance(test.operand, ast.Call):
        c = test.operand
        if callee_name(c) == "hasattr" and len(c.args) == 2 and isinstance(c.args[1], ast.Constant) \
                and ast.unparse(c.args[0]) == "self":
            return c.args[1].value
    if isinstance(test, ast.Compare) and len(test.ops) == 1 and isinstance(test.ops[0], ast.Is) \
            and isinstance(test.comparators[0], ast.Constant) and test.comparators[0].value is None \
            and isinstance(test.left, ast.Attribute) and ast.unparse(test.left.value) == "self":
        return test.left.attr
    return None


def _mentions(node, names, member):
    for n in ast.walk(node):
        if isinstance(n, ast.Name) and n.id in names:
            return True
        if isinstance(n, ast.Attribute) and n.attr == member and ast.unparse(n.value) == "self":
            return True
    return False


def _publish_after_build(if_node, member):
    """In the body of the `if`, is the assignment `self.<member> = v` the last statement that touches the object?
    Aliases of `v` (names assigned from expressions that mention it) count as the object."""
    body = if_node.body
    idx, value = None, None
    for i, st in enumerate(body):
        for n in ast.walk(st):
            if isinstance(n, ast.Assign) and any(isinstance(t, ast.Attribute) and t.attr == member and
                                                 ast.unparse(t.value) == "self" for t in n.targets):
                if idx is None:
                    idx, value = i, n.value
    if idx is None:
        return None
    names = {n.id for n in ast.walk(value) if isinstance(n, ast.Name)} - {"self"} if isinstance(value, ast.Name) else set()
    changed = True
    while changed and names:
        changed = False
        for n in ast.walk(if_node):
            if isinstance(n, ast.Assign) and any(isinstance(x, ast.Name) and x.id in names for x in ast.walk(n.value)):
                for t in n.targets:
                    if isinstance(t, ast.Name) and t.id not in names:
                        names.add(t.id)
                        changed = True
    # the assignment statement itself may sit inside a compound statement: what follows it there counts as well
    top = body[idx]
    if not isinstance(top, ast.Assign):
        return False
    return not any(_mentions(st, names, member) for st in body[idx + 1:])


def shared_tables():
    lazy, sites = [], []
    for rel in SHARED_FILES:
        p = SRC / rel
        if not p.exists():
            continue
        tree = ast.parse(p.read_text())
        parents = _parents(tree)
        for n in ast.walk(tree):
            if isinstance(n, ast.If):
                member = _lazy_test(n.test)
                fn = _enclosing(n, parents, (ast.FunctionDef, ast.AsyncFunctionDef))
                cls = _enclosing(n, parents, (ast.ClassDef,))
                if member and fn is not None and cls is not None:
                    pab = _publish_after_build(n, member)
                    if pab is None:
                        continue
                    lazy.append((rel, f"{cls.name}.{fn.name}", member, "hasattr-guard", bool(pab), _lock_of(n, parents)))
            if isinstance(n, (ast.FunctionDef, ast.AsyncFunctionDef)):
                cls = parents.get(n)
                decos = {ast.unparse(d).split("(")[0].split(".")[-1] for d in n.decorator_list}
                if isinstance(cls, ast.ClassDef) and "cached_property" in decos:
                    # functools.cached_property stores the value after the function has returned it
                    lazy.append((rel, f"{cls.name}.{n.name}", n.name, "cached_property", True, ""))
        if rel != "specs/openapi/schemas.py":
            continue
        for n in ast.walk(tree):
            fn = _enclosing(n, parents, (ast.FunctionDef, ast.AsyncFunctionDef))
            if fn is None:
                continue
            what = None
            if isinstance(n, ast.Attribute) and n.attr in RESOLVER_ATTRS:
                base = ast.unparse(n.value)
                if base in ("self.resolver", "resolver", "self._resolver"):
                    what = n.attr
            elif isinstance(n, ast.Call) and isinstance(n.func, ast.Name) and n.func.id in SCOPE_HELPERS and n.args \
                    and ast.unparse(n.args[0]) in ("self.resolver", "resolver", "self._resolver"):
                what = n.func.id
            if what is None:
                continue
            # the function that runs the access: a lambda / local function belongs to the method that defines it
            outer = fn
            while _enclosing(outer, parents, (ast.FunctionDef, ast.AsyncFunctionDef)) is not None:
                outer = _enclosing(outer, parents, (ast.FunctionDef, ast.AsyncFunctionDef))
            sites.append((outer.name, what, _lock_of(n, parents)))
    return lazy, sites


INLINING_FUNCTIONS = ("_rewrite_references",)


def shared_flags(sites):
    inl = [s for s in sites if s[0] in INLINING_FUNCTIONS]
    locks = Counter(s[2] for s in inl if s[2])
    lock = locks.most_common(1)[0][0] if locks else ""
    key_reads = [s for s in inl if s[1] == "_scopes_stack"]
    others = [s for s in sites if s[0] not in INLINING_FUNCTIONS]
    return lock, bool(key_reads) and all(s[2] == lock and lock for s in key_reads), \
        bool(others) and all(s[2] == lock and lock for s in others)


def render_shared():
    lazy, sites = shared_tables()
    lock, key_locked, iter_locked = shared_flags(sites)
    q = lambda s: '"' + s.replace('"', "'") + '"'
    b = lambda v: "true" if v else "false"
    rows1 = ",\n".join(f"  ({q(f)}, {q(w)}, {q(m)}, {q(k)}, {b(p)}, {q(l)})" for f, w, m, k, p, l in lazy)
    rows2 = ",\n".join(f"  ({q(f)}, {q(w)}, {q(l)})" for f, w, l in sites)
    return f"""/- GENERATED from /repo by harness/gen_c13_tables.py on every run — do not edit. -/
namespace SV.Generated.C13Shared

/-- lazily initialised members of the schema object, shared by the worker threads:
    (file, class.method, member, kind, the assignment to `self.<member>` is the last statement of the guarded block that
    touches the object, lock held around the guarded block) -/
def lazyMembers : List (String × String × String × String × Bool × String) := [
{rows1}
]

/-- accesses to the schema's single resolver (its scope stack) in specs/openapi/schemas.py: (method, what, lock held) -/
def resolverSites : List (String × String × String) := [
{rows2}
]

/-- the lock under which `_rewrite_references` resolves references -/
def inliningLock : String := {q(lock)}

/-- the cache key is computed from `resolver._scopes_stack` while that lock is held -/
def keyReadUnderLock : Bool := {b(key_locked)}

/-- the other users of the resolver (iteration over operations, …) take that lock too -/
def otherSitesUnderLock : Bool := {b(iter_locked)}

end SV.Generated.C13Shared
"""
