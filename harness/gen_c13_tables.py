"""Entropy-site table for C13, extracted from /repo's working tree with `ast` on every run -> lean/SV/Generated/C13.lean.

A *site* is a call that starts a Hypothesis run or constructs a PRNG inside the request-generation code. Each site is
classified by fixed rules; a site no rule knows is `unclassified` (a theorem then fails, and the double runs search for
a concrete difference)."""
from __future__ import annotations

import ast

from harness.core import REPO

SRC = REPO / "src" / "schemathesis"
FILES = ["generation/hypothesis/builder.py", "generation/hypothesis/examples.py", "generation/coverage.py",
         "generation/__init__.py", "engine/phases/unit/__init__.py", "engine/phases/stateful/_executor.py",
         "specs/openapi/examples.py", "generation/stateful/state_machine.py", "specs/openapi/_hypothesis.py",
         "specs/openapi/negative/__init__.py", "specs/openapi/negative/mutations.py"]


def callee_name(n):
    f = n.func
    if isinstance(f, ast.Attribute):
        base = f.value.id if isinstance(f.value, ast.Name) else (f.value.attr if isinstance(f.value, ast.Attribute) else "?")
        return f"{base}.{f.attr}"
    if isinstance(f, ast.Name):
        return f.id
    return "?"


def default_settings_derandomized():
    tree = ast.parse((SRC / "generation/hypothesis/examples.py").read_text())
    fn = next(n for n in ast.walk(tree) if isinstance(n, ast.FunctionDef) and n.name == "default_settings")
    for n in ast.walk(fn):
        if isinstance(n, ast.Call) and callee_name(n) == "settings":
            for kw in n.keywords:
                if kw.arg == "derandomize" and isinstance(kw.value, ast.Constant):
                    return bool(kw.value.value)
    return False


INTERESTING = {"hypothesis.seed", "seed", "generate_one", "examples.generate_one", "cached_draw", "random.Random", "Random",
               "given", "hypothesis.given", "InstrumentedStateMachine.run", "random.choice", "random.shuffle", "random.random",
               "RANDOM.choice", "RANDOM.choices", "uuid.uuid4", "uuid4"}


def sites():
    derand = default_settings_derandomized()
    out = []
    for rel in FILES:
        p = SRC / rel
        if not p.exists():
            continue
        tree = ast.parse(p.read_text())
        parents = {}
        for node in ast.walk(tree):
            for ch in ast.iter_child_nodes(node):
                parents[ch] = node
        for n in ast.walk(tree):
            if not isinstance(n, ast.Call):
                continue
            name = callee_name(n)
            if name not in INTERESTING:
                continue
            fn = n
            while fn in parents and not isinstance(fn, (ast.FunctionDef, ast.AsyncFunctionDef)):
                fn = parents[fn]
            fname = fn.name if isinstance(fn, (ast.FunctionDef, ast.AsyncFunctionDef)) else "<module>"
            arg = ast.unparse(n.args[0]) if n.args else ""
            out.append((rel, fname, name, arg if name in ("hypothesis.seed", "seed") else "", classify(rel, fname, name, arg, derand)))
    return out, derand


def classify(rel, fname, name, arg, derand):
    if name in ("hypothesis.seed", "seed"):
        if rel.endswith("builder.py") and fname == "create_test" and arg == "config.seed":
            return "seeded"
        if rel.endswith("stateful/_executor.py") and arg == "seed":
            return "seededDerived"
        if rel.endswith("hypothesis/examples.py") and arg == "SCHEMATHESIS_BENCHMARK_SEED":
            return "envSeed"
        return "unclassified"
    if name in ("generate_one", "examples.generate_one", "cached_draw"):
        return "derandomized" if derand else "simplestFirst"
    if name in ("given", "hypothesis.given"):
        if rel.endswith("hypothesis/examples.py"):
            return "derandomized" if derand else "simplestFirst"
        return "seededByCaller"
    if name in ("random.Random", "Random"):
        return "excludedById" if rel == "generation/__init__.py" else "unclassified"
    if name in ("RANDOM.choice", "RANDOM.choices"):
        return "excludedById"
    if name in ("uuid.uuid4", "uuid4"):
        return "excludedById"
    if name == "InstrumentedStateMachine.run":
        return "seededByCaller"
    return "unclassified"


def phase_of(rel, fname):
    if rel == "generation/coverage.py":
        return "coverage"
    if rel in ("specs/openapi/examples.py",) or fname in ("add_examples", "add_single_example", "generate_one"):
        return "examples"
    if rel.endswith("stateful/_executor.py"):
        return "stateful"
    if fname == "create_test":
        return "unit"
    return "any"


def render():
    ss, derand = sites()
    rows = ",\n".join(f'  ("{rel}", "{fn}", "{name}", "{arg.replace(chr(34), chr(39))}", "{cls}", "{phase_of(rel, fn)}")'
                      for rel, fn, name, arg, cls in ss)
    return f"""/- GENERATED from /repo by harness/gen_c13_tables.py on every run — do not edit. -/
namespace SV.Generated.C13

/-- (file, enclosing function, callee, first argument, class, phase) -/
def sites : List (String × String × String × String × String × String) := [
{rows}
]

/-- `generate_one` runs under `settings(derandomize=True)` -/
def generateOneDerandomized : Bool := {'true' if derand else 'false'}

end SV.Generated.C13
"""


if __name__ == "__main__":
    print(render())
