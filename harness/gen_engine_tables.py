"""Extracts the constant tables the engine theorems (C05/C11/C12) depend on from /repo's working tree and renders
lean/SV/Generated/Engine.lean. Pure `ast`; cross-checked against the imported module where that is possible."""
from __future__ import annotations

import ast
from pathlib import Path

from harness.core import REPO, InfraError

SRC = REPO / "src" / "schemathesis"


def _parse(rel):
    return ast.parse((SRC / rel).read_text())


def _names(node):
    if node is None:
        return ["<bare>"]
    if isinstance(node, ast.Tuple):
        return [n for e in node.elts for n in _names(e)]
    if isinstance(node, ast.Attribute):
        return [node.attr]
    if isinstance(node, ast.Name):
        return [node.id]
    return [ast.dump(node)]


def status_order():
    tree = _parse("engine/__init__.py")
    for n in ast.walk(tree):
        if isinstance(n, ast.Assign) and any(isinstance(t, ast.Name) and t.id == "_STATUS_ORDER" for t in n.targets):
            out = []
            for k, v in zip(n.value.keys, n.value.values):
                out.append((k.attr, v.value))
            import schemathesis.engine as eng
            live = {k.name: v for k, v in eng._STATUS_ORDER.items()}
            if dict(out) != live:
                raise InfraError(f"_STATUS_ORDER extraction mismatch: {out} vs {live}")
            return out
    raise InfraError("_STATUS_ORDER not found")


def ladder():
    """[(exception class names, statuses assigned in the arm, yields ScenarioFinished&return?)] of run_test's try."""
    tree = _parse("engine/phases/unit/_executor.py")
    fn = next(n for n in ast.walk(tree) if isinstance(n, ast.FunctionDef) and n.name == "run_test")
    tr = next(n for n in fn.body if isinstance(n, ast.Try))
    arms = []
    for h in tr.handlers:
        statuses, returns = [], False
        for n in ast.walk(ast.Module(body=h.body, type_ignores=[])):
            if isinstance(n, ast.Assign) and any(isinstance(t, ast.Name) and t.id == "status" for t in n.targets):
                if isinstance(n.value, ast.Attribute):
                    statuses.append(n.value.attr)
            if isinstance(n, ast.Return):
                returns = True
            if isinstance(n, ast.Call) and isinstance(n.func, ast.Name) and n.func.id == "scenario_finished" and n.args:
                a = n.args[0]
                if isinstance(a, ast.Attribute):
                    statuses.append("yield:" + a.attr)
        arms.append((_names(h.type), sorted(set(statuses)), returns))
    # the `try` body's own success status
    body_status = [n.value.attr for n in ast.walk(ast.Module(body=tr.body, type_ignores=[]))
                   if isinstance(n, ast.Assign) and any(isinstance(t, ast.Name) and t.id == "status" for t in n.targets)
                   and isinstance(n.value, ast.Attribute)]
    return arms, body_status


def phase_order():
    tree = _parse("engine/core.py")
    fn = next(n for n in ast.walk(tree) if isinstance(n, ast.FunctionDef) and n.name == "_create_execution_plan")
    out = []
    for n in ast.walk(fn):
        if isinstance(n, ast.Call) and isinstance(n.func, ast.Attribute) and n.func.attr == "get_phase_config" and n.args:
            out.append((n.lineno, n.args[0].attr))
    return [p for _, p in sorted(out)]


def exit_rule():
    """the statuses that make ExecutionContext.on_event set exit_code = 1 for an enabled PhaseFinished"""
    tree = _parse("cli/commands/run/context.py")
    fn = next(n for n in ast.walk(tree) if isinstance(n, ast.FunctionDef) and n.name == "on_event")
    sts = []
    for n in ast.walk(fn):
        if isinstance(n, ast.Compare) and isinstance(n.ops[0], ast.In) and isinstance(n.comparators[0], ast.Tuple):
            sts = [e.attr for e in n.comparators[0].elts if isinstance(e, ast.Attribute)]
    uses_nonfatal = any(isinstance(n, ast.Attribute) and n.attr == "NonFatalError" for n in ast.walk(fn))
    uses_enabled = any(isinstance(n, ast.Attribute) and n.attr == "is_enabled" for n in ast.walk(fn))
    return sorted(sts), uses_nonfatal, uses_enabled


def lean_str_list(xs):
    return "[" + ", ".join('"' + x + '"' for x in xs) + "]"


def render() -> str:
    so = status_order()
    arms, body = ladder()
    po = phase_order()
    sts, nf, en = exit_rule()
    lines = ["/- GENERATED from /repo by harness/gen_engine_tables.py on every run — do not edit. -/",
             "namespace SV.Generated.Engine", "",
             "/-- `_STATUS_ORDER` of engine/__init__.py -/",
             "def statusOrder : List (String × Nat) := [" + ", ".join(f'("{k}", {v})' for k, v in so) + "]", "",
             "/-- the `except` arms of `run_test`, in source order: (exception classes, statuses the arm assigns, returns early) -/",
             "def ladder : List (List String × List String × Bool) := ["]
    lines += [",\n".join(f"  ({lean_str_list(n)}, {lean_str_list(s)}, {'true' if r else 'false'})" for n, s, r in arms)]
    lines += ["]", "", "/-- status assigned when the test function returns normally -/",
              f"def ladderBody : List String := {lean_str_list(body)}", "",
              "/-- phases in the order `_create_execution_plan` lists them -/",
              f"def phaseOrder : List String := {lean_str_list(po)}", "",
              "/-- `ExecutionContext.on_event`: statuses of an enabled PhaseFinished that set exit_code = 1 -/",
              f"def exitStatuses : List String := {lean_str_list(sts)}",
              f"def exitOnNonFatal : Bool := {'true' if nf else 'false'}",
              f"def exitNeedsEnabled : Bool := {'true' if en else 'false'}", "",
              "end SV.Generated.Engine", ""]
    return "\n".join(lines)


if __name__ == "__main__":
    print(render())
