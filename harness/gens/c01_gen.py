"""Generators for C01: OpenAPI schema objects (nullable / readOnly / pattern x length on top of the shared JSON-Schema
fragment), instances aimed at them, parameter lists and whole OpenAPI documents. Everything random comes from `rng`."""
from __future__ import annotations

import copy

from harness.gens import schemas as S

NAMES = ["a", "b", "c", "d"]
# (pattern text) used inside generated *schemas*; the regex mechanism has its own AST-driven generator
PATTERNS = ["[a-z]", "^[a-z]+$", "^[a-z]*$", "^(ab)+$", "^a$", "^[ab]$", "[0-9]+", "^[a-z]+", "[a-z]+$", "^[a-z]{1,4}$",
            "^a[0-9]*$", "^-[a-z]{1,3}-$", "^[a-c]{1,2}-[0-9]{1,3}$", "a|b", "^.+$", "^\\d+$", "^(a|bc)*$", "^ab$",
            "\\A[a-z]+\\Z", "^[ab]?$",
            # assertions that are not begin/end-of-string anchors (word boundaries), alone and mixed with real anchors
            "\\b[a-z]+\\b", "\\b[a-z]{1,4}\\b", "^[a-z]+\\b", "\\b[0-9]+$", "\\B[a-z]+\\B", "\\b[ab]\\b", "\\b[a-z]+", "\\ba[0-9]*b*\\b"]
STRINGS = ["", "a", "b", "ab", "abc", "aaaa", "abab", "ababab", "aaaaaaa", "0", "12", "a1", "-a-", "-abc-", "a-1", "ab-12",
           "abcd-1234", "a-", "é", "A", "a b", "xaz", "1a1", "abcde", "zzzzzzzzzz",
           "ab cd", "a b c", "abc-abc", "-ab-cd-", "ab 12", "12 ab", "a1 b2 c3", "abcdef ghi"]


def gen_string_schema(rng):
    s = {"type": "string"}
    r = rng.random()
    if r < 0.65:
        s["pattern"] = rng.choice(PATTERNS)
    if rng.random() < 0.6:
        s["minLength"] = rng.randint(0, 3)
    if rng.random() < 0.65:
        s["maxLength"] = rng.randint(0, 5)
    if rng.random() < 0.05:
        s["enum"] = rng.sample(STRINGS, 3)
    return s


def gen_oas_schema(rng, depth, nn="nullable", spice=0.0, top=True):
    """An OpenAPI 2/3.0 Schema Object over the modelled keyword fragment."""
    if depth <= 0:
        kind = rng.choice(["string", "integer", "boolean", "any", "enum"])
    else:
        kind = rng.choice(["string", "string", "integer", "number", "boolean", "array", "object", "object", "object",
                           "comb", "any", "enum", "shared"])
    if kind == "string":
        s = gen_string_schema(rng)
    elif kind in ("integer", "number"):
        s = {"type": kind}
        if rng.random() < 0.5:
            s["minimum"] = S.gen_number(rng, True)
        if rng.random() < 0.5:
            s["maximum"] = S.gen_number(rng, True)
        if "minimum" in s and rng.random() < 0.2:
            s["exclusiveMinimum"] = True
        if rng.random() < 0.15:
            s["multipleOf"] = rng.choice([1, 2, 3])
    elif kind == "boolean":
        s = {"type": "boolean"}
    elif kind == "any":
        s = {}
    elif kind == "enum":
        s = {"enum": [S.gen_instance(rng, 0) for _ in range(rng.randint(1, 3))]}
    elif kind == "shared":
        s = S.gen_schema(rng, depth, True)
        if not isinstance(s, dict):
            s = {}
    elif kind == "array":
        s = {"type": "array"}
        if rng.random() < 0.8:
            s["items"] = gen_oas_schema(rng, depth - 1, nn, spice, False)
        if rng.random() < 0.3:
            s["minItems"] = rng.randint(0, 2)
        if rng.random() < 0.3:
            s["maxItems"] = rng.randint(0, 3)
        if rng.random() < 0.15:
            s["uniqueItems"] = True
    elif kind == "object":
        s = {"type": "object"}
        names = rng.sample(NAMES, rng.randint(0, 4))
        props = {}
        n_ro = rng.choice([0, 0, 1, 1, 2, 3])
        ro = set(rng.sample(names, min(n_ro, len(names))))
        for n in names:
            sub = gen_oas_schema(rng, depth - 1, nn, spice, False)
            if n in ro:
                sub["readOnly"] = True
            elif rng.random() < 0.1:
                sub["readOnly"] = False
            elif rng.random() < 0.06:
                sub["writeOnly"] = True
            props[n] = sub
        if names or rng.random() < 0.3:
            s["properties"] = props
        if rng.random() < 0.6:
            s["required"] = rng.sample(NAMES, rng.randint(0, 3))
        if rng.random() < 0.35:
            s["additionalProperties"] = rng.choice([True, False, False, gen_oas_schema(rng, depth - 1, nn, spice, False)])
        if rng.random() < 0.1:
            s["minProperties"] = rng.randint(0, 2)
        if rng.random() < 0.1:
            s["maxProperties"] = rng.randint(1, 3)
        if rng.random() < 0.12:
            s["not"] = rng.choice([{"required": [rng.choice(NAMES)]}, {"type": "string"},
                                   gen_oas_schema(rng, depth - 1, nn, spice, False)])
        if rng.random() < 0.08:
            del s["type"]  # `properties` without `type: object` (common in real documents)
    else:  # comb
        k = rng.choice(["allOf", "anyOf", "oneOf", "not"])
        s = {}
        if k == "not":
            s["not"] = gen_oas_schema(rng, depth - 1, nn, spice, False)
        else:
            s[k] = [gen_oas_schema(rng, depth - 1, nn, spice, False) for _ in range(rng.randint(1, 3))]
        if rng.random() < 0.3:
            s["type"] = rng.choice(["integer", "string", "object"])
    r = rng.random()
    if r < 0.22:
        s[nn] = True
    elif r < 0.27:
        s[nn] = False
    if spice and rng.random() < spice:
        add_spice(rng, s, nn)
    return s


def add_spice(rng, s, nn):
    """shapes outside the fragment of the conversion theorems (still converted by the real code)"""
    k = rng.randrange(8)
    if k == 0:
        s["enum"] = [{"type": "file"}, {nn: True, "x": 1}, 1][: rng.randint(1, 3)]
    elif k == 1 and s.get("type") == "object":
        s.setdefault("properties", {})[rng.choice(["type", nn, "pattern", "required", "not"])] = {"type": "string"}
    elif k == 2 and s.get("type") == "object" and s.get("properties"):
        n = rng.choice(list(s["properties"]))
        s["properties"][n]["readOnly"] = rng.choice([1, "yes", 0, None])
    elif k == 3:
        s["type"] = "file"
    elif k == 4 and isinstance(s.get("required"), list) and s["required"]:
        s["required"] = s["required"] + [s["required"][0]]
    elif k == 5 and s.get("type") == "array":
        s["items"] = [{"type": "integer", nn: True}, {"type": "string"}]
    elif k == 6:
        s["example"] = {nn: True, "type": "file"}
    elif k == 7 and s.get("type") == "object":
        s.setdefault("properties", {})["pattern"] = {"type": "string"}
        s["properties"][rng.choice(["minLength", "maxLength"])] = {"type": "integer"}


def walk_dicts(node, fn):
    if isinstance(node, dict):
        fn(node)
        for v in node.values():
            walk_dicts(v, fn)
    elif isinstance(node, list):
        for v in node:
            walk_dicts(v, fn)


def pattern_requests(schema):
    """all (pattern, minLength, maxLength) triples `update_pattern_in_schema` may ask about in `schema`"""
    out = set()

    def fn(d):
        p, lo, hi = d.get("pattern"), d.get("minLength"), d.get("maxLength")
        if isinstance(p, str):
            for a in (lo, None):
                for b in (hi, None):
                    if (a is None or (isinstance(a, int) and not isinstance(a, bool) and a >= 0)) and \
                            (b is None or (isinstance(b, int) and not isinstance(b, bool) and b >= 0)):
                        out.add((p, a, b))

    walk_dicts(schema, fn)
    return sorted(out, key=repr)


def instances_for(rng, schema, nn="nullable", n=4):
    """values aimed at `schema` (an OpenAPI schema object): the shared best-effort instance, plus variants that flip
    exactly the things the conversion is about (null for nullable, presence of readOnly members, string lengths)"""
    out = []
    for _ in range(n):
        v = aimed_instance(rng, schema, nn, 3)
        out.append(v)
    return out


def aimed_instance(rng, schema, nn, depth):
    if not isinstance(schema, dict) or depth <= 0:
        return S.gen_instance(rng, 1)
    if schema.get(nn) is True and rng.random() < 0.3:
        return None
    if rng.random() < 0.08:
        return S.gen_instance(rng, 2)
    if "enum" in schema and rng.random() < 0.8:
        return copy.deepcopy(rng.choice(schema["enum"]))
    for k in ("anyOf", "oneOf", "allOf"):
        if isinstance(schema.get(k), list) and schema[k] and rng.random() < 0.8:
            return aimed_instance(rng, rng.choice(schema[k]), nn, depth - 1)
    t = schema.get("type")
    if isinstance(t, list):
        t = rng.choice(t)
    if t == "string":
        return rng.choice(STRINGS)
    if t == "object":
        props = schema.get("properties", {}) if isinstance(schema.get("properties"), dict) else {}
        req = [k for k in schema.get("required", []) if isinstance(k, str)] if isinstance(schema.get("required"), list) else []
        out = {}
        for k in set(req) | set(props):
            sub = props.get(k, {})
            ro = isinstance(sub, dict) and sub.get("readOnly") is True
            p = 0.35 if ro else (0.95 if k in req else 0.6)
            if rng.random() < p:
                out[k] = aimed_instance(rng, sub, nn, depth - 1)
        if rng.random() < 0.12:
            out["zz"] = S.gen_instance(rng, 1)
        return out
    if t == "array":
        lo = schema.get("minItems", 0) if isinstance(schema.get("minItems"), int) else 0
        hi = schema.get("maxItems", 3) if isinstance(schema.get("maxItems"), int) else 3
        return [aimed_instance(rng, schema.get("items", {}), nn, depth - 1) for _ in range(rng.randint(lo, max(lo, hi)))]
    if t in ("integer", "number", "boolean", "null"):
        return S.instance_for(rng, {k: v for k, v in schema.items() if k != nn}, 1)
    return S.instance_for(rng, schema, 2) if rng.random() < 0.5 else S.gen_instance(rng, 2)


# ---- regular expressions (mechanism `regex`) -------------------------------------------------------------------------

ATOMS1 = ["a", "b", "[a-z]", "[0-9]", "\\d", "\\w", ".", "[^a]", "\\.", "[+]", "\\+", "-", "[ab]", "a|b"]  # one character wide
ATOMSW = ["(ab)", "(?:ab)", "(a|bc)", "(a[0-9])", "([a-z]-?)", "(a?)", "(ab|c)"]                                # wider / variable
QUANTS = ["", "*", "+", "?", "{2}", "{1,3}", "{2,}", "{0,2}", "*?", "+?", "{1,3}?"]
LEADS = ["", "^", "\\A", "\\b"]
TRAILS = ["", "$", "\\Z", "\\b"]
LENS = [None, 0, 1, 2, 3, 5]


def gen_pattern(rng):
    lead = rng.choice(["", "^", "^", "^", "\\A", "\\b", "\\b", "\\B"])
    trail = rng.choice(["", "$", "$", "$", "\\Z", "\\b", "\\b", "\\B"])
    n = rng.choice([1, 1, 1, 2, 2, 3, 4])
    parts = []
    for _ in range(n):
        r = rng.random()
        if n > 1 and r < 0.4:
            parts.append(rng.choice(["a", "b", "-", ":", "\\+", "\\.", "[+]", "x"]))  # literal part
            continue
        atom = rng.choice(ATOMS1) if rng.random() < 0.8 else rng.choice(ATOMSW)
        if n > 1 and atom in ("\\+", "(?:ab)"):  # text scanning goes out of step with the parse tree: witnesses only (F38b/c)
            atom = "[a-z]"
        if atom == "a|b" and (n > 1 or rng.random() < 0.5):
            atom = "(a|b)"
        q = rng.choice(QUANTS if n == 1 else [x for x in QUANTS if not x.endswith("?") or x == "?"])
        parts.append(atom + q)
    return lead + "".join(parts) + trail


def exhaustive_patterns(thorough=False):
    """every (lead, atom, quantifier, trail) single-part pattern, plus all two/three-part anchored sequences over a
    small alphabet"""
    out = []
    atoms = ATOMS1 + ATOMSW
    for lead in LEADS:
        for trail in TRAILS:
            for a in atoms:
                for q in QUANTS:
                    if a == "a|b" and q:
                        continue
                    out.append(lead + a + q + trail)
    seq_parts = ["a", "-", "[a-z]*", "[0-9]+", "\\d{1,3}", "[a-z]{2,4}", "(ab)+", "b?"]
    if thorough:
        seq_parts += ["[+]", "\\.", "\\w{2}", ".*"]
    for p1 in seq_parts:
        for p2 in seq_parts:
            out.append("^" + p1 + p2 + "$")
            for p3 in seq_parts[: (6 if thorough else 4)]:
                out.append("^" + p1 + p2 + p3 + "$")
    return out


# ---- parameters / operations (mechanisms `location`, `draws`) -----------------------------------------------------------

PARAM_NAMES = {"path": ["id", "slug", "n"], "query": ["q", "limit", "flag", "sort"], "header": ["X-Token", "X-Count", "X-Mode"],
               "cookie": ["sid", "pref"]}


def gen_primitive_schema(rng, nn, location):
    """a primitive-typed parameter schema (what non-body parameters overwhelmingly are)"""
    kind = rng.choice(["string", "string", "integer", "boolean", "enum", "number"] + ([] if location in ("header", "cookie") else ["untyped"]))
    if kind == "string":
        s = gen_string_schema(rng)
        s.pop("enum", None)
        if location == "path":  # keep the path satisfiable and formattable
            if s.get("maxLength") == 0:
                s["maxLength"] = 2
    elif kind == "integer":
        s = {"type": "integer"}
        if rng.random() < 0.6:
            s["minimum"] = rng.randint(-3, 3)
        if rng.random() < 0.6:
            s["maximum"] = s.get("minimum", 0) + rng.randint(0, 5)
    elif kind == "number":
        s = {"type": "number", "minimum": 0, "maximum": 10}
    elif kind == "boolean":
        s = {"type": "boolean"}
    elif kind == "enum":
        s = {"type": "string", "enum": rng.sample(["a", "bc", "x-1", "true", "10"], rng.randint(1, 3))}
    else:
        s = {}
    if rng.random() < 0.2 and location != "path":
        s[nn] = True
    if rng.random() < 0.15:
        s["description"] = "d"
    if rng.random() < 0.1:
        s["x-ext"] = 1
    return s


def gen_parameters(rng, version, nn):
    """[(location, definition)] for one operation; path parameters are the template variables"""
    out, path_vars = [], rng.sample(PARAM_NAMES["path"], rng.randint(0, 2))
    for loc in ("path", "query", "header", "cookie"):
        if loc == "cookie" and version == "2.0":
            continue
        names = path_vars if loc == "path" else rng.sample(PARAM_NAMES[loc], rng.randint(0, len(PARAM_NAMES[loc]) - 1))
        for name in names:
            sch = gen_primitive_schema(rng, nn, loc)
            required = True if loc == "path" else rng.random() < 0.5
            if version == "2.0":
                d = {"name": name, "in": loc, **sch}
                d.setdefault("type", "string")
            else:
                d = {"name": name, "in": loc, "schema": sch}
            if (required and not (loc == "path" and rng.random() < 0.3)) or (not required and rng.random() < 0.3):
                d["required"] = required  # (a path parameter without `required: true` is still always generated)
            out.append((loc, d))
    return path_vars, out


MEDIA_TYPES_PLAIN = ["application/json", "text/plain", "application/xml", "application/x-yaml"]
MEDIA_TYPES_FORM = ["application/x-www-form-urlencoded", "multipart/form-data"]


def gen_form_schema(rng, nn):
    """an object schema with primitive members (what form payloads are)"""
    names = rng.sample(NAMES, rng.randint(1, 3))
    s = {"properties": {n: gen_primitive_schema(rng, nn, "query") for n in names}}
    if rng.random() < 0.7:
        s["type"] = "object"
    if rng.random() < 0.7:
        s["required"] = rng.sample(names, rng.randint(1, len(names)))
    if rng.random() < 0.5:
        s["additionalProperties"] = False
    return s


def gen_alternatives(rng, nn, body_depth):
    """[(media type, schema | None)] for an OpenAPI 3 `requestBody.content` with two or three media types whose schemas
    differ (the shape real documents have: a JSON object, a plain-text code, a form)"""
    k = rng.choice([2, 2, 3])
    mts = rng.sample(MEDIA_TYPES_PLAIN + MEDIA_TYPES_FORM, k)
    out = []
    for mt in mts:
        r = rng.random()
        if mt in MEDIA_TYPES_FORM:
            sch = gen_form_schema(rng, nn)
        elif mt == "text/plain" and r < 0.7:
            sch = gen_string_schema(rng)
            sch.pop("enum", None)
        elif r < 0.08:
            sch = None  # MediaType object without `schema`: any payload
        elif r < 0.16 and out and out[-1][1] is not None and out[-1][0] not in MEDIA_TYPES_FORM:
            sch = copy.deepcopy(out[-1][1])  # the same schema under another media type
        else:
            sch = gen_oas_schema(rng, body_depth, nn)
            if sch.get("type") not in ("object", "array") and rng.random() < 0.4:
                sch = {"type": "object", "properties": {"a": sch, "id": {"type": "integer", "minimum": 1, "maximum": 1000}},
                       "required": ["id"], "additionalProperties": False}
        out.append((mt, sch))
    return out


def add_security(rng, raw, version):
    """declare 1-2 security schemes and require them for every operation; returns [(location, parameter name)] of the
    parameters that generation adds when `with_security_parameters` is on"""
    pool = [("query", "api_key"), ("header", "X-Api-Key"), ("http", None)] + ([("cookie", "auth_ck")] if version != "2.0" else [])
    picks = rng.sample(pool, rng.randint(1, 2))
    schemes, expect = {}, []
    for i, (loc, name) in enumerate(picks):
        if loc == "http":
            schemes[f"s{i}"] = {"type": "basic"} if version == "2.0" else {"type": "http", "scheme": rng.choice(["bearer", "basic"])}
            expect.append(("header", "Authorization"))
        else:
            schemes[f"s{i}"] = {"type": "apiKey", "in": loc, "name": name}
            expect.append((loc, name))
    if version == "2.0":
        raw["securityDefinitions"] = schemes
    else:
        raw.setdefault("components", {})["securitySchemes"] = schemes
    raw["security"] = [{k: []} for k in schemes]
    return expect


def gen_document(rng, version="3.0", body_depth=2, with_ref=True, multi=0.0, security=0.0):
    """`multi`: probability that the operation accepts several payload alternatives (OpenAPI 3: several media types with
    their own schemas; Swagger 2.0: a `consumes` list for a body parameter, or `formData` parameters)"""
    nn = "x-nullable" if version == "2.0" else "nullable"
    path_vars, params = gen_parameters(rng, version, nn)
    path = "/r" + "".join("/{" + v + "}" for v in path_vars)
    op = {"parameters": [d for _, d in params], "responses": {"200": {"description": "OK"}}}
    body = None
    bodies = None
    form_params = None
    comps = {}
    if multi and rng.random() < multi:
        required = rng.random() < 0.7
        if version == "2.0":
            if rng.random() < 0.5:
                body = gen_oas_schema(rng, body_depth, nn)
                mts = rng.sample(MEDIA_TYPES_PLAIN, 2)
                op["parameters"].append({"name": "body", "in": "body", "required": required, "schema": body})
                op["consumes"] = mts
                bodies = [(mt, body) for mt in mts]
            else:
                names = rng.sample(NAMES, rng.randint(1, 3))
                form_params = []
                for n in names:
                    sch = gen_primitive_schema(rng, nn, "query")
                    sch.pop(nn, None) if rng.random() < 0.5 else None
                    d = {"name": n, "in": "formData", **sch}
                    d.setdefault("type", "string")
                    if rng.random() < 0.5:
                        d["required"] = rng.random() < 0.8
                    form_params.append(d)
                op["parameters"] += form_params
                r = rng.random()
                if r < 0.4:
                    op["consumes"] = list(MEDIA_TYPES_FORM) if rng.random() < 0.5 else list(reversed(MEDIA_TYPES_FORM))
                elif r < 0.7:
                    op["consumes"] = [rng.choice(MEDIA_TYPES_FORM)]
                mts = op.get("consumes") or ["multipart/form-data"]
                body = {"type": "object", "properties": {}, "additionalProperties": False}
                for d in form_params:
                    body["properties"][d["name"]] = {k: v for k, v in d.items() if k not in ("name", "in", "required", "description")}
                req = [d["name"] for d in form_params if d.get("required")]
                if req:
                    body["required"] = req
                bodies = [(mt, body) for mt in mts]
                required = True
        else:
            alts = gen_alternatives(rng, nn, body_depth)
            op["requestBody"] = {"required": required, "content": {mt: ({} if sch is None else {"schema": sch}) for mt, sch in alts}}
            bodies = [(mt, {} if sch is None else sch) for mt, sch in alts]
            body = bodies[0][1]
    elif rng.random() < 0.75:
        body = gen_oas_schema(rng, body_depth, nn)
        if body.get("type") not in ("object", "array") and rng.random() < 0.5:
            body = {"type": "object", "properties": {"a": body, "b": gen_oas_schema(rng, 1, nn, top=False)},
                    "required": ["a"], "additionalProperties": False}
        if with_ref and rng.random() < 0.3:
            comps["Item"] = gen_oas_schema(rng, 1, nn)
            ref = "#/definitions/Item" if version == "2.0" else "#/components/schemas/Item"
            body = {"type": "object", "properties": {"item": {"$ref": ref}, "n": {"type": "integer"}}, "required": ["item"]}
        required = rng.random() < 0.7
        if version == "2.0":
            op["parameters"].append({"name": "body", "in": "body", "required": required, "schema": body})
            op["consumes"] = ["application/json"]
        else:
            op["requestBody"] = {"required": required, "content": {"application/json": {"schema": body}}}
    if version == "2.0":
        raw = {"swagger": "2.0", "info": {"title": "t", "version": "1"}, "paths": {path: {"post": op}}}
        if comps:
            raw["definitions"] = comps
    else:
        raw = {"openapi": "3.0.2" if version == "3.0" else "3.1.0", "info": {"title": "t", "version": "1"},
               "paths": {path: {"post": op}}}
        if comps:
            raw["components"] = {"schemas": comps}
    doc = {"raw": raw, "path": path, "method": "POST", "params": params, "body": body, "nn": nn, "version": version}
    if security and rng.random() < security:
        doc["security"] = add_security(rng, raw, version)
    if bodies is not None:
        doc["bodies"] = bodies
        doc["body_required"] = required
        if form_params is not None:
            doc["form_params"] = form_params
    return doc
