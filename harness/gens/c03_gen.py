"""Schema generators for C03 (inputs of coverage.cover_schema_iter): exhaustive small-scope grids per keyword family +
seeded random schemas.  Every function yields plain JSON-Schema dicts (key order matters: the negative loop of
cover_schema_iter walks `schema.items()`)."""
from __future__ import annotations

import itertools

from harness.gens import schemas as G

LENS = [None, 0, 1, 2, 3]
PATTERNS = [None, "^[a-c]+$", "a"]
STRING_EXTRAS = [{}, {"example": "ab"}, {"default": "x"}, {"examples": ["a", "é€"]}, {"example": " lead", "default": " lead"},
                 {"format": "date"}, {"enum": ["a", "bb"]}]


def string_grid():
    for mn, mx, pat, extra in itertools.product(LENS, LENS, PATTERNS, STRING_EXTRAS):
        s = {"type": "string"}
        if mn is not None:
            s["minLength"] = mn
        if mx is not None:
            s["maxLength"] = mx
        if pat is not None:
            s["pattern"] = pat
        s.update(extra)
        yield s


ITEMS = [None, {"type": "integer"}, {"type": "string", "minLength": 1}, {"type": "integer", "minimum": 0, "maximum": 2},
         {"enum": [1, 2]}, True]


def array_grid():
    for items, mn, mx, uniq, extra in itertools.product(ITEMS, [None, 0, 1, 2], [None, 0, 1, 2, 3], [None, True],
                                                        [{}, {"example": [1]}, {"default": []}]):
        s = {"type": "array"}
        if items is not None:
            s["items"] = items
        if mn is not None:
            s["minItems"] = mn
        if mx is not None:
            s["maxItems"] = mx
        if uniq is not None:
            s["uniqueItems"] = uniq
        s.update(extra)
        yield s


PROPS = {
    "a": {"type": "integer", "minimum": 1},
    "b": {"type": "string"},
    "c": {"type": "boolean"},
    "d": {"type": "object", "properties": {"x": {"type": "integer"}}, "required": ["x"]},
    "e": {"type": "string", "example": "E"},
    "f": {"type": "integer", "default": 7, "maximum": 9},
}
ADDITIONAL = [None, False, True, {}, {"type": "string"}]


def object_grid():
    names = list(PROPS)
    for k in range(0, 4):
        for chosen in itertools.combinations(names, k):
            for r in range(0, len(chosen) + 1):
                for req in itertools.combinations(chosen, r):
                    for ap in ADDITIONAL:
                        s = {"type": "object"}
                        if chosen:
                            s["properties"] = {n: dict(PROPS[n]) for n in chosen}
                        if req or k == 1:
                            s["required"] = list(req)
                        if ap is not None:
                            s["additionalProperties"] = ap
                        yield s
    # required names that are not declared, keyword order variations, untyped objects
    yield {"type": "object", "required": ["zz"]}
    yield {"required": ["a"], "properties": {"a": {"type": "integer"}}}
    yield {"properties": {"a": {"type": "integer"}}, "additionalProperties": False}
    yield {"type": "object", "properties": {"a": {"type": "integer"}}, "minProperties": 1}
    yield {"type": "object", "properties": {"a": {"type": "integer"}, "b": {"type": "string"}}, "minProperties": 2}
    yield {"type": "object", "properties": {"a": {"type": "integer"}, "b": {"type": "string"}, "c": {"type": "null"},
                                           "g": {"type": "number"}, "h": {"type": "boolean"}}, "required": ["a"]}


LEAVES = [
    {"type": "integer", "minimum": 0, "maximum": 3},
    {"type": "integer", "minimum": 2},
    {"type": "string", "minLength": 2},
    {"type": "string"},
    {"type": "null"},
    {"type": "boolean"},
    {"enum": [1, "a"]},
    {"type": "number", "maximum": 1},
    {"minimum": 5},
    {"const": 3},
]


def combinator_grid():
    for key in ("anyOf", "oneOf"):
        for a, b in itertools.product(LEAVES, repeat=2):
            yield {key: [dict(a), dict(b)]}
        for a in LEAVES[:6]:
            yield {key: [dict(a)], "type": a.get("type", "integer")}
            yield {"type": "object", "properties": {"p": {key: [dict(a), {"type": "null"}]}}, "required": ["p"]}
    for a in LEAVES:
        yield {"allOf": [dict(a)]}
        yield {"allOf": [dict(a)], "type": "integer"}
    # depth 2
    for a, b, c in itertools.product(LEAVES[:4], LEAVES[2:6], LEAVES[:3]):
        yield {"anyOf": [{"oneOf": [dict(a), dict(b)]}, dict(c)]}
    yield {"allOf": [{"type": "integer"}, {"minimum": 1}]}
    yield {"type": ["integer", "string"], "minimum": 1, "minLength": 2}
    yield {"type": ["integer", "null"], "maximum": 0}
    yield {"type": ["number", "integer"]}
    yield True
    yield False
    yield {}


def random_schemas(rng, n, depth=2):
    for _ in range(n):
        draft4 = rng.random() < 0.6
        yield G.gen_schema(rng, depth=rng.choice([1, depth, depth]), draft4=draft4)


# ---- "sane" random schemas: typed, satisfiable by construction, keyword families consistent with the declared type -------

FORMATS = ["date", "email", "ipv4", "uuid", "x-unknown-format"]
SANE_PATTERNS = ["^[a-c]+$", "^\\d+$", "^a", "b$"]


def sane_number(rng, draft4):
    ty = rng.choice(["integer", "integer", "number"])
    s = {"type": ty}
    lo = rng.randint(-5, 5)
    hi = lo + rng.randint(0, 6)
    if rng.random() < 0.7:
        s["minimum"] = lo if ty == "integer" or rng.random() < 0.7 else lo + 0.5
    if rng.random() < 0.7:
        s["maximum"] = hi if ty == "integer" or rng.random() < 0.7 else hi + 0.5
    if rng.random() < 0.25:
        if draft4:
            if "minimum" in s and rng.random() < 0.6:
                s["exclusiveMinimum"] = rng.random() < 0.7
            if "maximum" in s and rng.random() < 0.6:
                s["exclusiveMaximum"] = rng.random() < 0.7
        else:
            if rng.random() < 0.5:
                s["exclusiveMinimum"] = lo - 1
            if rng.random() < 0.5:
                s["exclusiveMaximum"] = hi + 1
    if rng.random() < 0.25:
        s["multipleOf"] = rng.choice([1, 2, 3, 5])
    if rng.random() < 0.12:
        s["enum"] = sorted({rng.randint(lo, hi) for _ in range(rng.randint(1, 3))})
    if rng.random() < 0.1 and "multipleOf" not in s and "enum" not in s and not any(k.startswith("exclusive") for k in s):
        lo_ok = int(s["minimum"] + 0.5) if "minimum" in s else lo
        hi_ok = int(s["maximum"] - 0.5) if isinstance(s.get("maximum"), float) else s.get("maximum", hi)
        if lo_ok <= hi_ok:
            s[rng.choice(["example", "default"])] = rng.randint(lo_ok, hi_ok)   # a value the schema accepts
    return s


def sane_string(rng):
    s = {"type": "string"}
    lo = rng.randint(0, 3)
    hi = lo + rng.randint(0, 4)
    if rng.random() < 0.5:
        s["minLength"] = lo
    if rng.random() < 0.5:
        s["maxLength"] = hi
    r = rng.random()
    if r < 0.15:
        s["pattern"] = rng.choice(SANE_PATTERNS)
    elif r < 0.3 and "minLength" not in s and "maxLength" not in s:
        s["format"] = rng.choice(FORMATS)
    elif r < 0.4:
        s["enum"] = ["a" * n for n in sorted({rng.randint(lo, hi) for _ in range(2)})]
    if rng.random() < 0.1 and not any(k in s for k in ("pattern", "format", "enum")):
        s[rng.choice(["example", "default"])] = "a" * rng.randint(lo, hi)   # a value the schema accepts
    return s


def sane_schema(rng, depth=2, draft4=True):
    r = rng.random()
    if depth <= 0 or r < 0.45:
        k = rng.random()
        if k < 0.45:
            return sane_number(rng, draft4)
        if k < 0.8:
            return sane_string(rng)
        if k < 0.9:
            return {"type": "boolean"}
        if k < 0.95:
            return {"type": "null"}
        return {"type": [rng.choice(["integer", "string", "boolean"]), "null"]}
    if r < 0.6:
        s = {"type": "array"}
        if rng.random() < 0.85:
            s["items"] = sane_schema(rng, depth - 1, draft4)
        lo = rng.randint(0, 2)
        if rng.random() < 0.4:
            s["minItems"] = lo
        if rng.random() < 0.4:
            s["maxItems"] = lo + rng.randint(0, 3)
        if rng.random() < 0.2:
            s["uniqueItems"] = True
        return s
    if r < 0.82:
        names = rng.sample(["a", "b", "c", "d"], rng.randint(1, 3))
        s = {"type": "object", "properties": {n: sane_schema(rng, depth - 1, draft4) for n in names}}
        if rng.random() < 0.7:
            s["required"] = sorted(rng.sample(names, rng.randint(0, len(names))))
        if rng.random() < 0.4:
            s["additionalProperties"] = rng.choice([False, False, True, {}, {"type": "string"}])
        if rng.random() < 0.08:
            s["minProperties"] = rng.randint(0, len(names))
        return s
    k = rng.choice(["anyOf", "oneOf", "anyOf", "allOf"])
    if k == "allOf":
        return {"allOf": [sane_schema(rng, depth - 1, draft4)]}
    subs = [sane_schema(rng, depth - 1, draft4) for _ in range(2)]
    if rng.random() < 0.3:
        subs[1] = {"type": "null"}
    return {k: subs}


def random_sane(rng, n, depth=2):
    for _ in range(n):
        yield sane_schema(rng, depth=rng.choice([1, depth, depth]), draft4=rng.random() < 0.6)


# ---- operations for builder._iter_coverage_cases -----------------------------------------------------------------------

PARAM_POOL = [
    # (location, name, required, schema)
    ("query", "q", True, {"type": "integer", "minimum": 1, "maximum": 3}),
    ("query", "r", False, {"type": "boolean"}),
    ("query", "s", False, {"type": "string", "minLength": 2}),
    ("query", "n", True, {"minimum": 5}),                    # no positive value at all
    ("query", "e", False, {}),                               # no value at all
    ("header", "X-A", True, {"type": "string", "minLength": 2}),
    ("header", "X-B", False, {"type": "integer"}),
    ("cookie", "c", True, {"type": "string", "enum": ["a", "b"]}),
    ("cookie", "d", False, {"type": "integer", "minimum": 0}),
    ("path", "id", True, {"type": "integer", "minimum": 1}),
    ("query", "arr", False, {"type": "array", "items": {"type": "integer"}}),
    ("query", "t", False, {"type": "string", "default": "dflt"}),
]
BODY_POOL = [
    None,
    [("application/json", {"type": "integer", "minimum": 0, "maximum": 3})],
    [("application/json", {"type": "object", "properties": {"a": {"type": "integer"}, "b": {"type": "string"}},
                           "required": ["a"]})],
    [("application/json", {"type": "string", "minLength": 1}), ("text/plain", {"type": "string", "maxLength": 2})],
    [("application/json", {"minimum": 5})],                  # first body value is negative
    [("application/json", {})],                              # a body alternative without values
]
METHOD_SETS = [["post"], ["get", "post"], ["post", "put", "delete", "patch", "get", "options", "trace"]]


HTTP8 = ["get", "put", "post", "delete", "options", "head", "patch", "trace"]
PATH_ITEM_SECTIONS = {"ref-x": ("x-path-items",), "ref-components": ("components", "x-pathItems")}
EXTRA_FIELDS = {"summary": "users", "description": "all about users", "x-internal": True,
                "servers": [{"url": "http://127.0.0.1:1"}]}
# what a path-level declaration that the operation overrides looks like (same name and location, other contents)
OVERRIDDEN_SCHEMA = {"type": "string", "minLength": 40}


def _declaration(loc, name, req, schema):
    d = {"name": name, "in": loc, "schema": schema}
    if req or loc == "path":
        d["required"] = True
    return d


def build_operation_doc(params, body, methods, method="post", ctx=None):
    """The API description of one operation and of its surroundings.

    ctx (all optional; absent: everything inline at the operation level, as the first generation of this generator did):
      layout      "inline" | "ref-x" | "ref-components": the `paths` entry is the path item itself / a `$ref` into a section
      method      the operation under test (one of `methods`)
      extras      further fields of the path item (summary, description, servers, x-…)
      levels      per parameter: "op" (declared by the operation), "path" (declared by the path item, inherited),
                  "both" (declared by the path item with another schema and the opposite `required`, overridden by the
                  operation's declaration)
      param_refs  per parameter: the declaration is a `$ref` into components/parameters
      first       "parameters" | "methods": which comes first in the path item
      decoys      further entries of the path-item section (another path item with other methods)
    """
    ctx = ctx or {}
    method = ctx.get("method", method)
    has_path = any(p[0] == "path" for p in params)
    path = "/p/{id}" if has_path else "/p"
    levels = ctx.get("levels") or ["op"] * len(params)
    refs = ctx.get("param_refs") or [False] * len(params)
    components = {}

    def place(d, i, tag):
        if refs[i]:
            key = f"P{i}{tag}"
            components.setdefault("parameters", {})[key] = d
            return {"$ref": f"#/components/parameters/{key}"}
        return d

    own, shared = [], []
    for i, (loc, name, req, schema) in enumerate(params):
        level = levels[i]
        if level in ("op", "both"):
            own.append(place(_declaration(loc, name, req, schema), i, "o"))
        if level == "path":
            shared.append(place(_declaration(loc, name, req, schema), i, "s"))
        if level == "both":
            shared.append(place(_declaration(loc, name, (not req) or loc == "path", OVERRIDDEN_SCHEMA), i, "s"))
    op = {"parameters": own, "responses": {"200": {"description": "OK"}}}
    if body is not None:
        op["requestBody"] = {"required": True, "content": {mt: {"schema": sch} for mt, sch in body}}
    id_shared = any(p[0] == "path" and lv in ("path", "both") for p, lv in zip(params, levels))
    item = {}
    if shared and ctx.get("first", "parameters") == "parameters":
        item["parameters"] = shared
    for m in methods:
        if m == method:
            item[m] = op
        else:
            o = {"responses": {"200": {"description": "OK"}}}
            if has_path and not id_shared:
                o["parameters"] = [{"name": "id", "in": "path", "required": True, "schema": {"type": "integer"}}]
            item[m] = o
    if shared and "parameters" not in item:
        item["parameters"] = shared
    for k in ctx.get("extras") or []:
        item[k] = EXTRA_FIELDS[k]
    raw = {"openapi": "3.0.2", "info": {"title": "t", "version": "1"}, "paths": {}}
    layout = ctx.get("layout", "inline")
    if layout == "inline":
        raw["paths"][path] = item
    else:
        section = raw
        for part in PATH_ITEM_SECTIONS[layout]:
            section = section.setdefault(part, {})
        if ctx.get("decoys"):
            section["Decoy"] = {"put": {"responses": {"200": {"description": "OK"}}},
                                "trace": {"responses": {"200": {"description": "OK"}}}}
        section["Item"] = item
        raw["paths"][path] = {"$ref": "#/" + "/".join(PATH_ITEM_SECTIONS[layout]) + "/Item"}
    if components:
        raw.setdefault("components", {}).update(components)
    return raw, path, method


# ---- the document context of an operation: small-scope grid + seeded random --------------------------------------------
DOC_METHOD_SETS = [["post"], ["get", "post"], ["head", "post", "delete"], ["put", "get", "head", "patch"],
                   ["post", "put", "delete", "patch", "get", "options", "trace"], HTTP8]
DOC_CFGS = [None, [], ["head"], ["get", "post"], ["put", "head", "trace", "delete"], HTTP8]
DOC_PARAM_SETS = [
    [],
    [("query", "q", True, {"type": "integer", "minimum": 1, "maximum": 3})],
    [("header", "X-A", True, {"type": "string", "minLength": 2}), ("query", "r", False, {"type": "boolean"})],
    [("path", "id", True, {"type": "integer", "minimum": 1}), ("query", "q", True, {"type": "integer", "minimum": 1, "maximum": 3}),
     ("header", "q", False, {"type": "integer"})],                        # same name, other location: two parameters
    [("cookie", "c", True, {"type": "string", "enum": ["a", "b"]}), ("query", "s", False, {"type": "string", "minLength": 2}),
     ("query", "q", True, {"type": "integer", "minimum": 1, "maximum": 3})],
]
OBJECT_HEADER = {"type": "object", "properties": {"a": {"type": "integer"}}, "required": ["a"]}
DOC_PARAM_SETS.append([("header", "X-Obj", True, OBJECT_HEADER), ("header", "Authorization", True, {"type": "string", "minLength": 3}),
                       ("query", "r", False, {"type": "boolean"})])
DOC_BODIES = [None, [("application/json", {"type": "integer", "minimum": 0, "maximum": 3})]]


def _level_patterns(n):
    if n == 0:
        return [[]]
    if n == 1:
        return [["op"], ["path"], ["both"]]
    base = [["op"] * n, ["path"] * n, ["both"] * n]
    mixed = [[("op", "path", "both")[(i + k) % 3] for i in range(n)] for k in range(3)]
    return base + mixed


def doc_context_grid(thorough):
    """layouts x documented-method sets x the operation's own method x configurations x where the parameters are declared.
    Both tiers walk a diagonal through the product (every third point, every fourth in the quick tier: every factor takes every value, every pair
    (layout, configuration) and (layout, level pattern) occurs); the thorough tier lets the operation's own method range over
    the whole documented set, the quick tier takes one own method per (parameter set, level pattern)."""
    layouts = ["inline", "ref-x", "ref-components"]
    out = []
    for pi, ps in enumerate(DOC_PARAM_SETS):
        for li, levels in enumerate(_level_patterns(len(ps))):
            for mi, ms in enumerate(DOC_METHOD_SETS):
                for oi, own in enumerate(ms if thorough else [ms[(pi + li) % len(ms)]]):
                    for ci, cfg in enumerate(DOC_CFGS):
                        for yi, layout in enumerate(layouts):
                            if (pi + li + mi + ci + yi + (oi if thorough else 0)) % (3 if thorough else 4) != 0:
                                continue
                            k = pi + li + mi + oi + ci + yi
                            ctx = {"layout": layout, "method": own, "levels": levels, "cfg": cfg,
                                   "extras": [["summary"], [], ["x-internal", "servers"], ["description"]][k % 4],
                                   "param_refs": [(k + i) % 4 == 0 for i in range(len(ps))],
                                   "first": ("parameters", "methods")[k % 2], "decoys": k % 3 == 0}
                            out.append((ps, DOC_BODIES[k % 2 if own not in ("get", "head") else 0], ms, ctx))
    return out


def random_doc_context(rng, ps, methods):
    ms = list(methods)
    if rng.random() < 0.3 and "head" not in ms:
        ms.append("head")
    rng.shuffle(ms)
    cfg = rng.choice([None, None, [], ["head"], HTTP8, sorted(rng.sample(HTTP8, rng.randint(1, 5)))])
    return ms, {"layout": rng.choice(["inline", "ref-x", "ref-components"]), "method": rng.choice(ms),
                "levels": [rng.choice(["op", "op", "path", "both"]) for _ in ps],
                "param_refs": [rng.random() < 0.2 for _ in ps], "cfg": cfg,
                "extras": rng.sample(sorted(EXTRA_FIELDS), rng.randint(0, 2)),
                "first": rng.choice(["parameters", "methods"]), "decoys": rng.random() < 0.5}


def operation_grid(thorough):
    """all parameter sets of size <= 2 (3 when thorough) x bodies x documented-method sets"""
    import itertools as it
    sizes = (0, 1, 2, 3) if thorough else (0, 1, 2)
    for k in sizes:
        for chosen in it.combinations(range(len(PARAM_POOL)), k):
            ps = [PARAM_POOL[i] for i in chosen]
            for bi, body in enumerate(BODY_POOL):
                ms = METHOD_SETS[(sum(chosen) + bi) % len(METHOD_SETS)]
                yield ps, body, ms


def random_operation(rng):
    k = rng.randint(0, 5)
    chosen = sorted(rng.sample(range(len(PARAM_POOL)), k))
    ps = []
    for i in chosen:
        loc, name, req, schema = PARAM_POOL[i]
        if rng.random() < 0.3 and loc != "path":
            schema = sane_schema(rng, 1, True)
        if rng.random() < 0.2 and loc != "path":
            req = not req
        ps.append((loc, name, req, schema))
    body = rng.choice(BODY_POOL)
    if body is not None and rng.random() < 0.4:
        body = [("application/json", sane_schema(rng, 2, True))]
    return ps, body, rng.choice(METHOD_SETS)
