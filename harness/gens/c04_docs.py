"""Generators for C04: OpenAPI documents (responses objects) and responses, plus their wire form for the Lean driver.

Everything random derives from the `random.Random` passed in. Characters are ASCII; numeric header values follow
`[+-]?[0-9]+(\\.[0-9]+)?` (the grammar the model's int()/float() cover).
"""
from __future__ import annotations

import copy
import json

from harness.gens.schemas import gen_instance, gen_schema, instance_for

VERSIONS = ["3.0.2", "3.0.2", "3.0.2", "3.1.0", "2.0", "2.0"]
EXPLICIT = ["200", "201", "204", "400", "404", "500"]
RANGES = ["2XX", "4XX", "5XX", "2xx", "20X", "X00"]
STATUSES = [200, 201, 204, 206, 299, 300, 400, 404, 422, 500, 503]
MEDIA = ["application/json", "application/json", "application/xml", "text/plain", "application/problem+json",
         "application/*", "*/*", "application/json; charset=utf-8", "Application/JSON", "text/*", "*/json",
         "application/vnd.api+json"]
MEDIA_BAD = ["json", "text", "", ";application/json", "application/\"js;on\"", "a/\"b;c"]
CT_OTHER = ["text/html", "application/json;charset=utf-8", "APPLICATION/JSON", " application/json ", "text/plain; q=1",
            "application/xml", "application/problem+json", "application/x+json", "image/png", "application/jsonx",
            "application/json; a=\"x;y\"", "text/json"]
CT_BAD = ["garbage", "", "application", ";", "json;application/json", " ", "\"a/b\""]
HEADER_NAMES = ["X-Rate", "X-Id", "ETag", "x-flag"]
# per format: (values that conform, values that do not) — hand-written ground truth, cross-checked against the format
# predicates of the jsonschema library at the start of every run (harness/corr/c04.py: format_tables)
FORMAT_POOL = {
    "uuid": (["123e4567-e89b-12d3-a456-426614174000", "00000000-0000-0000-0000-000000000000"],
             ["zzzzzzzz-zzzz-zzzz-zzzz-zzzzzzzzzzzz", "123e4567-e89b-12d3-a456-42661417400", "abc", ""]),
    "date": (["2024-02-29", "1999-12-31"], ["2023-02-29", "2024-13-01", "24-01-01", "abc", ""]),
    "date-time": (["2024-01-31T10:20:30Z", "1999-12-31T23:59:59+01:00"], ["2024-01-31", "2024-01-31 10:20:30", "abc", ""]),
    "time": (["10:20:30Z", "23:59:59+01:00"], ["25:00:00Z", "10:20", "abc", ""]),
    "duration": (["P1D", "PT1H30M", "P1Y2M3DT4H5M6S"], ["1D", "P", "abc", ""]),
    "email": (["a@b.co", "user@example.com"], ["abc", "", "12"]),
    "idn-email": (["a@b.co"], ["abc", ""]),
    "hostname": (["example.com", "a-b.example"], ["-a.example", "a_b.example", "a b", ""]),
    "idn-hostname": (["example.com"], ["a b", ""]),
    "ipv4": (["127.0.0.1", "10.0.0.255"], ["256.0.0.1", "1.2.3", "abc", ""]),
    "ipv6": (["::1", "2001:db8::8a2e:370:7334"], ["127.0.0.1", "12345::", "abc", ""]),
    "uri": (["http://example.com/a?b=c", "urn:isbn:0451450523"], ["/relative/path", "abc", "a b", ""]),
    "uri-reference": (["/relative/path", "http://example.com", "abc", ""], ["a b", "http://exa mple.com", "\\\\bad"]),
    "iri": (["http://example.com/a"], ["/relative", "a b", ""]),
    "iri-reference": (["/relative", ""], ["a b"]),
    "uri-template": (["http://example.com/{id}", "abc"], ["http://example.com/{id"]),
    "json-pointer": (["/a/b", "", "/a~0b/~1"], ["a/b", "/a~2", "abc"]),
    "relative-json-pointer": (["0", "1/a", "2#"], ["/a", "abc", "-1", ""]),
    "regex": (["^a+$", "abc", ""], ["(", "[a", "a{2,1}"]),
}
# names that are annotations only (OpenAPI data-type formats and vendor names): never enforced
FORMATS_ANNOTATION = ["int32", "int64", "float", "double", "byte", "binary", "password", "x-custom", "UUID"]
# uuid/date/time/duration first: the Draft 4 checker does not know them, the others test the common part
FORMATS_WEIGHTED = (["uuid", "date", "time", "duration", "uri-reference", "json-pointer"] * 2 + sorted(FORMAT_POOL)
                    + ["date-time", "email", "ipv4"])


def gen_format(rng):
    return rng.choice(FORMATS_ANNOTATION) if rng.random() < 0.12 else rng.choice(FORMATS_WEIGHTED)


def format_value(rng, fmt):
    """A string aimed at `fmt`: conforming, violating, or generic."""
    ok, bad = FORMAT_POOL.get(fmt, (["abc"], ["", "a b"]))
    r = rng.random()
    if r < 0.45:
        return rng.choice(ok)
    if r < 0.9:
        return rng.choice(bad)
    return rng.choice(["abc", "", "12", "a b"])

HEADER_VALUES = ["0", "1", "5", "-3", "+2", "42", "007", "1.5", "-0.5", "2.50", "abc", "", "true", "False", "yes", "off",
                 "null", "NULL", "a b", "12a", "t", "n"]


def sanitize(s, draft4, lengths_ok=True):
    """Make a generated schema acceptable to `jsonschema.validate`'s check_schema for the draft in use and keep it
    away from code that belongs to other properties: boolean sub-schemas become objects under draft 4; `pattern` is
    not combined with length keywords (C01's quantifier merging would rewrite them)."""
    if isinstance(s, bool):
        if not draft4:
            return s
        return {} if s else {"not": {}}
    if not isinstance(s, dict):
        return s
    out = {}
    for k, v in s.items():
        if k in ("properties", "patternProperties"):
            out[k] = {n: sanitize(x, draft4, lengths_ok) for n, x in v.items()}
        elif k in ("items", "not") or (k == "additionalProperties" and isinstance(v, dict)):
            out[k] = sanitize(v, draft4, lengths_ok)
        elif k in ("allOf", "anyOf", "oneOf"):
            out[k] = [sanitize(x, draft4, lengths_ok) for x in v]
        elif k == "enum":
            seen, uniq = set(), []
            for x in v:  # the meta-schema wants unique items (1 and true are different, 1 and 1.0 are not)
                key = json.dumps(x, sort_keys=True)
                if key not in seen:
                    seen.add(key)
                    uniq.append(x)
            out[k] = uniq
        else:
            out[k] = v
    if "pattern" in out and not lengths_ok:
        out.pop("minLength", None)
        out.pop("maxLength", None)
    return out


def decorate(rng, s, nullable_name, p_null=0.12, p_wo=0.25):
    """Sprinkle OpenAPI-only keywords over a schema: `nullable` and at most one writeOnly property per object."""
    if not isinstance(s, dict) or "$ref" in s:
        return s
    out = {}
    for k, v in s.items():
        if k in ("properties", "patternProperties"):
            out[k] = {n: decorate(rng, x, nullable_name, p_null, p_wo) for n, x in v.items()}
        elif k in ("items", "not") or (k == "additionalProperties" and isinstance(v, dict)):
            out[k] = decorate(rng, v, nullable_name, p_null, p_wo)
        elif k in ("allOf", "anyOf", "oneOf"):
            out[k] = [decorate(rng, x, nullable_name, p_null, p_wo) for x in v]
        else:
            out[k] = v
    if out and rng.random() < p_null:
        out[nullable_name] = rng.random() < 0.85
    if out.get("type") == "object" and "not" not in out and out.get("properties") and rng.random() < p_wo:
        name = rng.choice(sorted(out["properties"]))
        sub = out["properties"][name]
        if isinstance(sub, dict) and "$ref" not in sub:
            out["properties"][name] = {**sub, "writeOnly": True}
    return out


def top_schema(rng, draft4, defs, nullable_name, ref_prefix):
    r = rng.random()
    if r < 0.06:
        return {}
    if r < 0.2:
        return decorate(rng, format_schema(rng, draft4), nullable_name, p_wo=0.0)
    s = gen_schema(rng, rng.choice([1, 2, 2, 3]), draft4, defs)
    while not isinstance(s, dict):
        s = gen_schema(rng, 2, draft4, defs)
    s = decorate(rng, sanitize(s, draft4, lengths_ok=False), nullable_name)
    return reref(s, ref_prefix)


def reref(s, prefix):
    if isinstance(s, dict):
        if set(s) == {"$ref"} and isinstance(s["$ref"], str) and s["$ref"].startswith("#/definitions/"):
            return {"$ref": prefix + s["$ref"][len("#/definitions/"):]}
        return {k: reref(v, prefix) for k, v in s.items()}
    if isinstance(s, list):
        return [reref(v, prefix) for v in s]
    return s


def gen_header_def(rng, v2, v31=False, ref_schemas=None):
    """-> header definition. `ref_schemas`: dict to park schemas in that the header's `schema` then references
    (3.x only: `#/components/schemas/<name>`)."""
    kind = rng.choice(["integer", "integer", "number", "boolean", "string", "string", "untyped", "null", "array", "enum",
                       "format", "format", "format"])
    s: dict = {}
    if kind in ("integer", "number"):
        s["type"] = kind
        if rng.random() < 0.6:
            s["minimum"] = rng.choice([0, 1, -1, 2])
        if rng.random() < 0.5:
            s["maximum"] = rng.choice([1, 5, 42, 100])
        if kind == "number" and rng.random() < 0.3:
            s["multipleOf"] = 0.5
        if rng.random() < 0.1:
            s["format"] = rng.choice(["int32", "int64", "float", "double"])
    elif kind == "boolean":
        s["type"] = "boolean"
    elif kind == "string":
        s["type"] = "string"
        if rng.random() < 0.5:
            s["minLength"] = rng.randint(0, 3)
        if rng.random() < 0.5:
            s["maxLength"] = rng.randint(1, 4)
    elif kind == "null":
        s["type"] = "null"
    elif kind == "array":
        s["type"] = "array"
        s["items"] = {"type": "string"}
    elif kind == "enum":
        s["enum"] = rng.sample(["1", "abc", "true", 1, True], 2)
        if rng.random() < 0.5:
            s["type"] = rng.choice(["string", "integer"])
    elif kind == "format":
        if rng.random() < 0.8:
            s["type"] = "string"
        s["format"] = gen_format(rng)
        if rng.random() < 0.15:
            s["minLength"] = 1
    # the type as a list of names (3.1), nullable, const (3.1), informative keywords
    if v31 and "type" in s and rng.random() < 0.15:
        s["type"] = list(dict.fromkeys(rng.choice([[s["type"], "null"], ["null", s["type"]], [s["type"], "string"],
                                                   ["integer", "boolean"]])))
    if rng.random() < 0.15:
        s["x-nullable" if v2 else "nullable"] = rng.random() < 0.85
    if v31 and rng.random() < 0.12:
        s["const"] = rng.choice(["1", "abc", 1, True, "true"])
    if rng.random() < 0.1:
        k = rng.choice(["description", "title", "default", "example", "x-vendor"])
        s[k] = "d" if k in ("description", "title") else rng.choice(["d", 1])  # the meta-schemas want text there
    required = rng.random() < 0.5
    if v2:
        d = dict(s)
        if required:
            d["x-required"] = True
        elif rng.random() < 0.3:
            d["x-required"] = False
        if rng.random() < 0.3:
            d["description"] = "h"
        return d
    if ref_schemas is not None and s and rng.random() < 0.15:
        name = f"HS{len(ref_schemas)}"
        ref_schemas[name] = s
        s = {"$ref": f"#/components/schemas/{name}"}
    d = {"schema": s}
    if required:
        d["required"] = True
    elif rng.random() < 0.3:
        d["required"] = False
    return d


def format_schema(rng, draft4):
    """A body schema built around `format`."""
    f = gen_format(rng)
    leaf: dict = {"type": "string", "format": f} if rng.random() < 0.85 else {"format": f}
    r = rng.random()
    if r < 0.4:
        return leaf
    if r < 0.75:
        s = {"type": "object", "properties": {"id": leaf, "n": {"type": "integer"}}}
        if rng.random() < 0.7:
            s["required"] = ["id"]
        return s
    if r < 0.9:
        return {"type": "array", "items": leaf}
    return {"anyOf": [leaf, {"type": "integer"}]}


def gen_doc(rng, version=None):
    """-> raw OpenAPI document with one operation GET /x."""
    version = version or rng.choice(VERSIONS)
    v2 = version == "2.0"
    draft4 = not version.startswith("3.1")
    nullable_name = "x-nullable" if v2 else "nullable"
    schema_prefix = "#/definitions/" if v2 else "#/components/schemas/"
    defs = ["A", "B"] if rng.random() < 0.3 else None
    components: dict = {}
    if defs:
        a = decorate(rng, sanitize(gen_schema(rng, 1, draft4), draft4, False), nullable_name)
        b = decorate(rng, sanitize(gen_schema(rng, 2, draft4, ["A"]), draft4, False), nullable_name)
        a = a if isinstance(a, dict) else {}
        b = b if isinstance(b, dict) else {}
        components["schemas"] = {"A": reref(a, schema_prefix), "B": reref(b, schema_prefix)}
    n_keys = rng.choice([1, 1, 2, 2, 3, 4])
    pool = EXPLICIT + RANGES + ["default"]
    r = rng.random()
    if r < 0.12:
        keys = rng.sample(RANGES[:3], min(n_keys, 3))
    elif r < 0.5:
        keys = rng.sample(EXPLICIT, min(n_keys, len(EXPLICIT)))
    elif r < 0.7:
        keys = rng.sample(EXPLICIT, min(n_keys, len(EXPLICIT))) + ["default"]
        rng.shuffle(keys)
    else:
        keys = rng.sample(pool, n_keys)
    if rng.random() < 0.03:
        keys.append(rng.choice(["0200", "20", "2XXX", "abc", "", "XXX"]))
    responses: dict = {}
    ref_responses: dict = {}
    ref_headers: dict = {}
    ref_header_schemas: dict = {}
    for key in keys:
        d: dict = {"description": "d"}
        if v2:
            if rng.random() < 0.75:
                d["schema"] = top_schema(rng, draft4, defs, nullable_name, schema_prefix)
        else:
            n_media = rng.choice([0, 1, 1, 1, 2, 2, 3])
            content = {}
            for _ in range(n_media):
                mt = rng.choice(MEDIA_BAD) if rng.random() < 0.04 else rng.choice(MEDIA)
                r = rng.random()
                if r < 0.8:
                    content[mt] = {"schema": top_schema(rng, draft4, defs, nullable_name, schema_prefix)}
                elif r < 0.9:
                    content[mt] = {}
                else:
                    content[mt] = {"example": 1}
            if content or rng.random() < 0.3:
                d["content"] = content
        n_headers = rng.choice([0, 0, 1, 1, 2])
        if n_headers or rng.random() < 0.1:
            headers = {}
            for name in rng.sample(HEADER_NAMES, n_headers):
                hd = gen_header_def(rng, v2, version.startswith("3.1"), None if v2 else ref_header_schemas)
                if not v2 and rng.random() < 0.25:
                    ref_name = f"H{len(ref_headers)}"
                    ref_headers[ref_name] = hd
                    hd = {"$ref": f"#/components/headers/{ref_name}"}
                headers[name] = hd
            d["headers"] = headers
        if rng.random() < 0.2:
            ref_name = f"R{len(ref_responses)}"
            ref_responses[ref_name] = d
            d = {"$ref": ("#/responses/" if v2 else "#/components/responses/") + ref_name}
        responses[key] = d
    op: dict = {"responses": responses}
    raw: dict = {"info": {"title": "t", "version": "1"}, "paths": {"/x": {"get": op}}}
    if v2:
        raw["swagger"] = "2.0"
        if "schemas" in components:
            raw["definitions"] = components["schemas"]
        if ref_responses:
            raw["responses"] = ref_responses
        r = rng.random()
        produces = [rng.choice(MEDIA_BAD) if rng.random() < 0.04 else rng.choice(MEDIA) for _ in range(rng.choice([1, 1, 2]))]
        if r < 0.45:
            op["produces"] = produces
        elif r < 0.85:
            raw["produces"] = produces
            if rng.random() < 0.2:
                op["produces"] = []
        elif r < 0.92:
            raw["produces"] = produces
            op["produces"] = [rng.choice(MEDIA)]
    else:
        raw["openapi"] = version
        if ref_responses:
            components["responses"] = ref_responses
        if ref_headers:
            components["headers"] = ref_headers
        if ref_header_schemas:
            components.setdefault("schemas", {}).update(ref_header_schemas)
        if components:
            raw["components"] = components
    return raw


def resolve_local(raw, node):
    """Our own resolution of a local `$ref` (one step is all the generator produces)."""
    if isinstance(node, dict) and "$ref" in node:
        cur = raw
        for tok in node["$ref"][2:].split("/"):
            cur = cur[tok.replace("~1", "/").replace("~0", "~")]
        return cur, True
    return node, False


def op_of(raw):
    return raw["paths"]["/x"]["get"]


def is_v2(raw):
    return "swagger" in raw


def resolve_chain(raw, node, limit=8):
    """Follow a chain of local `$ref`s with our own pointer walk -> (target, was_ref)."""
    was_ref = False
    while isinstance(node, dict) and isinstance(node.get("$ref"), str) and limit > 0:
        node, _ = resolve_local(raw, node)
        was_ref = True
        limit -= 1
    return node, was_ref


def header_schema_of(raw, hd):
    """The header's schema as written: the header object itself (2.0) or its `schema` (3.x)."""
    return hd if is_v2(raw) else hd.get("schema", {})


def wire_doc(raw):
    v2 = is_v2(raw)
    op = op_of(raw)
    out = []
    for key, d in op["responses"].items():
        d, _ = resolve_local(raw, d)
        content = []
        if not v2:
            for mt, option in (d.get("content") or {}).items():
                content.append([mt, option["schema"] if option and "schema" in option else None])
        headers = []
        for name, hd in (d.get("headers") or {}).items():
            hd, is_ref = resolve_local(raw, hd)
            schema = header_schema_of(raw, hd)
            required = bool(hd.get("x-required" if v2 else "required", False))
            target, schema_is_ref = resolve_chain(raw, schema)
            headers.append([name, is_ref, required, schema, target if schema_is_ref else None])
        out.append([str(key), {"content": content, "schema2": d.get("schema") if v2 else None, "headers": headers}])
    produces = []
    if v2:
        produces = op.get("produces") or raw.get("produces", [])
    return {"v2": v2, "responses": out, "produces": list(produces),
            "v31": (not v2) and str(raw.get("openapi", "")).startswith("3.1")}


def vary_case(rng, s):
    r = rng.random()
    if r < 0.6:
        return s
    if r < 0.8:
        return s.lower()
    return s.upper()


def gen_response(rng, raw):
    """-> dict(status, headers: {name: value}, content: bytes) aimed at the document."""
    v2 = is_v2(raw)
    op = op_of(raw)
    keys = [str(k) for k in op["responses"]]
    cands = []
    for k in keys:
        if k.isdigit() and len(k) == 3:
            cands += [int(k)] * 3
        elif len(k) == 3 and all(c in "0123456789xX" for c in k):
            cands += [int("".join(rng.choice("0123456789") if c in "xX" else c for c in k)) for _ in range(3)]
    cands += [rng.choice(STATUSES)]
    status = rng.choice(cands)
    # the definition our own lookup would choose (explicit > range > default), to aim headers and body at it
    d = None
    for k in keys:
        if k == str(status):
            d = op["responses"][k]
            break
    if d is None:
        for k in keys:
            if len(k) == len(str(status)) and all(c in "xX" or c == s for c, s in zip(k, str(status))):
                d = op["responses"][k]
                break
    if d is None and "default" in op["responses"]:
        d = op["responses"]["default"]
    if d is None and rng.random() < 0.5 and keys:
        d = op["responses"][rng.choice(keys)]
    d = resolve_local(raw, d)[0] if d is not None else {}
    documented = list((d.get("content") or {}).keys()) if not v2 else list(op.get("produces") or raw.get("produces", []))
    headers: dict = {}
    r = rng.random()
    if r < 0.1:
        pass
    elif r < 0.6 and documented:
        mt = rng.choice(documented)
        if "*" in mt:
            mt = mt.replace("*", rng.choice(["json", "application", "x"]))
        if rng.random() < 0.25 and ";" not in mt:
            mt += rng.choice(["; charset=utf-8", ";q=0.5", " ; a=\"b;c\""])
        headers[vary_case(rng, "Content-Type")] = vary_case(rng, mt) if rng.random() < 0.3 else mt
    elif r < 0.8:
        headers["Content-Type"] = rng.choice(["application/json", "application/json", "application/json; charset=utf-8"] + CT_OTHER)
    elif r < 0.93:
        headers["Content-Type"] = rng.choice(CT_OTHER)
    else:
        headers["Content-Type"] = rng.choice(CT_BAD)
    for name, hd in (d.get("headers") or {}).items():
        r = rng.random()
        if r < 0.3:
            continue
        hd = resolve_local(raw, hd)[0]
        schema = resolve_chain(raw, header_schema_of(raw, hd))[0]
        t = schema.get("type")
        if isinstance(t, list):
            t = rng.choice(t) if t else None
        if r < 0.7:
            if "const" in schema and rng.random() < 0.6:
                value = str(schema["const"])
            elif isinstance(schema.get("format"), str) and t in (None, "string"):
                value = format_value(rng, schema["format"])
            elif "enum" in schema:
                value = str(rng.choice(schema["enum"]))
            elif t in ("integer", "number"):
                value = str(rng.choice([schema.get("minimum", 0), schema.get("maximum", 1), 1, 0]))
                if t == "number" and rng.random() < 0.3:
                    value += rng.choice([".5", ".0", ".50"])
            elif t == "boolean":
                value = rng.choice(["true", "false", "1", "0", "Yes", "off"])
            elif t == "null":
                value = rng.choice(["null", "Null"])
            else:
                value = rng.choice(["a", "ab", "abc", "abcd", ""])
        else:
            value = rng.choice(HEADER_VALUES)
        headers[vary_case(rng, name)] = value
    if rng.random() < 0.15:
        headers["X-Other"] = "1"
    # body
    schemas = []
    if v2:
        if "schema" in d:
            schemas.append(d["schema"])
    else:
        for option in (d.get("content") or {}).values():
            if option and "schema" in option:
                schemas.append(option["schema"])
    r = rng.random()
    if r < 0.08:
        content = rng.choice([b"", b"{", b"[1,", b"<a/>", b"plain text", b"nul", b"{'a': 1}"])
    elif schemas and r < 0.9:
        s = rng.choice(schemas)
        s = deref_schema(raw, s)
        content = json.dumps(format_instance(rng, s) if has_format(s) else instance_for(rng, s)).encode()
    else:
        content = json.dumps(gen_instance(rng, 2)).encode()
    return {"status": status, "headers": headers, "content": content}


def has_format(s, depth=4):
    if depth <= 0:
        return False
    if isinstance(s, dict):
        return isinstance(s.get("format"), str) or any(has_format(v, depth - 1) for v in s.values())
    if isinstance(s, list):
        return any(has_format(v, depth - 1) for v in s)
    return False


def format_instance(rng, s, depth=3):
    """An instance for a schema built around `format` (format_schema): strings come from the format's pool."""
    if not isinstance(s, dict) or depth <= 0 or rng.random() < 0.08:
        return gen_instance(rng, 1)
    if isinstance(s.get("format"), str) and s.get("type") in (None, "string"):
        return format_value(rng, s["format"])
    if "anyOf" in s and s["anyOf"]:
        return format_instance(rng, rng.choice(s["anyOf"]), depth - 1)
    if s.get("type") == "object":
        out = {}
        for k, sub in (s.get("properties") or {}).items():
            if k in s.get("required", []) or rng.random() < 0.7:
                out[k] = format_instance(rng, sub, depth - 1)
        return out
    if s.get("type") == "array":
        return [format_instance(rng, s.get("items", {}), depth - 1) for _ in range(rng.randint(0, 2))]
    return instance_for(rng, s)


def deref_schema(raw, s, depth=3):
    """Inline local references (for aiming instances only)."""
    if depth <= 0:
        return s
    if isinstance(s, dict):
        if "$ref" in s and isinstance(s["$ref"], str):
            try:
                return deref_schema(raw, resolve_local(raw, s)[0], depth - 1)
            except (KeyError, TypeError):
                return {}
        return {k: deref_schema(raw, v, depth) for k, v in s.items()}
    if isinstance(s, list):
        return [deref_schema(raw, v, depth) for v in s]
    return s


def wire_resp(resp):
    ct = None
    headers = []
    for k, v in resp["headers"].items():
        if k.lower() == "content-type":
            ct = v
        headers.append([k.lower(), v])
    try:
        body = ["json", json.loads(resp["content"].decode("utf-8"))]
    except ValueError:
        body = ["malformed"]
    return {"status": resp["status"], "ct": ct, "headers": headers, "body": body}


def header_strings(resp):
    return [v for v in resp["headers"].values()]


def formats_in(node, acc=None):
    """every string found under a `format` key anywhere in the document"""
    acc = set() if acc is None else acc
    if isinstance(node, dict):
        f = node.get("format")
        if isinstance(f, str):
            acc.add(f)
        for v in node.values():
            formats_in(v, acc)
    elif isinstance(node, list):
        for v in node:
            formats_in(v, acc)
    return acc


def strings_in(node, acc=None):
    acc = set() if acc is None else acc
    if isinstance(node, str):
        acc.add(node)
    elif isinstance(node, dict):
        acc.update(node.keys())
        for v in node.values():
            strings_in(v, acc)
    elif isinstance(node, list):
        for v in node:
            strings_in(v, acc)
    return acc


def clone(x):
    return copy.deepcopy(x)
