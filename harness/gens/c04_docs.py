"""Generators for C04: OpenAPI documents (responses objects) and responses, plus their wire form for the Lean driver.

Everything random derives from the `random.Random` passed in. Characters are ASCII; numeric header values follow
`[+-]?[0-9]+(\\.[0-9]+)?` (the grammar the model's int()/float() cover).
"""
from __future__ import annotations

import copy
import json

from harness.gens.schemas import gen_instance, gen_schema, instance_for

VERSIONS = ["3.0.2", "3.0.2", "3.0.2", "3.1.0", "2.0", "2.0"]
EXPLICIT = ["200", "201", "204", "400", "404", "500"]
RANGES = ["2XX", "4XX", "5XX", "2xx", "20X", "X00"]
STATUSES = [200, 201, 204, 206, 299, 300, 400, 404, 422, 500, 503]
MEDIA = ["application/json", "application/json", "application/xml", "text/plain", "application/problem+json",
         "application/*", "*/*", "application/json; charset=utf-8", "Application/JSON", "text/*", "*/json",
         "application/vnd.api+json"]
MEDIA_BAD = ["json", "text", "", ";application/json", "application/\"js;on\"", "a/\"b;c"]
CT_OTHER = ["text/html", "application/json;charset=utf-8", "APPLICATION/JSON", " application/json ", "text/plain; q=1",
            "application/xml", "application/problem+json", "application/x+json", "image/png", "application/jsonx",
            "application/json; a=\"x;y\"", "text/json"]
CT_BAD = ["garbage", "", "application", ";", "json;application/json", " ", "\"a/b\""]
HEADER_NAMES = ["X-Rate", "X-Id", "ETag", "x-flag"]
HEADER_VALUES = ["0", "1", "5", "-3", "+2", "42", "007", "1.5", "-0.5", "2.50", "abc", "", "true", "False", "yes", "off",
                 "null", "NULL", "a b", "12a", "t", "n"]


def sanitize(s, draft4, lengths_ok=True):
    """Make a generated schema acceptable to `jsonschema.validate`'s check_schema for the draft in use and keep it
    away from code that belongs to other properties: boolean sub-schemas become objects under draft 4; `pattern` is
    not combined with length keywords (C01's quantifier merging would rewrite them)."""
    if isinstance(s, bool):
        if not draft4:
            return s
        return {} if s else {"not": {}}
    if not isinstance(s, dict):
        return s
    out = {}
    for k, v in s.items():
        if k in ("properties", "patternProperties"):
            out[k] = {n: sanitize(x, draft4, lengths_ok) for n, x in v.items()}
        elif k in ("items", "not") or (k == "additionalProperties" and isinstance(v, dict)):
            out[k] = sanitize(v, draft4, lengths_ok)
        elif k in ("allOf", "anyOf", "oneOf"):
            out[k] = [sanitize(x, draft4, lengths_ok) for x in v]
        elif k == "enum":
            seen, uniq = set(), []
            for x in v:  # the meta-schema wants unique items (1 and true are different, 1 and 1.0 are not)
                key = json.dumps(x, sort_keys=True)
                if key not in seen:
                    seen.add(key)
                    uniq.append(x)
            out[k] = uniq
        else:
            out[k] = v
    if "pattern" in out and not lengths_ok:
        out.pop("minLength", None)
        out.pop("maxLength", None)
    return out


def decorate(rng, s, nullable_name, p_null=0.12, p_wo=0.25):
    """Sprinkle OpenAPI-only keywords over a schema: `nullable` and at most one writeOnly property per object."""
    if not isinstance(s, dict) or "$ref" in s:
        return s
    out = {}
    for k, v in s.items():
        if k in ("properties", "patternProperties"):
            out[k] = {n: decorate(rng, x, nullable_name, p_null, p_wo) for n, x in v.items()}
        elif k in ("items", "not") or (k == "additionalProperties" and isinstance(v, dict)):
            out[k] = decorate(rng, v, nullable_name, p_null, p_wo)
        elif k in ("allOf", "anyOf", "oneOf"):
            out[k] = [decorate(rng, x, nullable_name, p_null, p_wo) for x in v]
        else:
            out[k] = v
    if out and rng.random() < p_null:
        out[nullable_name] = rng.random() < 0.85
    if out.get("type") == "object" and "not" not in out and out.get("properties") and rng.random() < p_wo:
        name = rng.choice(sorted(out["properties"]))
        sub = out["properties"][name]
        if isinstance(sub, dict) and "$ref" not in sub:
            out["properties"][name] = {**sub, "writeOnly": True}
    return out


def top_schema(rng, draft4, defs, nullable_name, ref_prefix):
    r = rng.random()
    if r < 0.06:
        return {}
    s = gen_schema(rng, rng.choice([1, 2, 2, 3]), draft4, defs)
    while not isinstance(s, dict):
        s = gen_schema(rng, 2, draft4, defs)
    s = decorate(rng, sanitize(s, draft4, lengths_ok=False), nullable_name)
    return reref(s, ref_prefix)


def reref(s, prefix):
    if isinstance(s, dict):
        if set(s) == {"$ref"} and isinstance(s["$ref"], str) and s["$ref"].startswith("#/definitions/"):
            return {"$ref": prefix + s["$ref"][len("#/definitions/"):]}
        return {k: reref(v, prefix) for k, v in s.items()}
    if isinstance(s, list):
        return [reref(v, prefix) for v in s]
    return s


def gen_header_def(rng, v2):
    kind = rng.choice(["integer", "integer", "number", "boolean", "string", "string", "untyped", "null", "array", "enum"])
    s: dict = {}
    if kind in ("integer", "number"):
        s["type"] = kind
        if rng.random() < 0.6:
            s["minimum"] = rng.choice([0, 1, -1, 2])
        if rng.random() < 0.5:
            s["maximum"] = rng.choice([1, 5, 42, 100])
        if kind == "number" and rng.random() < 0.3:
            s["multipleOf"] = 0.5
    elif kind == "boolean":
        s["type"] = "boolean"
    elif kind == "string":
        s["type"] = "string"
        if rng.random() < 0.5:
            s["minLength"] = rng.randint(0, 3)
        if rng.random() < 0.5:
            s["maxLength"] = rng.randint(1, 4)
    elif kind == "null":
        s["type"] = "null"
    elif kind == "array":
        s["type"] = "array"
        s["items"] = {"type": "string"}
    elif kind == "enum":
        s["enum"] = rng.sample(["1", "abc", "true", 1, True], 2)
        if rng.random() < 0.5:
            s["type"] = rng.choice(["string", "integer"])
    required = rng.random() < 0.5
    if v2:
        d = dict(s)
        if required:
            d["x-required"] = True
        elif rng.random() < 0.3:
            d["x-required"] = False
        return d
    d = {"schema": s}
    if required:
        d["required"] = True
    elif rng.random() < 0.3:
        d["required"] = False
    return d


def gen_doc(rng, version=None):
    """-> raw OpenAPI document with one operation GET /x."""
    version = version or rng.choice(VERSIONS)
    v2 = version == "2.0"
    draft4 = not version.startswith("3.1")
    nullable_name = "x-nullable" if v2 else "nullable"
    schema_prefix = "#/definitions/" if v2 else "#/components/schemas/"
    defs = ["A", "B"] if rng.random() < 0.3 else None
    components: dict = {}
    if defs:
        a = decorate(rng, sanitize(gen_schema(rng, 1, draft4), draft4, False), nullable_name)
        b = decorate(rng, sanitize(gen_schema(rng, 2, draft4, ["A"]), draft4, False), nullable_name)
        a = a if isinstance(a, dict) else {}
        b = b if isinstance(b, dict) else {}
        components["schemas"] = {"A": reref(a, schema_prefix), "B": reref(b, schema_prefix)}
    n_keys = rng.choice([1, 1, 2, 2, 3, 4])
    pool = EXPLICIT + RANGES + ["default"]
    r = rng.random()
    if r < 0.12:
        keys = rng.sample(RANGES[:3], min(n_keys, 3))
    elif r < 0.5:
        keys = rng.sample(EXPLICIT, min(n_keys, len(EXPLICIT)))
    elif r < 0.7:
        keys = rng.sample(EXPLICIT, min(n_keys, len(EXPLICIT))) + ["default"]
        rng.shuffle(keys)
    else:
        keys = rng.sample(pool, n_keys)
    if rng.random() < 0.03:
        keys.append(rng.choice(["0200", "20", "2XXX", "abc", "", "XXX"]))
    responses: dict = {}
    ref_responses: dict = {}
    ref_headers: dict = {}
    for key in keys:
        d: dict = {"description": "d"}
        if v2:
            if rng.random() < 0.75:
                d["schema"] = top_schema(rng, draft4, defs, nullable_name, schema_prefix)
        else:
            n_media = rng.choice([0, 1, 1, 1, 2, 2, 3])
            content = {}
            for _ in range(n_media):
                mt = rng.choice(MEDIA_BAD) if rng.random() < 0.04 else rng.choice(MEDIA)
                r = rng.random()
                if r < 0.8:
                    content[mt] = {"schema": top_schema(rng, draft4, defs, nullable_name, schema_prefix)}
                elif r < 0.9:
                    content[mt] = {}
                else:
                    content[mt] = {"example": 1}
            if content or rng.random() < 0.3:
                d["content"] = content
        n_headers = rng.choice([0, 0, 1, 1, 2])
        if n_headers or rng.random() < 0.1:
            headers = {}
            for name in rng.sample(HEADER_NAMES, n_headers):
                hd = gen_header_def(rng, v2)
                if not v2 and rng.random() < 0.25:
                    ref_name = f"H{len(ref_headers)}"
                    ref_headers[ref_name] = hd
                    hd = {"$ref": f"#/components/headers/{ref_name}"}
                headers[name] = hd
            d["headers"] = headers
        if rng.random() < 0.2:
            ref_name = f"R{len(ref_responses)}"
            ref_responses[ref_name] = d
            d = {"$ref": ("#/responses/" if v2 else "#/components/responses/") + ref_name}
        responses[key] = d
    op: dict = {"responses": responses}
    raw: dict = {"info": {"title": "t", "version": "1"}, "paths": {"/x": {"get": op}}}
    if v2:
        raw["swagger"] = "2.0"
        if "schemas" in components:
            raw["definitions"] = components["schemas"]
        if ref_responses:
            raw["responses"] = ref_responses
        r = rng.random()
        produces = [rng.choice(MEDIA_BAD) if rng.random() < 0.04 else rng.choice(MEDIA) for _ in range(rng.choice([1, 1, 2]))]
        if r < 0.45:
            op["produces"] = produces
        elif r < 0.85:
            raw["produces"] = produces
            if rng.random() < 0.2:
                op["produces"] = []
        elif r < 0.92:
            raw["produces"] = produces
            op["produces"] = [rng.choice(MEDIA)]
    else:
        raw["openapi"] = version
        if ref_responses:
            components["responses"] = ref_responses
        if ref_headers:
            components["headers"] = ref_headers
        if components:
            raw["components"] = components
    return raw


def resolve_local(raw, node):
    """Our own resolution of a local `$ref` (one step is all the generator produces)."""
    if isinstance(node, dict) and "$ref" in node:
        cur = raw
        for tok in node["$ref"][2:].split("/"):
            cur = cur[tok.replace("~1", "/").replace("~0", "~")]
        return cur, True
    return node, False


def op_of(raw):
    return raw["paths"]["/x"]["get"]


def is_v2(raw):
    return "swagger" in raw


V2_HEADER_KEYWORDS = ("type", "format", "items", "maximum", "exclusiveMaximum", "minimum", "exclusiveMinimum", "maxLength",
                      "minLength", "pattern", "maxItems", "minItems", "uniqueItems", "enum", "multipleOf")


def wire_doc(raw):
    v2 = is_v2(raw)
    op = op_of(raw)
    out = []
    for key, d in op["responses"].items():
        d, _ = resolve_local(raw, d)
        content = []
        if not v2:
            for mt, option in (d.get("content") or {}).items():
                content.append([mt, option["schema"] if option and "schema" in option else None])
        headers = []
        for name, hd in (d.get("headers") or {}).items():
            hd, is_ref = resolve_local(raw, hd)
            if v2:
                schema = {k: v for k, v in hd.items() if k in V2_HEADER_KEYWORDS}
                required = bool(hd.get("x-required", False))
            else:
                schema = hd.get("schema", {})
                required = bool(hd.get("required", False))
            headers.append([name, is_ref, required, schema])
        out.append([str(key), {"content": content, "schema2": d.get("schema") if v2 else None, "headers": headers}])
    produces = []
    if v2:
        produces = op.get("produces") or raw.get("produces", [])
    return {"v2": v2, "responses": out, "produces": list(produces)}


def vary_case(rng, s):
    r = rng.random()
    if r < 0.6:
        return s
    if r < 0.8:
        return s.lower()
    return s.upper()


def gen_response(rng, raw):
    """-> dict(status, headers: {name: value}, content: bytes) aimed at the document."""
    v2 = is_v2(raw)
    op = op_of(raw)
    keys = [str(k) for k in op["responses"]]
    cands = []
    for k in keys:
        if k.isdigit() and len(k) == 3:
            cands += [int(k)] * 3
        elif len(k) == 3 and all(c in "0123456789xX" for c in k):
            cands += [int("".join(rng.choice("0123456789") if c in "xX" else c for c in k)) for _ in range(3)]
    cands += [rng.choice(STATUSES)]
    status = rng.choice(cands)
    # the definition our own lookup would choose (explicit > range > default), to aim headers and body at it
    d = None
    for k in keys:
        if k == str(status):
            d = op["responses"][k]
            break
    if d is None:
        for k in keys:
            if len(k) == len(str(status)) and all(c in "xX" or c == s for c, s in zip(k, str(status))):
                d = op["responses"][k]
                break
    if d is None and "default" in op["responses"]:
        d = op["responses"]["default"]
    if d is None and rng.random() < 0.5 and keys:
        d = op["responses"][rng.choice(keys)]
    d = resolve_local(raw, d)[0] if d is not None else {}
    documented = list((d.get("content") or {}).keys()) if not v2 else list(op.get("produces") or raw.get("produces", []))
    headers: dict = {}
    r = rng.random()
    if r < 0.1:
        pass
    elif r < 0.6 and documented:
        mt = rng.choice(documented)
        if "*" in mt:
            mt = mt.replace("*", rng.choice(["json", "application", "x"]))
        if rng.random() < 0.25 and ";" not in mt:
            mt += rng.choice(["; charset=utf-8", ";q=0.5", " ; a=\"b;c\""])
        headers[vary_case(rng, "Content-Type")] = vary_case(rng, mt) if rng.random() < 0.3 else mt
    elif r < 0.8:
        headers["Content-Type"] = rng.choice(["application/json", "application/json", "application/json; charset=utf-8"] + CT_OTHER)
    elif r < 0.93:
        headers["Content-Type"] = rng.choice(CT_OTHER)
    else:
        headers["Content-Type"] = rng.choice(CT_BAD)
    for name, hd in (d.get("headers") or {}).items():
        r = rng.random()
        if r < 0.3:
            continue
        hd = resolve_local(raw, hd)[0]
        schema = hd if v2 else hd.get("schema", {})
        t = schema.get("type")
        if r < 0.7:
            if "enum" in schema:
                value = str(rng.choice(schema["enum"]))
            elif t in ("integer", "number"):
                value = str(rng.choice([schema.get("minimum", 0), schema.get("maximum", 1), 1, 0]))
                if t == "number" and rng.random() < 0.3:
                    value += rng.choice([".5", ".0", ".50"])
            elif t == "boolean":
                value = rng.choice(["true", "false", "1", "0", "Yes", "off"])
            elif t == "null":
                value = rng.choice(["null", "Null"])
            else:
                value = rng.choice(["a", "ab", "abc", "abcd", ""])
        else:
            value = rng.choice(HEADER_VALUES)
        headers[vary_case(rng, name)] = value
    if rng.random() < 0.15:
        headers["X-Other"] = "1"
    # body
    schemas = []
    if v2:
        if "schema" in d:
            schemas.append(d["schema"])
    else:
        for option in (d.get("content") or {}).values():
            if option and "schema" in option:
                schemas.append(option["schema"])
    r = rng.random()
    if r < 0.08:
        content = rng.choice([b"", b"{", b"[1,", b"<a/>", b"plain text", b"nul", b"{'a': 1}"])
    elif schemas and r < 0.9:
        s = rng.choice(schemas)
        s = deref_schema(raw, s)
        content = json.dumps(instance_for(rng, s)).encode()
    else:
        content = json.dumps(gen_instance(rng, 2)).encode()
    return {"status": status, "headers": headers, "content": content}


def deref_schema(raw, s, depth=3):
    """Inline local references (for aiming instances only)."""
    if depth <= 0:
        return s
    if isinstance(s, dict):
        if "$ref" in s and isinstance(s["$ref"], str):
            try:
                return deref_schema(raw, resolve_local(raw, s)[0], depth - 1)
            except (KeyError, TypeError):
                return {}
        return {k: deref_schema(raw, v, depth) for k, v in s.items()}
    if isinstance(s, list):
        return [deref_schema(raw, v, depth) for v in s]
    return s


def wire_resp(resp):
    ct = None
    headers = []
    for k, v in resp["headers"].items():
        if k.lower() == "content-type":
            ct = v
        headers.append([k.lower(), v])
    try:
        body = ["json", json.loads(resp["content"].decode("utf-8"))]
    except ValueError:
        body = ["malformed"]
    return {"status": resp["status"], "ct": ct, "headers": headers, "body": body}


def header_strings(resp):
    return [v for v in resp["headers"].values()]


def clone(x):
    return copy.deepcopy(x)
