"""C06 helpers: drive the *real* generation post-maps and transports on chosen values.

`Pipeline` builds a real OpenAPI schema for a list of parameter definitions, then pushes chosen raw values through the
real `get_parameters_strategy` glue (`.map(serialize).filter(is_valid_*).map(quote_all).map(jsonify…)`) by handing it a
strategy factory that returns the chosen value instead of drawing from the schema, builds a real `Case`, serialises it
with the real transport and prepares it with `requests`.
"""
from __future__ import annotations

import copy
from urllib.parse import parse_qsl, urlsplit

import requests
import schemathesis
from hypothesis.control import BuildContext
from hypothesis.errors import StopTest, UnsatisfiedAssumption
from hypothesis.internal.conjecture.data import ConjectureData
from hypothesis.strategies import SearchStrategy
from schemathesis.generation import GenerationConfig
from schemathesis.specs.openapi._hypothesis import get_parameters_strategy
from schemathesis.transport.requests import REQUESTS_TRANSPORT
from schemathesis.transport.wsgi import WSGI_TRANSPORT

CONTAINER = {"path": "path_parameters", "query": "query", "header": "headers", "cookie": "cookies"}
_GEN_CONFIG = GenerationConfig()


class _Chosen(SearchStrategy):
    """a strategy that returns (a fresh copy of) the value currently chosen for its location"""

    def __init__(self, holder, location):
        super().__init__()
        self.holder, self.location = holder, location

    def do_draw(self, data):
        return copy.deepcopy(self.holder[self.location])


class Rejected(Exception):
    pass


class Pipeline:
    def __init__(self, defs: list[dict], template: str, base_url: str, swagger2: bool = False, body: dict | None = None,
                 method: str = "get"):
        self.defs, self.template, self.base_url, self.method = defs, template, base_url, method
        op: dict = {"parameters": copy.deepcopy(defs), "responses": {"200": {"description": "OK"}}}
        if swagger2:
            raw = {"swagger": "2.0", "info": {"title": "t", "version": "1"}, "paths": {template: {method: op}}}
            if body is not None:
                op["consumes"] = list(body)
                op["parameters"].append({"name": "body", "in": "body", "schema": next(iter(body.values()))})
        else:
            raw = {"openapi": "3.0.2", "info": {"title": "t", "version": "1"}, "paths": {template: {method: op}}}
            if body is not None:
                op["requestBody"] = {"content": {mt: {"schema": sch} for mt, sch in body.items()}}
        self.schema = schemathesis.openapi.from_dict(raw)
        self.schema.base_url = base_url
        self.operation = self.schema[template][method.upper()]
        self.holder: dict = {}

        def factory(schema, label, location, media_type, cfg):
            return _Chosen(self.holder, location)

        self.factory = factory

    def post_maps(self, location: str, raw_container: dict | None):
        """the value that `get_parameters_strategy(...)` yields when the schema strategy yields `raw_container`"""
        self.holder[location] = raw_container
        strategy = get_parameters_strategy(self.operation, self.factory, location, _GEN_CONFIG)
        data = ConjectureData.for_choices([])
        try:
            with BuildContext(data, wrapped_test=lambda: None):
                return data.draw(strategy)
        except (StopTest, UnsatisfiedAssumption):
            raise Rejected(location) from None

    def case(self, raw: dict[str, dict | None], **kwargs):
        """raw: location -> container drawn by the schema strategy"""
        final = {}
        for loc, container in raw.items():
            final[CONTAINER[loc]] = self.post_maps(loc, container)
        return self.operation.Case(**final, **kwargs)

    def prepared(self, case, **kwargs) -> requests.PreparedRequest:
        kw = REQUESTS_TRANSPORT.serialize_case(case, base_url=kwargs.pop("base_url", self.base_url), **kwargs)
        return requests.Request(**kw).prepare()

    def wsgi_environ(self, case, **kwargs) -> dict:
        from werkzeug.test import EnvironBuilder

        data = WSGI_TRANSPORT.serialize_case(case, **kwargs)
        b = EnvironBuilder(**data)
        try:
            return b.get_environ()
        finally:
            b.close()


def observed_from_prepared(prep: requests.PreparedRequest, base_url: str, template: str) -> dict:
    """raw observables of a prepared request: per path variable its raw (still percent-encoded) segment, the decoded query
    entries (urllib = the independent form-urlencoded oracle), headers, cookie pairs"""
    parts = urlsplit(prep.url)
    return {"segments": path_segments(parts.path, urlsplit(base_url).path, template),
            "raw_path": parts.path,
            "query": parse_qsl(parts.query, keep_blank_values=True, strict_parsing=False, encoding="utf-8", errors="strict")
            if parts.query else [],
            "raw_query": parts.query,
            "headers": dict(prep.headers),
            "cookies": cookie_pairs(prep.headers.get("Cookie"))}


def path_segments(raw_path: str, base_path: str, template: str) -> dict | None:
    """{variable: raw segment}; None when the wire path does not have the template's structure"""
    base = base_path.rstrip("/")
    if not raw_path.startswith(base + "/") and not (base == "" and raw_path.startswith("/")):
        return None
    rel = raw_path[len(base):]
    t_segs, w_segs = template.split("/"), rel.split("/")
    if len(t_segs) != len(w_segs):
        return None
    out = {}
    for t, w in zip(t_segs, w_segs):
        if t.startswith("{") and t.endswith("}"):
            out[t[1:-1]] = w
        elif t != w:
            return None
    return out


def cookie_pairs(header: str | None) -> list[tuple[str, str]]:
    """RFC 6265 §4.2.1 cookie-string: pairs separated by "; ", name up to the first "=" """
    if not header:
        return []
    out = []
    for part in header.split("; "):
        k, _, v = part.partition("=")
        out.append((k, v))
    return out


# ---- recording applications (the "server side" of the WSGI / ASGI / loopback transports) ------------------------------------

class WsgiRecorder:
    """records what it receives; answers the `Set-Cookie` header values scripted in `set_cookies` (out of band)"""

    def __init__(self):
        self.last = None
        self.set_cookies: list[str] = []

    def __call__(self, environ, start_response):
        n = int(environ.get("CONTENT_LENGTH") or 0)
        body = environ["wsgi.input"].read(n) if n else b""
        headers = {k[5:].replace("_", "-").lower(): v for k, v in environ.items() if k.startswith("HTTP_")}
        if environ.get("CONTENT_TYPE"):
            headers["content-type"] = environ["CONTENT_TYPE"]
        self.last = {"method": environ["REQUEST_METHOD"],
                     # PEP 3333: PATH_INFO is the percent-decoded path, bytes smuggled through latin-1
                     "path_bytes": environ.get("PATH_INFO", "").encode("latin-1"),
                     "script": environ.get("SCRIPT_NAME", ""),
                     "query": environ.get("QUERY_STRING", ""), "headers": headers, "body": body}
        start_response("200 OK", [("Content-Type", "text/plain")] + [("Set-Cookie", v) for v in self.set_cookies])
        return [b"ok"]


class AsgiRecorder:
    def __init__(self):
        self.last = None
        self.set_cookies: list[str] = []

    async def __call__(self, scope, receive, send):
        if scope["type"] == "lifespan":
            while True:
                msg = await receive()
                if msg["type"] == "lifespan.startup":
                    await send({"type": "lifespan.startup.complete"})
                elif msg["type"] == "lifespan.shutdown":
                    await send({"type": "lifespan.shutdown.complete"})
                    return
        if scope["type"] != "http":
            return
        body = b""
        while True:
            msg = await receive()
            body += msg.get("body", b"")
            if not msg.get("more_body"):
                break
        self.last = {"method": scope["method"], "path_bytes": scope["path"].encode("utf-8"),
                     "raw_path": scope.get("raw_path"), "query": scope["query_string"].decode("latin-1"),
                     "headers": {k.decode("latin-1").lower(): v.decode("latin-1") for k, v in scope["headers"]}, "body": body}
        await send({"type": "http.response.start", "status": 200, "headers": [(b"content-type", b"text/plain")] + [
            (b"set-cookie", v.encode("latin-1")) for v in self.set_cookies]})
        await send({"type": "http.response.body", "body": b"ok"})


class Loopback:
    """a real HTTP/1.1 server on 127.0.0.1 that records the request line, headers and body as received"""

    def __init__(self):
        import http.server
        import threading

        outer = self
        self.last = None
        self.set_cookies: list[str] = []

        class H(http.server.BaseHTTPRequestHandler):
            protocol_version = "HTTP/1.1"

            def _any(self):
                n = int(self.headers.get("Content-Length") or 0)
                body = self.rfile.read(n) if n else b""
                raw = self.path
                path, _, query = raw.partition("?")
                outer.last = {"method": self.command, "raw_path": path, "query": query,
                              "headers": {k.lower(): v for k, v in self.headers.items()}, "body": body}
                self.send_response(200)
                self.send_header("Content-Length", "2")
                for v in outer.set_cookies:
                    self.send_header("Set-Cookie", v)
                self.end_headers()
                self.wfile.write(b"ok")

            do_GET = do_POST = do_PUT = do_DELETE = do_PATCH = _any

            def log_message(self, *a):
                pass

        self.server = http.server.ThreadingHTTPServer(("127.0.0.1", 0), H)
        self.port = self.server.server_address[1]
        self.thread = threading.Thread(target=self.server.serve_forever, daemon=True)
        self.thread.start()

    def close(self):
        self.server.shutdown()
        self.server.server_close()
        self.thread.join(timeout=5)
