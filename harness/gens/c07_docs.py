"""C07 generators and the harness' own reading of an API description.

Nothing here imports schemathesis' selection logic: `World` reads the raw document with its own `$ref` resolver and
JSON-pointer walker; `oracle_selected` is the selection rule written from the property statement.  Only the predicate
callables handed to the real code come from schemathesis (`expression_to_filter_function`).
"""
from __future__ import annotations

import copy
import re

HTTP = ("get", "put", "post", "delete", "options", "head", "patch", "trace")  # Open API's operation field names
ATTRS = ("name", "method", "path", "tag", "operation_id")

_MISSING = object()


# ---- own reference resolution / pointer walking ---------------------------------------------------------------------

def pointer_get(doc, pointer: str):
    node = doc
    for tok in pointer.split("/")[1:]:
        tok = tok.replace("~1", "/").replace("~0", "~")
        if isinstance(node, dict):
            if tok not in node:
                return _MISSING
            node = node[tok]
        elif isinstance(node, list):
            if not tok.isdigit() or int(tok) >= len(node):
                return _MISSING
            node = node[int(tok)]
        else:
            return _MISSING
    return node


def deref(doc, node, depth=0):
    while isinstance(node, dict) and isinstance(node.get("$ref"), str) and depth < 20:
        ref = node["$ref"]
        if not ref.startswith("#/"):
            return node
        got = pointer_get(doc, ref[1:])
        if got is _MISSING:
            return node
        node, depth = got, depth + 1
    return node


def resolve_all(doc, node, depth=0):
    if depth > 12:
        return node
    node = deref(doc, node)
    if isinstance(node, dict):
        return {k: resolve_all(doc, v, depth + 1) for k, v in node.items()}
    if isinstance(node, list):
        return [resolve_all(doc, v, depth + 1) for v in node]
    return node


# ---- opaque predicates (user functions and --include-by expressions) -------------------------------------------------

class Pred:
    """fn: what the real code calls (one object per predicate: identity matters for duplicate detection);
    oracle(method, path, definition): the same predicate on one *view* of the definition, written independently."""

    def __init__(self, name, fn, oracle):
        self.name, self.fn, self.oracle = name, fn, oracle


def _expr_oracle(pointer, op, value):
    def oracle(method, path, definition):
        got = pointer_get(definition, pointer) if isinstance(definition, (dict, list)) else _MISSING
        if op == "==":
            return got is not _MISSING and got == value
        return got is _MISSING or got != value
    return oracle


def make_preds():
    from schemathesis.filters import expression_to_filter_function

    def is_internal(ctx):
        return ctx.operation.definition.resolved.get("x-internal") is True

    def path_ends_b(ctx):
        return ctx.operation.path.endswith("b")

    return [
        Pred("fn:x-internal", is_internal, lambda m, p, d: isinstance(d, dict) and d.get("x-internal") is True),
        Pred("expr:/x-internal == true", expression_to_filter_function("/x-internal == true"),
             _expr_oracle("/x-internal", "==", True)),
        Pred('expr:/parameters/0/name == "id"', expression_to_filter_function('/parameters/0/name == "id"'),
             _expr_oracle("/parameters/0/name", "==", "id")),
        Pred("expr:/deprecated != true", expression_to_filter_function("/deprecated != true"),
             _expr_oracle("/deprecated", "!=", True)),
        Pred("fn:path.endswith(b)", path_ends_b, lambda m, p, d: p.endswith("b")),
    ]


# ---- atomic filters --------------------------------------------------------------------------------------------------

ATOMS = [
    ("path", "/a"), ("path", ["/a", "/c"]), ("path_regex", "^/a"), ("path_regex", "b$"),
    ("method", "GET"), ("method", "get"), ("method", ["post", "DELETE"]), ("method_regex", "^(get|post)$"),
    ("method_regex", "DEL"),
    ("name", "GET /a"), ("name", ["DELETE /a", "POST /b"]), ("name_regex", "^POST "),
    ("tag", "x"), ("tag", ["x", "y"]), ("tag_regex", "^y"),
    ("operation_id", "getA"), ("operation_id", ["delA", "postB"]), ("operation_id_regex", "^get"),
    ("func", 0), ("func", 1), ("func", 2), ("func", 3), ("func", 4), ("func", "dep"),
]


class RegexRegistry:
    def __init__(self):
        self.ids: dict[tuple[str, str], int] = {}

    def id(self, attr: str, pattern: str) -> int:
        return self.ids.setdefault((attr, pattern), len(self.ids))

    def tables(self, strings_by_attr: dict[str, set[str]]):
        """[[id, [[string, found?], …]], …] — computed with `re` directly; HTTP methods match case-insensitively."""
        out = []
        for (attr, pattern), i in self.ids.items():
            rx = re.compile(pattern, re.IGNORECASE if attr == "method" else 0)
            out.append([i, [[s, bool(rx.search(s))] for s in sorted(strings_by_attr.get(attr, ()))]])
        return out


def call(inc: bool, dep: bool = False, **kw):
    return {"inc": inc, "dep": dep, "kw": kw}


def wire_call(c, reg: RegexRegistry):
    kw = c["kw"]
    out = {"inc": c["inc"], "dep": c["dep"], "f": kw.get("func")}
    for attr in ATTRS:
        e, r = kw.get(attr), kw.get(attr + "_regex")
        if e is not None or r is not None:
            out[attr] = [e, None if r is None else reg.id(attr, r)]
    return out


def real_kwargs(c, preds):
    from schemathesis.filters import is_deprecated

    kw = dict(c["kw"])
    f = kw.pop("func", None)
    if f is not None:
        kw["func"] = is_deprecated if f == "dep" else preds[f].fn
    if not c["inc"] and c["dep"]:
        kw["deprecated"] = True
    return kw


# ---- the specification oracle (Python) -------------------------------------------------------------------------------

def call_conjs(c):
    """The conjunction(s) of criteria one include/exclude call states.
    All keyword criteria of a call are ANDed (docs/python.rst).  `deprecated=True` is one more conjunct, except next to
    a custom function, where schemathesis documents/tests it as a separate exclusion (test_exclude_custom)."""
    kw = c["kw"]
    conj = []
    f = kw.get("func")
    if f is not None:
        conj.append(("deprecated",) if f == "dep" else ("pred", f))
    for attr in ATTRS:
        if kw.get(attr) is not None:
            v = kw[attr]
            conj.append(("oneOf", attr, list(v)) if isinstance(v, list) else ("is", attr, v))
        if kw.get(attr + "_regex") is not None:
            conj.append(("matches", attr, kw[attr + "_regex"]))
    if not c["inc"] and c["dep"]:
        if f is None:
            return [[("deprecated",)] + conj]
        return [[("deprecated",)], conj]
    return [conj]


def _values(facts, attr):
    if attr == "name":
        return [facts["name"]]
    if attr == "method":
        return [facts["method"].upper()]
    if attr == "path":
        return [facts["path"]]
    if attr == "tag":
        return list(facts["tags"] or [])
    return [] if facts["operation_id"] is None else [facts["operation_id"]]


def _norm(attr, s):
    return s.upper() if attr == "method" else s


def crit_holds(crit, facts):
    kind = crit[0]
    if kind == "deprecated":
        return facts["deprecated"]
    if kind == "pred":
        return facts["preds"][crit[1]]
    _, attr, arg = crit
    vals = _values(facts, attr)
    if kind == "is":
        return any(v == _norm(attr, arg) for v in vals)
    if kind == "oneOf":
        return any(v == _norm(attr, x) for v in vals for x in arg)
    rx = re.compile(arg, re.IGNORECASE if attr == "method" else 0)
    return any(rx.search(v) is not None for v in vals)


def oracle_selected(includes, excludes, facts):
    inc = not includes or any(all(crit_holds(c, facts) for c in conj) for conj in includes)
    exc = any(all(crit_holds(c, facts) for c in conj) for conj in excludes)
    return inc and not exc


def program_conjs(calls):
    includes, excludes = [], []
    for c in calls:
        (includes if c["inc"] else excludes).extend(call_conjs(c))
    return includes, excludes


# ---- documents -------------------------------------------------------------------------------------------------------

def op(method, *, tags=None, opid=None, dep=None, internal=None, param=None, body=False, links=(), resp_ref=None,
       extra=None):
    return {"method": method, "tags": tags, "opid": opid, "dep": dep, "internal": internal, "param": param,
            "body": body, "links": list(links), "resp_ref": resp_ref, "extra": extra or {}}


def build_doc(paths, *, swagger2=False, shared_items=None):
    """paths: [(path, [op specs], {options})]; options: ref=True (path item behind $ref), extra={key: value},
    path_params=[names].  Links: (status, name, ("id", x) | ("ref", method, path) | ("rawref", text))."""
    links_field = "x-links" if swagger2 else "links"
    doc: dict = ({"swagger": "2.0", "info": {"title": "t", "version": "1"}, "paths": {}} if swagger2 else
                 {"openapi": "3.0.2", "info": {"title": "t", "version": "1"}, "paths": {}})
    pdef = {"name": "id", "in": "query", "type": "string", "x-example": "e1"} if swagger2 else \
        {"name": "id", "in": "query", "schema": {"type": "string"}, "example": "e1"}
    if swagger2:
        doc["parameters"] = {"P": copy.deepcopy(pdef)}
        doc["responses"] = {}
        pref, rref = "#/parameters/P", "#/responses/"
    else:
        doc["components"] = {"parameters": {"P": copy.deepcopy(pdef)}, "responses": {}}
        pref, rref = "#/components/parameters/P", "#/components/responses/"
    for path, ops, opts in paths:
        item: dict = {}
        pp = opts.get("path_params") or re.findall(r"\{(\w+)\}", path)
        if pp:
            item["parameters"] = [({"name": n, "in": "path", "required": True, "type": "string"} if swagger2 else
                                   {"name": n, "in": "path", "required": True, "schema": {"type": "string"}}) for n in pp]
        for o in ops:
            d: dict = {}
            if o["tags"] is not None:
                d["tags"] = list(o["tags"])
            if o["opid"] is not None:
                d["operationId"] = o["opid"]
            if o["dep"] is not None:
                d["deprecated"] = o["dep"]
            if o["internal"] is not None:
                d["x-internal"] = o["internal"]
            if o["param"] == "ref":
                d["parameters"] = [{"$ref": pref}]
            elif o["param"] == "inline":
                d["parameters"] = [copy.deepcopy(pdef)]
            if o["body"]:
                if swagger2:
                    d.setdefault("parameters", []).append({"name": "b", "in": "body", "schema": {"type": "object"}})
                else:
                    d["requestBody"] = {"content": {"application/json": {"schema": {"type": "object"}}}}
            responses: dict = {}
            for status, name, target in o["links"]:
                r = responses.setdefault(status, {"description": "ok"})
                if target[0] == "id":
                    link = {"operationId": target[1]}
                elif target[0] == "ref":
                    link = {"operationRef": "#/paths/" + target[2].replace("~", "~0").replace("/", "~1") + "/" + target[1]}
                else:
                    link = {"operationRef": target[1]}
                r.setdefault(links_field, {})[name] = link
            if not responses:
                responses["200"] = {"description": "ok"}
            if o["resp_ref"]:
                # move the first response behind a reference
                status = next(iter(responses))
                (doc["responses"] if swagger2 else doc["components"]["responses"])[o["resp_ref"]] = responses[status]
                responses[status] = {"$ref": rref + o["resp_ref"]}
            d["responses"] = responses
            d.update(copy.deepcopy(o["extra"]))
            item[o["method"]] = d
        for k, v in (opts.get("extra") or {}).items():
            if k == "parameters":  # shared parameters: a reference to the document's parameter component
                item.setdefault("parameters", []).append({"$ref": pref})
            else:
                item[k] = copy.deepcopy(v)
        if opts.get("ref"):
            key = "I" + str(len(doc.setdefault("x-items", {})))
            doc["x-items"][key] = item
            doc["paths"][path] = {"$ref": "#/x-items/" + key}
        else:
            doc["paths"][path] = item
    return doc


class World:
    """One document + the harness' own reading of it (wire ops for the Lean side, facts for the Python oracle)."""

    def __init__(self, raw: dict, preds):
        self.raw = raw
        self.preds = preds
        self.links_field = "x-links" if "swagger" in raw else "links"
        self.entries = []  # (path, key, raw entry, resolved entry)
        for path, item in raw.get("paths", {}).items():
            item = deref(raw, item)
            for key, entry in item.items():
                self.entries.append((path, key, entry, resolve_all(raw, entry)))

    def _view(self, method, path, d):
        if not isinstance(d, dict):
            return {"tags": None, "opid": None, "dep": False, "fns": [False] * len(self.preds)}
        tags, opid = d.get("tags"), d.get("operationId")
        return {"tags": tags if isinstance(tags, list) else None, "opid": opid if isinstance(opid, str) else None,
                "dep": d.get("deprecated") is True, "fns": [bool(p.oracle(method, path, d)) for p in self.preds]}

    def _links(self, entry):
        out = []
        if not isinstance(entry, dict):
            return out
        for status, resp in (entry.get("responses") or {}).items():
            resp = deref(self.raw, resp)
            for name, link in (resp.get(self.links_field) or {}).items():
                link = deref(self.raw, link)
                if "operationId" in link:
                    t = {"id": link["operationId"]}
                else:
                    t = None
                    m = re.fullmatch(r"#/paths/([^/]+)/([^/]+)", link.get("operationRef", ""))
                    if m:
                        p = m.group(1).replace("~1", "/").replace("~0", "~")
                        item = self.raw["paths"].get(p)
                        if isinstance(item, dict) and m.group(2) in item and m.group(2) in HTTP:
                            t = {"ref": [m.group(2), p]}
                out.append({"s": str(status), "n": name, "t": t})
        return out

    def wire_ops(self, body_pp: dict):
        ops = []
        for path, key, entry, resolved in self.entries:
            b, pp = body_pp.get((key, path), (False, False))
            ops.append({"m": key, "p": path, "label": "", "raw": self._view(key, path, entry),
                        "res": self._view(key, path, resolved), "links": self._links(entry), "body": b, "pp": pp})
        return ops

    def facts(self):
        """facts of every operation (entries whose key is an Open API operation field), from the resolved definition"""
        out = []
        for path, key, entry, resolved in self.entries:
            if key not in HTTP or not isinstance(resolved, dict):
                continue
            v = self._view(key, path, resolved)
            out.append({"name": f"{key.upper()} {path}", "method": key, "path": path, "tags": v["tags"],
                        "operation_id": v["opid"], "deprecated": v["dep"], "preds": v["fns"],
                        "links": self._links(entry)})
        return out

    def strings(self):
        s: dict[str, set[str]] = {a: set() for a in ATTRS}
        for path, key, entry, resolved in self.entries:
            s["name"].add(f"{key.upper()} {path}")
            s["method"].add(key.upper())
            s["path"].add(path)
            for d in (entry, resolved):
                if isinstance(d, dict):
                    if isinstance(d.get("tags"), list):
                        s["tag"].update(t for t in d["tags"] if isinstance(t, str))
                    if isinstance(d.get("operationId"), str):
                        s["operation_id"].add(d["operationId"])
        return s


# ---- designed documents ----------------------------------------------------------------------------------------------

def designed_docs():
    A = build_doc([
        ("/a", [op("get", tags=["x"], opid="getA", param="ref",
                    links=[("200", "L", ("id", "delA")), ("200", "M", ("ref", "post", "/b"))]),
                op("delete", tags=["x", "y"], opid="delA", dep=True),
                op("post", body=True, internal=True, links=[("201", "N", ("id", "getA"))])], {}),
        ("/b", [op("post", tags=["y"], opid="postB", param="inline", body=True,
                    links=[("201", "Q", ("ref", "delete", "/a"))]),
                op("get", opid="getB", dep=False)], {}),
    ])
    B = build_doc([
        ("/a", [op("get", tags=["y"], opid="getA", internal=True, links=[("200", "L", ("id", "patchC"))]),
                op("delete", opid="delA", dep=True, param="ref")],
         {"ref": True, "extra": {"parameters": True}}),
        ("/c", [op("put", tags=[], links=[("200", "R", ("id", "getA"))], resp_ref="Rput"),
                op("patch", opid="patchC", tags=["x"], links=[("200", "S", ("id", "getA")), ("default", "T", ("id", "delA"))])],
         {"extra": {"GET": {"responses": {"200": {"description": "ok"}}, "tags": ["x"]}, "x-ext": {"a": 1},
                    "summary": "text"}}),
    ])
    C = build_doc([
        ("/a", [op("get", tags=["x"], opid="getA", param="ref", links=[("200", "L", ("id", "postB"))]),
                op("post", body=True, tags=["x", "y"], dep=True, links=[("201", "M", ("ref", "get", "/a"))])], {}),
        ("/b", [op("post", opid="postB", body=True, param="inline", internal=False),
                op("delete", opid="delA", dep=True)], {"ref": True}),
    ], swagger2=True)
    D = build_doc([
        ("/a/{id}", [op("get", opid="getA", tags=["y"], links=[("200", "L", ("id", "delA"))], resp_ref="Rget"),
                     op("delete", opid="delA", tags=["x"], dep=True)], {}),
        ("/b", [op("post", opid="postB", body=True, links=[("201", "M", ("id", "getA")), ("201", "N", ("id", "delA"))]),
                op("get", tags=["x", "y"], param="ref", internal=True, links=[("200", "O", ("ref", "get", "/a/{id}"))])], {}),
    ])
    # a link target whose path needs both JSON-pointer escapes in `operationRef` (`#/paths/~0c~1{id}/get`)
    E = build_doc([
        ("/~c/{id}", [op("get", opid="getC", tags=["x"]), op("delete", tags=["y"])], {}),
        ("/b", [op("post", opid="postB", body=True, links=[("201", "M", ("ref", "get", "/~c/{id}")), ("201", "N", ("ref", "delete", "/~c/{id}"))]),
                op("get", tags=["x"], links=[("200", "O", ("id", "getC"))])], {}),
    ])
    return {"A": A, "B": B, "C": C, "D": D, "E": E}


def random_doc(rng, preds):
    # a path whose JSON-pointer spelling needs both escapes (`~` -> `~0`, `/` -> `~1`): links by operationRef name it so
    paths = ["/a", "/b", "/c" if rng.random() < 0.6 else "/~c", "/a/{id}"]
    rng.shuffle(paths)
    chosen_paths = paths[: rng.choice([1, 2, 2, 3])]
    opids = ["getA", "delA", "postB", "getB", "patchC", "putC"]
    rng.shuffle(opids)
    specs = []
    all_ops = []
    for p in chosen_paths:
        methods = rng.sample(["get", "post", "delete", "put", "patch"], rng.choice([1, 2, 3]))
        ops = []
        for m in methods:
            oid = opids.pop() if opids and rng.random() < 0.7 else None
            ops.append(op(m, tags=rng.choice([None, [], ["x"], ["y"], ["x", "y"]]), opid=oid,
                          dep=rng.choice([None, None, True, False]), internal=rng.choice([None, None, True, False]),
                          param=rng.choice([None, "ref", "inline"]), body=(m in ("post", "put") and rng.random() < 0.7),
                          resp_ref=None))
            all_ops.append((p, m, oid))
        opts = {}
        if rng.random() < 0.3:
            opts["ref"] = True
        if rng.random() < 0.3:
            opts["extra"] = rng.choice([{"GET": {"responses": {"200": {"description": "ok"}}}}, {"x-ext": {"k": 1}},
                                        {"summary": "s"}, {"parameters": True}])
        specs.append((p, ops, opts))
    # links between existing operations
    n = 0
    for p, ops, opts in specs:
        for o in ops:
            for _ in range(rng.choice([0, 0, 1, 2])):
                tp, tm, toid = rng.choice(all_ops)
                n += 1
                inline_target = not next(opt for pp, _, opt in specs if pp == tp).get("ref")
                if toid is not None and (rng.random() < 0.6 or not inline_target):
                    tgt = ("id", toid)
                elif inline_target:
                    tgt = ("ref", tm, tp)
                else:
                    continue
                o["links"].append((rng.choice(["200", "201", "default"]), f"K{n}", tgt))
            if o["links"] and rng.random() < 0.2:
                o["resp_ref"] = f"R{n}"
    doc = build_doc(specs, swagger2=False)
    if rng.random() < 0.2:
        # Swagger 2.0 flavour of the same shape
        for _, ops, _ in specs:
            for o in ops:
                o["resp_ref"] = None
        doc = build_doc(specs, swagger2=True)
    return doc
