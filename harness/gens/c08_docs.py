"""C08 — abstract Open API 3 documents: seeded generation, wire form for the Lean model, realisation (one dict or
several JSON/YAML files in a temporary directory) and an independent reference resolver working on the realised files.

An abstract document mirrors lean/SV/Model/C08.lean:
  doc = {paths: [[path, {item}|{ref:[file, ptr]}]], files: [{params: [[ptr, entry]], items: [[ptr, item]]}],
         links: [[from, filestr, to]], schemes: [...], security: [...], layout: {...}}          (layout: Python only)
  entry = {p: {name, in, required, tag}} | {ref: [filestr, ptr]} | "junk"
  item  = {shared: [entry], entries: [[key, opdef]]}
  opdef = {id, params: [entry], body: null | {content: [[media, tag]] | null, required}, security: null | [names]}
"""
from __future__ import annotations

import copy
import json
import os
from urllib.parse import urldefrag, urljoin

HTTP = ["get", "put", "post", "delete", "options", "head", "patch", "trace"]
LOCS = ["query", "header", "path", "cookie"]
NAMES = ["q", "id", "X-Tok", "sid", "key", "Authorization"]
BAD_NAMES = ["", "bad:name", " lead", "naïve", "tab\tin", "x\ny", "\x1fz"]
MEDIA = ["application/json", "application/xml", "multipart/form-data", "text/plain"]
RESPONSES = {"200": {"description": "OK"}}

# file universe of the multi-file layout: id -> path relative to the fixture directory (extension added per document)
MULTI = ["schema", "sub/items", "sub/common", "common"]
REL_STRINGS = ["", "{2b}", "sub/{2b}", "../{3b}", "sub/{1b}", "{1b}", "nope.json", "../sub/{2b}"]


def root_ptr(kind, n):
    return f"/components/parameters/{n}" if kind == "params" else f"/x-items/{n}"


def other_ptr(kind, n):
    return f"/{kind}/{n}"


def ptr_for(fid, kind, n):
    return root_ptr(kind, n) if fid == 0 else other_ptr(kind, n)


# ---------------------------------------------------------------------------------------------------------------------
# generation
# ---------------------------------------------------------------------------------------------------------------------

class Gen:
    def __init__(self, rng, *, multi: bool, malformed: float = 0.0, yaml: bool = False):
        self.rng, self.multi, self.mal = rng, multi, malformed
        self.tag = 0
        self.opn = 0
        nfiles = len(MULTI) if multi else 1
        exts = [(".yaml" if (yaml and rng.random() < 0.5) else ".json") for _ in range(nfiles)]
        self.names = [MULTI[i] + exts[i] for i in range(nfiles)]
        self.relstrings = [""]
        if multi:
            b = [os.path.basename(n) for n in self.names]
            self.relstrings = [s.format(**{"1b": b[1], "2b": b[2], "3b": b[3]}) for s in REL_STRINGS]
        self.nparams = [rng.randrange(0, 5) for _ in range(nfiles)]
        if multi:  # the decoy pair sub/common <-> common shares pointer names
            self.nparams[2] = self.nparams[3] = max(2, self.nparams[2])
        self.nitems = [rng.randrange(0, 3) if i < 2 else 0 for i in range(nfiles)]
        self.chains = {fid: rng.choice([2, 3, 4, 7, 8, 9, 10, 11]) for fid in range(nfiles) if rng.random() < 0.12}
        if multi:
            self.nitems[1] = max(1, self.nitems[1])

    def bad(self, p=1.0):
        return self.mal > 0 and self.rng.random() < self.mal * p

    def next_tag(self):
        self.tag += 1
        return self.tag

    def param(self, name=None, loc=None):
        rng = self.rng
        if name is None:
            name = rng.choice(BAD_NAMES) if self.bad(0.5) else rng.choice(NAMES[:5])
        if loc is None:
            loc = rng.choice(LOCS) if not self.bad(0.3) else rng.choice(["qeury", None])
        if self.bad(0.2):
            name = None
        return {"name": name, "in": loc, "required": rng.random() < 0.4, "tag": self.next_tag()}

    def ref_entry(self, fid, kind="params"):
        """a reference written in file `fid`; in the well-formed profile it resolves from that file"""
        rng = self.rng
        counts = self.nparams if kind == "params" else self.nitems
        cands = [s for s in self.relstrings
                 if self.resolve_file(fid, s) is not None and counts[self.resolve_file(fid, s)] > 0]
        if self.bad():
            s = rng.choice(self.relstrings)
        elif not cands:
            return None
        else:
            cross = [s for s in cands if s != ""]
            s = rng.choice(cross) if cross and rng.random() < 0.6 else rng.choice(cands)
        target = self.resolve_file(fid, s)
        tf = target if target is not None else 0
        if kind == "params" and tf in self.chains and rng.random() < 0.5:
            return {"ref": [s, ptr_for(tf, kind, f"C{rng.randrange(0, 3)}")]}
        n = rng.randrange(1, counts[tf] + 1) if counts[tf] and not self.bad() else 9
        return {"ref": [s, ptr_for(tf, kind, f"P{n}" if kind == "params" else f"I{n}")]}

    def resolve_file(self, fid, s):
        if s == "":
            return fid
        url = urljoin("file:///d/" + self.names[fid], s)
        for i, n in enumerate(self.names):
            if url == "file:///d/" + n:
                return i
        return None

    def entry(self, fid, like=None):
        rng = self.rng
        if self.bad(0.3):
            return "junk"
        r = rng.random()
        if r < (0.35 if self.multi else 0.25):
            e = self.ref_entry(fid)
            if e is not None:
                return e
        if like is not None:
            return {"p": self.param(name=like[0], loc=like[1])}
        return {"p": self.param()}

    def entries(self, fid, n, dup_of=()):
        out = []
        keys = [(e["p"]["name"], e["p"]["in"]) for e in dup_of if isinstance(e, dict) and "p" in e]
        for _ in range(n):
            if keys and self.rng.random() < 0.5:
                out.append(self.entry(fid, like=self.rng.choice(keys)))
            else:
                out.append(self.entry(fid))
        return out

    def body(self):
        rng = self.rng
        r = rng.random()
        if r < 0.6:
            return None
        if self.bad(0.5):
            return {"content": None, "required": rng.random() < 0.5}
        k = rng.randrange(1, 4)
        return {"content": [[m, self.next_tag()] for m in rng.sample(MEDIA, k)], "required": rng.random() < 0.5}

    def opdef(self, fid, shared, schemes, ids):
        rng = self.rng
        self.opn += 1
        oid = None
        if rng.random() < 0.75:
            oid = f"op{self.opn}"
            if ids and self.bad(0.5):
                oid = rng.choice(ids)
            ids.append(oid)
        r = rng.random()
        sec = None
        if schemes and r < 0.3:
            sec = rng.sample(schemes, rng.randrange(0, len(schemes) + 1))
        return {"id": oid, "params": self.entries(fid, rng.choice([0, 1, 1, 2, 3]), dup_of=shared), "body": self.body(),
                "security": sec}

    def item(self, fid, schemes, ids):
        rng = self.rng
        shared = self.entries(fid, rng.choice([0, 1, 1, 2, 3]))
        methods = rng.sample(HTTP, rng.choice([1, 1, 2, 3]))
        entries = [[m, self.opdef(fid, shared, schemes, ids)] for m in methods]
        if rng.random() < 0.2:
            entries.insert(rng.randrange(len(entries) + 1), ["summary", {"id": None, "params": [], "body": None, "security": None}])
        if rng.random() < 0.1:
            entries.insert(rng.randrange(len(entries) + 1), ["x-ext", self.opdef(fid, shared, schemes, [])])
        return {"shared": shared, "entries": entries}

    def doc(self, npaths=None):
        rng = self.rng
        nfiles = len(self.names)
        schemes = []
        for k in range(rng.choice([0, 0, 1, 2, 3])):
            t = rng.choice(["apiKey", "apiKey", "http", "oauth2"]) if not self.bad(0.5) else None
            name = rng.choice(NAMES) if t == "apiKey" or rng.random() < 0.1 else None
            loc = rng.choice(["query", "header", "cookie"]) if t == "apiKey" or rng.random() < 0.1 else None
            if t == "apiKey" and self.bad(0.5):
                name = None
            schemes.append({"key": f"k{k + 1}", "type": t, "name": name, "in": loc})
        keys = [s["key"] for s in schemes]
        ids: list = []
        files = []
        for fid in range(nfiles):
            params = []
            for n in range(1, self.nparams[fid] + 1):
                ptr = ptr_for(fid, "params", f"P{n}")
                e = self.ref_entry(fid) if rng.random() < 0.25 else None
                if e is not None:
                    pass
                elif self.bad(0.3):
                    e = "junk"
                else:
                    e = {"p": self.param()}
                params.append([ptr, e])
            if fid in self.chains:  # a chain C0 -> C1 -> … -> Cn (n up to just beyond the depth limit)
                n = self.chains[fid]
                for i in range(n):
                    params.append([ptr_for(fid, "params", f"C{i}"), {"ref": ["", ptr_for(fid, "params", f"C{i + 1}")]}])
                params.append([ptr_for(fid, "params", f"C{n}"), {"p": self.param()}])
            files.append({"params": params, "items": []})
        for fid in range(nfiles):
            for n in range(1, self.nitems[fid] + 1):
                files[fid]["items"].append([ptr_for(fid, "items", f"I{n}"), self.item(fid, keys, ids)])
        paths = []
        pool = ["/a", "/b/{id}", "/c", "/d~x/{id}", "/e", "/f~1g/{id}", "/h~01", "/i~0~1j"]
        k = npaths or rng.choice([1, 2, 2, 3, 4])
        # the first paths always (witness documents rely on them), the last slot from the rest of the pool: paths whose
        # JSON-pointer spelling needs ~0 / ~1 and contains text that looks like an escape
        chosen = pool[:k] if k < 2 or rng.random() < 0.4 else pool[:k - 1] + [rng.choice(pool[k - 1:])]
        for p in chosen:
            e = self.ref_entry(0, "items") if rng.random() < (0.45 if self.multi else 0.25) else None
            if e is not None:
                paths.append([p, e])
            else:
                paths.append([p, {"item": self.item(0, keys, ids)}])
        links = []
        for fid in range(nfiles):
            for s in self.relstrings:
                if s == "":
                    continue
                t = self.resolve_file(fid, s)
                if t is not None:
                    links.append([fid, s, t])
        return {"paths": paths, "files": files, "links": links, "schemes": schemes,
                "security": rng.sample(keys, rng.randrange(0, len(keys) + 1)) if keys else [],
                "layout": {"multi": self.multi, "names": self.names}}


def wire(doc):
    """what the Lean driver receives (layout stripped)"""
    return {k: v for k, v in doc.items() if k != "layout"}


# ---------------------------------------------------------------------------------------------------------------------
# realisation
# ---------------------------------------------------------------------------------------------------------------------

JUNK_VALUES = ["junk", None, 42, ["x"]]


def real_param(p):
    d: dict = {}
    if p["name"] is not None:
        d["name"] = p["name"]
    if p["in"] is not None:
        d["in"] = p["in"]
    if p["required"] or p["tag"] % 2 == 0:
        d["required"] = p["required"]
    d["schema"] = {"$ref": "#/components/schemas/S1"} if p["tag"] % 5 == 0 else {"type": "string", "maxLength": p["tag"]}
    d["x-tag"] = p["tag"]
    return d


def real_entry(e, salt=0):
    if e == "junk":
        return JUNK_VALUES[salt % len(JUNK_VALUES)]
    if "p" in e:
        return real_param(e["p"])
    f, ptr = e["ref"]
    return {"$ref": f"{f}#{ptr}"}


TOP_LEVEL_JUNK = [None, "zzz", {"a": 1}, None]   # None: keep the list form


def real_entries(es, salt=0):
    if es == ["junk"] and TOP_LEVEL_JUNK[salt % 4] is not None:
        return TOP_LEVEL_JUNK[salt % 4]      # `parameters` itself is not an array: its first element is not an object
    return [real_entry(e, salt + i) for i, e in enumerate(es)]


def real_opdef(od):
    d: dict = {}
    if od["id"] is not None:
        d["operationId"] = od["id"]
    if od["params"] or (od["id"] or "x").endswith(("1", "3", "5")):
        d["parameters"] = real_entries(od["params"], len(od["id"] or "") + len(od["params"]))
    if od["body"] is not None:
        b: dict = {}
        if od["body"]["content"] is not None:
            b["content"] = {m: {"schema": {"type": "object"}, "x-tag": t} for m, t in od["body"]["content"]}
        if od["body"]["required"] or not b:
            b["required"] = od["body"]["required"]
        d["requestBody"] = b
    if od["security"] is not None:
        d["security"] = [{k: []} for k in od["security"]]
    d["responses"] = copy.deepcopy(RESPONSES)
    return d


def real_item(it):
    d: dict = {}
    placed = False
    pos = len(it["shared"]) % (len(it["entries"]) + 1)
    for i, (k, od) in enumerate(it["entries"]):
        if i == pos and it["shared"]:
            d["parameters"] = real_entries(it["shared"], 1)
            placed = True
        d[k] = "text" if k == "summary" else real_opdef(od)
    if it["shared"] and not placed:
        d["parameters"] = real_entries(it["shared"], 1)
    return d


def real_path_entry(pe):
    if "item" in pe:
        return real_item(pe["item"])
    f, ptr = pe["ref"]
    return {"$ref": f"{f}#{ptr}"}


def _put(container: dict, ptr: str, value):
    parts = ptr.lstrip("/").split("/")
    for k in parts[:-1]:
        container = container.setdefault(k, {})
    container[parts[-1]] = value


def realise(doc):
    """-> list of raw dicts, one per file (index = file id); file 0 is the Open API document"""
    raws = []
    for fid, f in enumerate(doc["files"]):
        raw: dict = {}
        if fid == 0:
            raw = {"openapi": "3.0.2", "info": {"title": "t", "version": "1"},
                   "paths": {p: real_path_entry(pe) for p, pe in doc["paths"]}}
            if doc["security"] or len(doc["schemes"]) % 2:
                raw["security"] = [{k: []} for k in doc["security"]]
            if doc["schemes"]:
                ss = {}
                for s in doc["schemes"]:
                    x = {}
                    if s["type"] is not None:
                        x["type"] = s["type"]
                    if s["name"] is not None:
                        x["name"] = s["name"]
                    if s["in"] is not None:
                        x["in"] = s["in"]
                    if s["type"] == "http":
                        x["scheme"] = "basic"
                    ss[s["key"]] = x
                raw.setdefault("components", {})["securitySchemes"] = ss
        raw.setdefault("components", {}).setdefault("schemas", {})["S1"] = {"type": "integer", "x-s": fid}
        for ptr, e in f["params"]:
            _put(raw, ptr, real_entry(e))
        for ptr, it in f["items"]:
            _put(raw, ptr, real_item(it))
        raws.append(raw)
    return raws


PLAIN_KEY = __import__("re").compile(r"^[A-Za-z0-9_./{}~:$-][A-Za-z0-9_./{}~$ -]*$")


def to_yaml(value, indent=0, plain=lambda s: False) -> str:
    """Minimal block-style YAML emitter: mapping keys are written *unquoted* whenever they are syntactically plain
    scalars (so `200`, `on`, `2020-01-01` appear bare), string values are JSON-quoted unless `plain(value)`."""
    pad = "  " * indent
    if isinstance(value, dict):
        if not value:
            return "{}"
        lines = []
        for k, v in value.items():
            ks = k if (PLAIN_KEY.match(k) and not k.endswith((":", " ")) and ": " not in k and " #" not in k
                       and k not in ("-", "<<", "=") and not k.startswith(("- ", "? ", "-\t"))) else json.dumps(k)
            if isinstance(v, (dict, list)) and v:
                lines.append(f"{pad}{ks}:\n{to_yaml(v, indent + 1, plain)}")
            else:
                lines.append(f"{pad}{ks}: {to_yaml(v, indent + 1, plain)}")
        return "\n".join(lines)
    if isinstance(value, list):
        if not value:
            return "[]"
        lines = []
        for v in value:
            if isinstance(v, (dict, list)) and v:
                body = to_yaml(v, indent + 1, plain)
                lines.append(f"{pad}- {body.lstrip()}")
            else:
                lines.append(f"{pad}- {to_yaml(v, indent + 1, plain)}")
        return "\n".join(lines)
    if isinstance(value, str):
        return value if plain(value) else json.dumps(value)
    return json.dumps(value)


def write_files(doc, raws, directory):
    """write every file of a multi-file document; returns the root file's path"""
    for name, raw in zip(doc["layout"]["names"], raws):
        path = os.path.join(directory, name)
        os.makedirs(os.path.dirname(path), exist_ok=True)
        with open(path, "w", encoding="utf-8") as fd:
            if name.endswith(".yaml"):
                fd.write(to_yaml(raw) + "\n")
            else:
                json.dump(raw, fd)
    return os.path.join(directory, doc["layout"]["names"][0])


# ---------------------------------------------------------------------------------------------------------------------
# independent reference resolver on the realised files (the oracle for "references resolved in the right place")
# ---------------------------------------------------------------------------------------------------------------------

class Oracle:
    def __init__(self, urls, raws):
        self.docs = dict(zip(urls, raws))
        self.root = urls[0]

    def deref(self, where: str, ref: str):
        """-> (url of the target's file, target) or None"""
        url, frag = urldefrag(urljoin(where, ref))
        if url not in self.docs:
            return None
        node = self.docs[url]
        for part in [p for p in frag.split("/") if p != ""]:
            part = part.replace("~1", "/").replace("~0", "~")
            if isinstance(node, dict) and part in node:
                node = node[part]
            else:
                return None
        return url, node

    def follow(self, where: str, node, limit=8, count=False):
        """follow a chain of $ref objects (at most `limit` hops) -> (file url, object[, hops]) | None"""
        hops = 0
        while isinstance(node, dict) and isinstance(node.get("$ref"), str):
            if hops >= limit:
                return None
            r = self.deref(where, node["$ref"])
            if r is None:
                return None
            where, node = r
            hops += 1
        return (where, node, hops) if count else (where, node)

    def chain_broken(self, where: str, node, derefs=9) -> bool:
        """does following the chain hit an unresolvable reference within the first `derefs` dereferences?
        (the code follows 8 hops and copies the target of the 9th without looking further)"""
        n = 0
        while isinstance(node, dict) and isinstance(node.get("$ref"), str) and n < derefs:
            r = self.deref(where, node["$ref"])
            if r is None:
                return True
            where, node = r
            n += 1
        return False

    def params(self, where: str, entries):
        """resolved parameter objects of a `parameters` array written in file `where`; None if any entry is not a
        well-formed parameter (missing name/in, unresolvable, not an object, too deep)"""
        if not isinstance(entries, list):
            return None
        out = []
        for e in entries:
            r = self.follow(where, e, count=True)
            if r is None:
                return None
            home, p, hops = r
            if not isinstance(p, dict) or not isinstance(p.get("name"), str) or not isinstance(p.get("in"), str):
                return None
            out.append((home, p, hops))
        return out

    def path_item(self, path_entry):
        """-> (file url of the path item, path item) | None"""
        r = self.follow(self.root, path_entry, limit=1)
        if r is None or not isinstance(r[1], dict):
            return None
        return r

    def expected_schema(self, home: str, p: dict):
        s = p.get("schema")
        if isinstance(s, dict) and "$ref" in s:
            r = self.deref(home, s["$ref"])
            return None if r is None else r[1]
        return s


def canon_param_oracle(p):
    return {"name": p.get("name"), "in": p.get("in"), "required": bool(p.get("required", False)), "tag": p.get("x-tag", 0)}
