"""Seeded structured generators for C10: JSON documents, JSON pointers, runtime-expression syntax trees with their
rendering, mutated (malformed) expressions, source exchanges, status keys, link definitions."""
from __future__ import annotations

KEYS = ["id", "name", "items", "a/b", "m~n", "", "0", "1", "-1", "01", " 1", "~0", "~1", "a}b", "x y", "é", "k.v", "n#1",
        "~", "~01", "/", "user", "data", "$ref"]
NAMES = ["id", "user_id", "X-Token", "name", "q", "a-b", "Id", "ID", "x-token", "Location", "k1"]
STRS = ["", "a", "abc", "/users/42", "42", "x y", "Bob", "é١", "a#b", "{x}", "$url", "v1.0", "0", "-1"]
REGEXES = ["(a)", "/users/(.+)", "(x*)", "nomatch(.)", "(\\d+)", "(a)|(b)", "(", "a", "(?:a)(b)", "([a-z]+)", "(.)$",
           "^(.*)$", "(a)(b)", "\\", "(?P<n>[0-9]+)", "(4)2", "u(s)", "(B)ob|x"]
LENIENT = ["-1", "-2", "01", "00", "1_0", "0_0", " 1", "1 ", "+1", "+0", "-0", "١", "１", "\t0", "0\n", "1 ", "-01",
           "0_1", "1__0", "_1", "1_", "+", "-", "", "1.0", "1e0", "0x1", "\x1c1", "٠", "-٠"]


def gen_scalar(rng):
    r = rng.random()
    if r < 0.3:
        return rng.choice(STRS)
    if r < 0.55:
        return rng.choice([0, 1, 7, 42, -3, 10 ** 20, 200])
    if r < 0.65:
        return rng.choice([True, False])
    if r < 0.75:
        return None
    if r < 0.8:
        return rng.choice([1.5, 0.25, -2.5])
    return rng.choice(STRS)


def gen_doc(rng, depth=3):
    r = rng.random()
    if depth <= 0 or r < 0.25:
        return gen_scalar(rng)
    if r < 0.6:
        n = rng.randrange(0, 4)
        return {rng.choice(KEYS): gen_doc(rng, depth - 1) for _ in range(n)}
    n = rng.choice([0, 1, 2, 3, 3, 11, 12])
    if n > 3:
        return [i if rng.random() < 0.8 else gen_doc(rng, depth - 2) for i in range(n)]
    return [gen_doc(rng, depth - 1) for _ in range(n)]


def escape(tok: str) -> str:
    return tok.replace("~", "~0").replace("/", "~1")


def gen_pointer(rng, doc, allow_rbrace=True):
    """Mostly a valid path into `doc`, sometimes decorated with lenient indices / broken escapes / garbage."""
    toks, target = [], doc
    steps = rng.randrange(0, 5)
    for _ in range(steps):
        if isinstance(target, dict) and target:
            k = rng.choice(list(target))
            if rng.random() < 0.1:
                k = rng.choice(KEYS)
            toks.append(escape(k))
            target = target.get(k)
        elif isinstance(target, list):
            n = len(target)
            r = rng.random()
            if r < 0.55 and n:
                i = rng.randrange(n)
                toks.append(str(i))
                target = target[i]
            elif r < 0.65:
                toks.append(str(n + rng.randrange(0, 3)))
                target = None
            else:
                t = rng.choice(LENIENT)
                if rng.random() < 0.3 and n:
                    i = rng.randrange(n)
                    t = rng.choice([f"-{n - i}", f"0{i}", f" {i}", f"+{i}", f"{i} ", "_".join(str(i))])
                toks.append(t)
                try:
                    target = target[int(t)]
                except (ValueError, IndexError):
                    target = None
        else:
            if rng.random() < 0.5:
                break
            toks.append(escape(rng.choice(KEYS)))
            target = None
    p = "".join("/" + t for t in toks)
    r = rng.random()
    if r < 0.04:
        p = p[1:]
    elif r < 0.08:
        p += "/"
    elif r < 0.12:
        p += rng.choice(["~", "~2", "~0", "~1", "~01", "~10", "~~"])
    elif r < 0.14 and p:
        i = rng.randrange(len(p))
        p = p[:i] + rng.choice("/~01-_ ") + p[i:]
    if not allow_rbrace:
        p = p.replace("}", "")
    return p


# ---- expression syntax trees --------------------------------------------------------------------------------------
# Expr: ["url"] | ["method"] | ["statusCode"] | ["request", Source] | ["response", Source]
# Source: ["header", name, rx|None] | ["query", …] | ["path", …] | ["body", ptr|None]
# Part: ["lit", s] | ["dot"] | ["emb", Expr];  Template: ["bare", Expr] | ["parts", [Part]]

def gen_name(rng, ctx=None, loc=None):
    if ctx is not None and rng.random() < 0.8:
        pool = {"query": ctx["query"], "path": ctx["path"], "header": ctx["headers"]}.get(loc)
        if loc == "rheader":
            pool = dict(ctx["respHeaders"])
        if pool:
            n = rng.choice(list(pool))
            if loc in ("header", "rheader") and rng.random() < 0.4:
                n = rng.choice([n.upper(), n.lower(), n.title()])
            if n and not any(c in n for c in "$.{}#"):
                return n
    return rng.choice(NAMES)


def gen_rx(rng):
    if rng.random() < 0.7:
        return None
    return rng.choice(REGEXES).replace("}", "")


def gen_source(rng, ctx, resp, doc):
    r = rng.random()
    if r < 0.5:
        if rng.random() < 0.15:
            return ["body", None]
        return ["body", gen_pointer(rng, doc, allow_rbrace=False)]
    if resp or r < 0.65:
        return ["header", gen_name(rng, ctx, "rheader" if resp else "header"), gen_rx(rng)]
    if r < 0.85:
        return ["query", gen_name(rng, ctx, "query"), gen_rx(rng)]
    return ["path", gen_name(rng, ctx, "path"), gen_rx(rng)]


def gen_expr(rng, ctx):
    r = rng.random()
    if r < 0.08:
        return ["url"]
    if r < 0.16:
        return ["method"]
    if r < 0.24:
        return ["statusCode"]
    if r < 0.55:
        return ["request", gen_source(rng, ctx, False, ctx["reqBody"])]
    return ["response", gen_source(rng, ctx, True, ctx["respBody"])]


LITS = ["ID_", "a", "user-", "/", "x y", "-", "_", "v1", "é", "0", "abc", ":", "?q="]


def gen_template(rng, ctx):
    if rng.random() < 0.45:
        return ["bare", gen_expr(rng, ctx)]
    parts = []
    for _ in range(rng.randrange(0, 5)):
        r = rng.random()
        if r < 0.4:
            if parts and parts[-1][0] == "lit":
                continue
            parts.append(["lit", rng.choice(LITS)])
        elif r < 0.5:
            parts.append(["dot"])
        else:
            parts.append(["emb", gen_expr(rng, ctx)])
    return ["parts", parts]


def render_source(s):
    if s[0] == "body":
        return "body" if s[1] is None else "body#" + s[1]
    return f"{s[0]}.{s[1]}" + ("" if s[2] is None else "#regex:" + s[2])


def render_expr(e):
    if e[0] in ("url", "method", "statusCode"):
        return "$" + e[0]
    return f"${e[0]}." + render_source(e[1])


def render(t):
    if t[0] == "bare":
        return render_expr(t[1])
    out = []
    for p in t[1]:
        out.append(p[1] if p[0] == "lit" else "." if p[0] == "dot" else "{" + render_expr(p[1]) + "}")
    return "".join(out)


def has_whole_body_embedding(t):
    return t[0] == "parts" and any(p[0] == "emb" and p[1][0] in ("request", "response") and p[1][1] == ["body", None]
                                   for p in t[1])


MUT_ALPHABET = "$.{}#/~01 x_-"
SNIPPETS = ["$url", "$method", "$statusCode", "$request", "$response", ".body", ".query.", ".path.", ".header.", "#/", "{",
            "}", "#regex:", "(a)", "$", "$foo", ".cookie.", "#", "body", "query"]


def mutate(rng, s):
    for _ in range(rng.choice([1, 1, 1, 2, 3])):
        r = rng.random()
        i = rng.randrange(len(s) + 1)
        if r < 0.35:
            s = s[:i] + rng.choice(MUT_ALPHABET) + s[i:]
        elif r < 0.6 and s:
            i = min(i, len(s) - 1)
            s = s[:i] + s[i + 1:]
        elif r < 0.8:
            s = s[:i] + rng.choice(SNIPPETS) + s[i:]
        elif s:
            i = min(i, len(s) - 1)
            s = s[:i] + rng.choice(MUT_ALPHABET) + s[i + 1:]
    return s


def gen_free_text(rng):
    """raw strings over the lexer-relevant alphabet (for the tokenizer)"""
    n = rng.randrange(0, 12)
    return "".join(rng.choice(SNIPPETS + list("ab/~ é")) for _ in range(n))


# ---- source exchanges ---------------------------------------------------------------------------------------------

def gen_container(rng, header=False):
    r = rng.random()
    if r < 0.12:
        return None
    d = {}
    for _ in range(rng.randrange(0, 4)):
        n = rng.choice(NAMES)
        if header:
            d[n] = rng.choice(STRS[1:])
        else:
            r2 = rng.random()
            d[n] = rng.choice(STRS) if r2 < 0.6 else rng.choice([0, 5, 42]) if r2 < 0.8 else None if r2 < 0.88 else \
                rng.choice([[1, 2], True, {"a": 1}])
    return d


def gen_ctx(rng):
    resp_headers = {}
    for _ in range(rng.randrange(0, 4)):
        n = rng.choice(NAMES)
        n = rng.choice([n, n.lower(), n.upper()])
        resp_headers[n] = [rng.choice(STRS[1:]) for _ in range(rng.choice([1, 1, 1, 2, 0]))]
    body = gen_doc(rng, 3)
    return {
        "method": rng.choice(["put", "PUT", "Put"]),
        "status": rng.choice([200, 201, 204, 404, 500, 302]),
        "query": gen_container(rng), "path": gen_container(rng), "headers": gen_container(rng, header=True),
        "reqBody": gen_doc(rng, 3),
        "respHeaders": resp_headers,
        "respBody": body,
        "respInvalidJson": rng.random() < 0.04,
    }


# ---- status keys --------------------------------------------------------------------------------------------------

STATUS_KEYS = ["200", "201", "204", "2XX", "2xx", "20X", "4XX", "404", "400", "5XX", "500", "default", "X00", "XXX", "3XX",
               "301", "1XX", "2X0", "099", "0XX", "99", "X", "1000"]
BAD_KEYS = ["", "abc", "2YY", "Default", "DEFAULT", "20", "2XXX"]
STATUSES = [99, 100, 101, 199, 200, 201, 204, 210, 250, 299, 300, 301, 302, 400, 404, 418, 499, 500, 503, 599, 600, 999, 0, 5,
            20, 1000]


def gen_status_case(rng, bad=False):
    n = rng.randrange(1, 6)
    keys = []
    for _ in range(n):
        k = rng.choice(STATUS_KEYS if not bad or rng.random() < 0.7 else BAD_KEYS)
        if k not in keys:
            keys.append(k)
    links = [k for k in keys if rng.random() < 0.7] or [keys[0]]
    rng.shuffle(links)
    status = rng.choice(STATUSES)
    pats = [k for k in keys if k and all(c in "0123456789Xx" for c in k)]
    if pats and rng.random() < 0.6:     # a status that one of the documented keys matches (or nearly)
        k = rng.choice(pats)
        status = int("".join(rng.choice("0123456789") if c in "Xx" else c for c in k))
        if rng.random() < 0.15:
            status += rng.choice([1, 10, 100, -1])
            status = max(status, 0)
    return keys, links, status
