"""Seeded generators for C16: text (as Python str, lone surrogates allowed), bytes, exchanges, event histories."""
from __future__ import annotations

SPECIAL = [0x22, 0x27, 0x5C, 0x00, 0x07, 0x08, 0x09, 0x0A, 0x0B, 0x0C, 0x0D, 0x1B, 0x1F, 0x20, 0x23, 0x3A, 0x7E, 0x7F, 0x80,
           0x84, 0x85, 0x86, 0x9F, 0xA0, 0xA1, 0xE9, 0xFF, 0x100, 0x2027, 0x2028, 0x2029, 0x202A, 0xD7FF, 0xD800, 0xDBFF,
           0xDC00, 0xDFFF, 0xE000, 0xFEFF, 0xFFFD, 0xFFFE, 0xFFFF, 0x10000, 0x1F600, 0x10FFFF, 0x2D, 0x7B, 0x7D, 0x5B, 0x5D,
           0x2C, 0x26, 0x2A, 0x21, 0x7C, 0x3E, 0x25, 0x40, 0x60, 0x3F, 0x2F]
ASCII_WORDS = ["a", "ab", "x1", "null", "~", "true", "1.5", "GET", "it's", 'say "hi"', "a: b", "a #b", "- x", "{}", "[]",
               "\\n", "\\", "%27", "'", "''", '"', " ", "  lead", "trail ", "key:", "é", "naïve"]


def gen_cp(rng) -> int:
    r = rng.random()
    if r < 0.40:
        return rng.choice(SPECIAL)
    if r < 0.70:
        return rng.randrange(0x20, 0x7F)
    if r < 0.80:
        return rng.randrange(0x00, 0x100)
    if r < 0.92:
        return rng.randrange(0x100, 0x10000)
    return rng.randrange(0x10000, 0x110000)


def gen_text(rng, max_len: int = 12, scalar_only: bool = False) -> str:
    r = rng.random()
    if r < 0.04:
        return ""
    if r < 0.15:
        return rng.choice(ASCII_WORDS)
    n = rng.randrange(1, max_len + 1)
    cps = [gen_cp(rng) for _ in range(n)]
    if scalar_only:
        cps = [c for c in cps if not 0xD800 <= c <= 0xDFFF]
    return "".join(map(chr, cps))


def gen_latin1(rng, max_len: int = 10) -> str:
    n = rng.randrange(0, max_len + 1)
    out = []
    for _ in range(n):
        r = rng.random()
        if r < 0.3:
            out.append(rng.choice([c for c in SPECIAL if c < 0x100]))
        elif r < 0.8:
            out.append(rng.randrange(0x20, 0x7F))
        else:
            out.append(rng.randrange(0, 0x100))
    return "".join(map(chr, out))


def gen_bytes(rng, max_len: int = 12) -> bytes:
    r = rng.random()
    if r < 0.08:
        return b""
    if r < 0.35:
        return gen_text(rng, max_len, scalar_only=True).encode("utf-8")
    if r < 0.5:
        return rng.choice([b"\xff", b"\xc3", b"\xe2\x82", b"\xf0\x9f\x98", b"\xc0\xaf", b"\xed\xa0\x80", b"\xef\xbf\xbf",
                           b"\xef\xbf\xbe", b"\xf4\x90\x80\x80", b"\x80abc", b"a\xe9b", b"\x00", b"\r\n", b"{\"a\": 1}"])
    return bytes(rng.randrange(256) for _ in range(rng.randrange(1, max_len + 1)))


def cps(s: str | None):
    return None if s is None else [ord(c) for c in s]


def from_cps(xs) -> str:
    return "".join(map(chr, xs))
