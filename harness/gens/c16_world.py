"""Real schemathesis objects for C16: recorders with generated exchanges, event histories, and their wire form."""
from __future__ import annotations

import datetime
import uuid
import warnings

warnings.filterwarnings("ignore", category=DeprecationWarning)

import requests  # noqa: E402
import schemathesis  # noqa: E402
from schemathesis.core.failures import Failure  # noqa: E402
from schemathesis.core.transport import Response  # noqa: E402
from schemathesis.engine import Status, events  # noqa: E402
from schemathesis.engine.phases import PhaseName  # noqa: E402
from schemathesis.engine.recorder import ScenarioRecorder  # noqa: E402
from schemathesis.generation import GenerationMode  # noqa: E402
from schemathesis.generation.meta import (  # noqa: E402
    CaseMetadata, ComponentInfo, ComponentKind, GenerationInfo, PhaseInfo, TestPhase, ExplicitPhaseData)

from harness.gens.c16_gen import cps, gen_bytes, gen_latin1, gen_text  # noqa: E402

PATHS = ["/a", "/b", "/users/{id}"]
RAW = {"openapi": "3.0.2", "info": {"title": "t", "version": "1"},
       "paths": {p: {m: {"responses": {"200": {"description": "OK"}}} for m in ("get", "post", "delete")} for p in PATHS}}
_SCHEMA = None


def schema():
    global _SCHEMA
    if _SCHEMA is None:
        _SCHEMA = schemathesis.openapi.from_dict(RAW)
    return _SCHEMA


def operation(rng=None, label=None):
    s = schema()
    if label is not None:
        m, p = label.split(" ", 1)
        return s[p][m]
    return s[rng.choice(PATHS)][rng.choice(["GET", "POST", "DELETE"])]


# ---- exchanges ----------------------------------------------------------------------------------------------------

PATH_SEGS = ["a", "users", "1", "it's", "a b", "q\"x", "%27", "é", "x;y", "a,b", "~", "(1)", "*", "é中", "a'", "#f", "?"]
HEADER_NAMES = ["X-A", "Accept", "Content-Type", "content-type", "Cookie", "Authorization", "X-Long-Name-1", "User-Agent",
                "Location", "Set-Cookie", "ETag", "X-Token", "x-lower", "X_Under", "X.Dot", "X-É"]
BAD_HEADER_NAMES = ['X-"q', "X-\\b", "X-\x7f", "X'q", "X-\u0085", "X#h", "X{}"]
ENCODINGS = [None, "utf-8", "utf8", "UTF-8", "latin-1", "ISO-8859-1", "ascii", "utf-16", "cp1252"]
BAD_ENCODINGS = ["foo", "a'b", "utf-9", "x y"]
TITLES = ["Server error", "Undocumented HTTP status code", "Response violates schema", "Custom check failed: `my_check`",
          "JSON deserialization error", "Use after free", "It's", 'say "x"', "a'b\"c", "back\\slash", "new\nline", "tab\there",
          "café", "中", "emoji \U0001F600", "nul\x00", "del\x7f", "nel\x85", "~", "null", "'", "- x", "a: b", "a #b"]
CHECK_NAMES = ["not_a_server_error", "status_code_conformance", "response_schema_conformance", "my_check", "check2",
               "content_type_conformance", "use_after_free", "écheck"]


def gen_header_value(rng):
    v = gen_latin1(rng, 10).replace("\r", "").replace("\n", "")
    return v.lstrip(" \t\x0b\x0c\x1c\x1d\x1e\x1f\x85\xa0")


def gen_prepared(rng, feat):
    method = rng.choice(["GET", "POST", "PUT", "DELETE", "PATCH", "get", "Options"])
    segs = [rng.choice(PATH_SEGS) for _ in range(rng.randrange(0, 4))]
    url = "http://127.0.0.1:8080/" + "/".join(segs)
    params = None
    if rng.random() < 0.5:
        params = {gen_text(rng, 4, scalar_only=True) or "k": gen_text(rng, 6, scalar_only=True) for _ in range(rng.randrange(1, 3))}
    headers = {}
    for _ in range(rng.randrange(0, 4)):
        if rng.random() < 0.06:
            name = rng.choice(BAD_HEADER_NAMES)
            feat("req-header-name:unusual")
        else:
            name = rng.choice(HEADER_NAMES)
        headers[name] = gen_header_value(rng)
    if rng.random() < 0.15:
        headers["Cookie"] = rng.choice(["a=b", "sid=1; theme=dark", "k=\"v\""])
        feat("req-header:cookie")
    r = rng.random()
    data = None
    if r < 0.35:
        data = None
    elif r < 0.8:
        data = gen_bytes(rng, 14)
    else:
        data = {gen_text(rng, 3, scalar_only=True) or "f": gen_text(rng, 5, scalar_only=True)}  # form -> str body
    try:
        prepared = requests.Request(method, url, headers=headers, params=params, data=data).prepare()
    except (requests.RequestException, UnicodeError, ValueError):
        feat("prepare:rejected")
        prepared = requests.Request("GET", "http://127.0.0.1:8080/a").prepare()
    if "'" in (prepared.url or ""):
        feat("url:has-single-quote")
    if prepared.body is None:
        feat("req-body:none")
    elif isinstance(prepared.body, str):
        feat("req-body:str")
    elif prepared.body == b"":
        feat("req-body:empty")
    else:
        try:
            prepared.body.decode("utf-8")
            feat("req-body:utf8")
        except UnicodeDecodeError:
            feat("req-body:invalid-utf8")
    return prepared


def gen_response(rng, prepared, feat, allow_bad_encoding=True, plain_headers=False):
    headers = {}
    for _ in range(rng.randrange(0, 4)):
        if not plain_headers and rng.random() < 0.06:
            name = rng.choice(BAD_HEADER_NAMES)
            feat("resp-header-name:unusual")
        else:
            name = rng.choice(HEADER_NAMES)
        headers[name] = [gen_header_value(rng) for _ in range(1 if rng.random() < 0.8 else 2)]
    if rng.random() < 0.3:
        headers[rng.choice(["Content-Type", "content-type", "CONTENT-TYPE"])] = [rng.choice(["application/json", "text/plain; charset=utf-8", ""])]
    if rng.random() < 0.15:
        headers[rng.choice(["Set-Cookie", "set-cookie"])] = [rng.choice(["a=b", "sid=1; Path=/; HttpOnly", "x=\"q\""])]
    if rng.random() < 0.15:
        headers[rng.choice(["Location", "location"])] = [rng.choice(["http://x/", "/next?a=1"])]
    content = gen_bytes(rng, 16)
    enc = rng.choice(ENCODINGS)
    if allow_bad_encoding and rng.random() < 0.04:
        enc = rng.choice(BAD_ENCODINGS)
        feat("resp-encoding:unknown")
    else:
        feat(f"resp-encoding:{'none' if enc is None else 'known'}")
    feat("resp-content:empty" if not content else "resp-content:bytes")
    return headers, Response(status_code=rng.choice([200, 201, 204, 301, 400, 404, 500, 503, 100, 599]), headers=dict(headers), content=content,
                    request=prepared, elapsed=rng.choice([0.0, 0.1, 1.5, 1e-05, 12.0, 0.123456]), verify=False,
                    message=gen_latin1(rng, 8) if rng.random() < 0.6 else rng.choice(["OK", "Not Found", ""]),
                    http_version=rng.choice(["1.1", "1.0"]), encoding=enc)


def gen_meta(rng, feat):
    r = rng.random()
    if r < 0.2:
        feat("meta:none")
        return None
    mode = rng.choice(list(GenerationMode))
    comps = {k: ComponentInfo(mode=rng.choice(list(GenerationMode))) for k in ComponentKind if rng.random() < 0.5}
    gen = GenerationInfo(time=rng.choice([0.0, 0.001, 1.5, 1e-05, 3.0, 0.1234567]), mode=mode)
    if r < 0.45:
        feat("meta:generate")
        phase = PhaseInfo.generate()
    elif r < 0.6:
        feat("meta:explicit")
        phase = PhaseInfo(name=TestPhase.EXPLICIT, data=ExplicitPhaseData())
    else:
        feat("meta:coverage")
        opt = lambda: None if rng.random() < 0.4 else gen_text(rng, 8)  # noqa: E731
        phase = PhaseInfo.coverage(description=gen_text(rng, 14), location=opt(), parameter=opt(), parameter_location=opt())
    return CaseMetadata(generation=gen, components=comps, phase=phase)


def gen_recorder(rng, feat, label=None, n_cases=None, allow_bad_encoding=True, titles=TITLES, random_titles=True):
    """A ScenarioRecorder filled through its public recording methods. Returns (recorder, fed) where `fed` keeps the
    objects that were handed in, per case id, for the faithfulness comparison."""
    op = operation(rng, label)
    rec = ScenarioRecorder(label=label or op.label)
    fed = {}
    n = n_cases if n_cases is not None else rng.choice([1, 1, 1, 2, 3])
    for _ in range(n):
        case = op.Case(meta=gen_meta(rng, feat))
        rec.record_case(parent_id=None, transition=None, case=case)
        r = rng.random()
        if r < 0.05:
            feat("interaction:none")          # case recorded, nothing sent (e.g. interrupted)
            continue
        prepared = gen_prepared(rng, feat)
        if r < 0.2:
            feat("interaction:network-error")
            rec.record_request(case_id=case.id, request=prepared)
            fed[case.id] = {"prepared": prepared, "response": None, "checks": None, "case": case}
            continue
        feat("interaction:response")
        headers_in, resp = gen_response(rng, prepared, feat, allow_bad_encoding)
        rec.record_response(case_id=case.id, response=resp)
        checks = None
        if rng.random() < 0.85:
            checks = []
            for _ in range(rng.randrange(1, 4)):
                name = rng.choice(CHECK_NAMES)
                if rng.random() < 0.35:
                    title = rng.choice(titles) if rng.random() < 0.8 or not random_titles else gen_text(rng, 8)
                    f = Failure(operation=op.label, title=title, message=rng.choice(["m", "", "x\ny"]))
                    rec.record_check_failure(name=name, case_id=case.id, code_sample="curl -X GET http://127.0.0.1/", failure=f)
                    checks.append((name, title))
                else:
                    rec.record_check_success(name=name, case_id=case.id)
                    checks.append((name, None))
            feat("checks:some-failed" if any(t is not None for _, t in checks) else "checks:all-passed")
        else:
            feat("checks:not-recorded")
        # what the server sent, independent of how Response stores it: names compare case-insensitively, a later
        # duplicate name replaces an earlier one
        sent = {}
        for k, v in headers_in.items():
            sent[k.lower()] = list(v)
        fed[case.id] = {"prepared": prepared, "response": resp, "checks": checks, "case": case, "orig_headers": sent,
                        "headers_in": {k: list(v) for k, v in headers_in.items()}}
    return rec, fed


def recorded_at(interaction) -> str:
    return datetime.datetime.fromtimestamp(interaction.timestamp, datetime.timezone.utc).isoformat()


def wire_headers(h):
    return [[cps(k), [cps(v) for v in vs]] for k, vs in h.items()]


def wire_entry(rec, case_id):
    """The model's input for one interaction, read off the recorder the writer receives. `None` if the response text
    cannot be decoded at all (unknown codec: the writer raises)."""
    inter = rec.interactions[case_id]
    case = rec.cases[case_id].value
    meta = case.meta
    wmeta = None
    if meta is not None:
        d = meta.phase.data
        data = None
        if hasattr(d, "description"):
            data = {"description": cps(d.description), "location": cps(d.location), "parameter": cps(d.parameter),
                    "parameter_location": cps(d.parameter_location)}
        wmeta = {"time": cps(str(meta.generation.time)), "mode": cps(meta.generation.mode.value),
                 "components": [[cps(k.value), cps(v.mode.value)] for k, v in meta.components.items()],
                 "phase": cps(meta.phase.name.value), "data": data}
    checks = None
    if case_id in rec.checks:
        checks = [{"name": cps(c.name), "failed": c.status == Status.FAILURE,
                   "title": cps(c.failure_info.failure.title) if c.failure_info else None} for c in rec.checks[case_id]]
    req = inter.request
    resp = None
    if inter.response is not None:
        r = inter.response
        try:
            decoded = r.content.decode(r.encoding or "utf8", "replace")
            known = True
        except LookupError:
            decoded = r.content.decode("utf8", "replace")
            known = False
        resp = {"code": cps(str(r.status_code)), "message": cps(r.message), "elapsed": cps(str(r.elapsed)),
                "headers": wire_headers(r.headers), "content": list(r.content), "decoded": cps(decoded),
                "encoding": cps(r.encoding), "codec_known": known, "http_version": cps(r.http_version)}
    return {"id": cps(case_id), "meta": wmeta, "recorded_at": cps(recorded_at(inter)), "checks": checks,
            "uri": cps(req.uri), "method": cps(req.method), "headers": wire_headers(req.headers),
            "body": None if req.body is None else list(req.body),
            "body_decoded": cps("" if req.body is None else req.body.decode("utf8", "replace")), "response": resp}


def scenario_finished(rec, status, skip_reason=None, phase=PhaseName.FUZZING):
    return events.ScenarioFinished(id=uuid.uuid4(), phase=phase, suite_id=uuid.uuid4(), label=rec.label, status=status,
                                   recorder=rec, elapsed_time=0.25, skip_reason=skip_reason, is_final=False)


def recorder_from_wire(entries, label="GET /a"):
    """Rebuild a ScenarioRecorder from the wire form of its interactions (used by --replay)."""
    import datetime as _dt
    from schemathesis.engine.recorder import CaseNode, CheckFailureInfo, CheckNode, Interaction, Request
    from harness.gens.c16_gen import from_cps
    s = lambda x: None if x is None else from_cps(x)  # noqa: E731
    rec = ScenarioRecorder(label=label)
    fed = {}
    op = operation(label=label)
    dummy = requests.Request("GET", "http://127.0.0.1/").prepare()
    for e in entries:
        cid = s(e["id"])
        meta = None
        if e["meta"] is not None:
            m = e["meta"]
            d = m["data"]
            name = TestPhase(s(m["phase"]))
            if d is not None:
                phase = PhaseInfo.coverage(description=s(d["description"]), location=s(d["location"]), parameter=s(d["parameter"]),
                                           parameter_location=s(d["parameter_location"]))
            elif name == TestPhase.EXPLICIT:
                phase = PhaseInfo(name=name, data=ExplicitPhaseData())
            else:
                phase = PhaseInfo.generate()
            meta = CaseMetadata(generation=GenerationInfo(time=float(s(m["time"])), mode=GenerationMode(s(m["mode"]))),
                                components={ComponentKind(s(k)): ComponentInfo(mode=GenerationMode(s(v))) for k, v in m["components"]},
                                phase=phase)
        case = op.Case(meta=meta)
        case.id = cid
        rec.cases[cid] = CaseNode(value=case, parent_id=None, transition=None)
        body = None if e["body"] is None else bytes(e["body"])
        req = Request(method=s(e["method"]), uri=s(e["uri"]), body=body, body_size=None if body is None else len(body),
                      headers={s(k): [s(v) for v in vs] for k, vs in e["headers"]})
        resp = None
        if e["response"] is not None:
            r = e["response"]
            resp = Response(status_code=int(s(r["code"])), headers={s(k): [s(v) for v in vs] for k, vs in r["headers"]},
                            content=bytes(r["content"]), request=dummy, elapsed=float(s(r["elapsed"])), verify=False,
                            message=s(r["message"]), http_version=s(r["http_version"]), encoding=s(r["encoding"]))
        inter = Interaction(request=req, response=resp)
        inter.timestamp = _dt.datetime.fromisoformat(s(e["recorded_at"])).timestamp()
        rec.interactions[cid] = inter
        if e["checks"] is not None:
            rec.checks[cid] = [CheckNode(name=s(c["name"]), status=Status.FAILURE if c["failed"] else Status.SUCCESS,
                                         failure_info=None if c["title"] is None else CheckFailureInfo(
                                             code_sample="curl", failure=Failure(operation=label, title=s(c["title"]), message="m")))
                               for c in e["checks"]]
    return rec
