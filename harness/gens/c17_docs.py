"""Generators for C17: OpenAPI 3.0 / 2.0 documents with a *canary* example value at every placement the property
lists, plus the list of expectations (where each canary has to show up).

An expectation is a dict
  {"op": [path, METHOD], "kind": "param"|"body", "container": str|None, "name": str (parameter name | media type),
   "path": [seg…] (property path inside the value: str = property, 0 = the single array item), "value": canary,
   "placement": str, "level": "must"|"deep"}
`level == "deep"` marks placements below the one combinator level the code expands (known gaps, narrow signatures).
Everything random comes from the `random.Random` passed in.  Canary values are ASCII strings or small ints, unique
within a document, never equal to anything the data generator is likely to draw.
"""
from __future__ import annotations

CONTAINER = {"path": "path_parameters", "query": "query", "header": "headers", "cookie": "cookies"}
JSON = "application/json"


class Canaries:
    def __init__(self, rng, tag):
        self.rng, self.tag, self.n = rng, tag, 0

    def new(self, kind="any"):
        self.n += 1
        if kind == "int" or (kind == "any" and self.rng.random() < 0.25):
            return 700000 + self.n * 7 + len(self.tag)
        return f"cnr{self.tag}x{self.n}"


class DocBuilder:
    def __init__(self, rng, tag, oas3=True, allow_deep=True):
        self.rng, self.oas3, self.allow_deep = rng, oas3, allow_deep
        self.c = Canaries(rng, tag)
        self.paths: dict = {}
        self.components: dict = {"examples": {}, "schemas": {}, "parameters": {}}
        self.expect: list[dict] = []
        self.features: list[str] = []

    # ---- helpers -------------------------------------------------------------------------------------------
    def want(self, op, kind, container, name, path, value, placement, level="must"):
        self.expect.append({"op": list(op), "kind": kind, "container": container, "name": name, "path": list(path),
                            "value": value, "placement": placement, "level": level})
        self.features.append(("deep:" if level == "deep" else "") + placement)

    def prim_schema(self, value):
        return {"type": "integer"} if isinstance(value, int) else {"type": "string"}

    # ---- parameters (OpenAPI 3) ----------------------------------------------------------------------------
    def param3(self, op, name, location, required, n_placements):
        """One parameter with canaries at `n_placements` randomly chosen placements."""
        rng = self.rng
        kind = "str" if location in ("header", "cookie", "path") else rng.choice(["str", "int", "str"])
        new = lambda: self.c.new("int" if kind == "int" else "str")  # noqa: E731
        schema: dict = {"type": "integer" if kind == "int" else "string"}
        p: dict = {"name": name, "in": location, "schema": schema}
        if required or location == "path":
            p["required"] = True
        cont = CONTAINER[location]
        choices = ["example", "examples", "examples-ref", "schema-example", "schema-examples", "anyOf", "oneOf", "allOf"]
        if kind == "str" and location == "query":
            choices.append("examples-ref-bare")
        if self.allow_deep:
            choices += ["deep-anyOf-oneOf", "deep-anyOf-allOf"]
        placements = rng.sample(choices, min(n_placements, len(choices)))
        # the combinators replace the plain schema: at most one of them
        combos = [x for x in placements if x in ("anyOf", "oneOf", "allOf", "deep-anyOf-oneOf", "deep-anyOf-allOf")]
        for extra in combos[1:]:
            placements.remove(extra)
        for pl in placements:
            new = lambda: self.c.new("int" if kind == "int" else "str")  # noqa: E731
            if pl == "example":
                v = new()
                falsy = location != "path" and rng.random() < 0.15
                if falsy:     # an explicit example is an example whatever its truth value (0, "")
                    v = 0 if kind == "int" else ""
                p["example"] = v
                self.want(op, "param", cont, name, [], v, "param.example" + ("+falsy" if falsy else ""))
            elif pl == "examples":
                p.setdefault("examples", {})
                for i in range(rng.randint(1, 3)):
                    v = new()
                    p["examples"][f"e{i}"] = {"value": v}
                    self.want(op, "param", cont, name, [], v, "param.examples.value")
            elif pl == "examples-ref":
                v = new()
                key = f"Ex{len(self.components['examples'])}"
                self.components["examples"][key] = {"value": v}
                p.setdefault("examples", {})["r"] = {"$ref": f"#/components/examples/{key}"}
                self.want(op, "param", cont, name, [], v, "param.examples.$ref")
            elif pl == "examples-ref-bare":
                # a reference to a bare value (not an Example Object): used as the example itself
                v = new()
                word = kind != "int" and rng.random() < 0.5
                if word:
                    v = f"{v} value"     # a string that merely contains the word
                key = f"Ex{len(self.components['examples'])}"
                self.components["examples"][key] = v
                p.setdefault("examples", {})["bare"] = {"$ref": f"#/components/examples/{key}"}
                self.want(op, "param", cont, name, [], v, "param.examples.$ref-bare" + ("+word-value" if word else ""))
            elif pl == "schema-example":
                v = new()
                falsy = location != "path" and rng.random() < 0.15
                if falsy:
                    v = 0 if kind == "int" else ""
                schema["example"] = v
                self.want(op, "param", cont, name, [], v, "param.schema.example" + ("+falsy" if falsy else ""))
            elif pl == "schema-examples":
                vs = [new() for _ in range(rng.randint(1, 2))]
                schema["examples"] = vs
                for v in vs:
                    self.want(op, "param", cont, name, [], v, "param.schema.examples")
            elif pl in ("anyOf", "oneOf"):
                branches = []
                # oneOf branches must be disjoint, otherwise nothing can be generated for the parameter
                for i in range(rng.randint(1, 3) if pl == "anyOf" else rng.randint(1, 2)):
                    bkind = kind if pl == "anyOf" or i == 0 else ("str" if kind == "int" else "int")
                    b = dict(self.prim_schema(0 if bkind == "int" else ""))
                    new = lambda bkind=bkind: self.c.new("int" if bkind == "int" else "str")  # noqa: E731
                    r = rng.random()
                    if r < 0.5:
                        v = new()
                        b["example"] = v
                        self.want(op, "param", cont, name, [], v, f"param.schema.{pl}.example")
                    elif r < 0.85:
                        v = new()
                        b["examples"] = [v]
                        self.want(op, "param", cont, name, [], v, f"param.schema.{pl}.examples")
                    branches.append(b)
                schema.pop("type", None)
                schema[pl] = branches
            elif pl == "allOf":
                items = []
                for i in range(rng.randint(1, 3)):
                    b: dict = dict(self.prim_schema(0 if kind == "int" else "")) if i == 0 else {}
                    r = rng.random()
                    if r < 0.5:
                        v = new()
                        b["example"] = v
                        self.want(op, "param", cont, name, [], v, f"param.schema.allOf[{min(i, 1)}].example")
                    elif r < 0.8:
                        v = new()
                        b["examples"] = [v]
                        self.want(op, "param", cont, name, [], v, f"param.schema.allOf[{min(i, 1)}].examples")
                    if i and rng.random() < 0.4:
                        b["minLength" if kind != "int" else "minimum"] = 0
                    items.append(b)
                schema.pop("type", None)
                schema["allOf"] = items
            elif pl == "deep-anyOf-oneOf":
                v = new()
                schema.pop("type", None)
                schema["anyOf"] = [{"oneOf": [dict(self.prim_schema(v), example=v)]}]
                self.want(op, "param", cont, name, [], v, "param.schema.anyOf.oneOf.example", "deep")
            elif pl == "deep-anyOf-allOf":
                v = new()
                schema.pop("type", None)
                schema["anyOf"] = [{"allOf": [dict(self.prim_schema(v), example=v)]}]
                self.want(op, "param", cont, name, [], v, "param.schema.anyOf.allOf.example", "deep")
        return p

    def filler3(self, name, location, required):
        p = {"name": name, "in": location, "schema": {"type": self.rng.choice(["string", "integer"])
                                                       if location == "query" else "string"}}
        if required or location == "path":
            p["required"] = True
        return p

    # ---- bodies (OpenAPI 3) --------------------------------------------------------------------------------
    def prop_schema(self, op, mt, path, depth, deep_ok=True):
        """A property schema with canaries; returns (schema, has_example)."""
        rng = self.rng
        r = rng.random()
        new = self.c.new
        if depth > 0 and r < 0.22:
            props, any_ex = {}, False
            for i in range(rng.randint(1, 2)):
                n = f"n{depth}{i}"
                s, ex = self.prop_schema(op, mt, path + [n], depth - 1)
                props[n] = s
                any_ex = any_ex or ex
            out = {"type": "object", "properties": props}
            if any_ex and rng.random() < 0.45:
                # the object property has an example of its own NEXT TO the examples of its members: all of them are examples
                whole = {next(iter(props)): new("str")}
                self.want(op, "body", None, mt, path, whole, "body.property.object-example-next-to-member-examples")
                out["example"] = whole
            return out, any_ex
        if depth > 0 and r < 0.32:
            props, any_ex = {}, False
            for i in range(rng.randint(1, 2)):
                n = f"i{depth}{i}"
                s, ex = self.prop_schema(op, mt, path + [0, n], depth - 1)
                props[n] = s
                any_ex = any_ex or ex
            return {"type": "array", "items": {"type": "object", "properties": props}}, any_ex
        if r < 0.55:
            v = new()
            self.want(op, "body", None, mt, path, v, "body.property.example")
            return dict(self.prim_schema(v), example=v), True
        if r < 0.68:
            vs = [new("str") for _ in range(rng.randint(1, 3))]
            for v in vs:
                self.want(op, "body", None, mt, path, v, "body.property.examples")
            return {"type": "string", "examples": vs}, True
        if r < 0.80:
            key = rng.choice(["anyOf", "oneOf"])
            branches = []
            for i in range(rng.randint(1, 2)):
                v = new(("str", "int")[i]) if key == "oneOf" else new()   # oneOf branches stay disjoint
                self.want(op, "body", None, mt, path, v, f"body.property.{key}.example")
                branches.append(dict(self.prim_schema(v), example=v))
            if rng.random() < 0.3:
                branches.append({"type": "null"})
            return {key: branches}, True
        if r < 0.88:
            v1, v2 = new("str"), new("str")
            self.want(op, "body", None, mt, path, v1, "body.property.allOf[0].example")
            self.want(op, "body", None, mt, path, v2, "body.property.allOf[1].example")
            return {"allOf": [{"type": "string", "example": v1}, {"minLength": 0, "example": v2}]}, True
        if r < 0.93 and self.oas3:
            v = new("str")
            self.want(op, "body", None, mt, path, v, "body.property.nullable.example")
            return {"type": "string", "nullable": True, "example": v}, True
        return {"type": rng.choice(["string", "integer", "boolean"])}, False

    def json_media(self, op, mt=JSON):
        """media type object for a JSON-like body"""
        rng = self.rng
        new = self.c.new
        media: dict = {}
        schema: dict = {"type": "object"}
        r = rng.random()
        if r < 0.75:
            props, req = {}, []
            for i in range(rng.randint(1, 4)):
                n = f"p{i}"
                s, ex = self.prop_schema(op, mt, [n], 2)
                props[n] = s
                if rng.random() < 0.5:
                    req.append(n)
            schema["properties"] = props
            if req:
                schema["required"] = req
        def obj():
            return {"k": new(), "z": rng.randint(0, 3)}
        if rng.random() < 0.35:
            v = obj()
            falsy = rng.random() < 0.15
            if falsy:
                v = {}
            media["example"] = v
            self.want(op, "body", None, mt, [], v, "media.example" + ("+falsy" if falsy else ""))
        if rng.random() < 0.35:
            media["examples"] = {}
            for i in range(rng.randint(1, 2)):
                v = obj()
                media["examples"][f"m{i}"] = {"value": v}
                self.want(op, "body", None, mt, [], v, "media.examples.value")
            if rng.random() < 0.4:
                v = obj()
                key = f"Ex{len(self.components['examples'])}"
                self.components["examples"][key] = {"value": v}
                media["examples"]["r"] = {"$ref": f"#/components/examples/{key}"}
                self.want(op, "body", None, mt, [], v, "media.examples.$ref")
            if rng.random() < 0.25:
                v = obj()  # a bare object behind the reference: used as the example itself
                key = f"Ex{len(self.components['examples'])}"
                self.components["examples"][key] = v
                media["examples"]["bare"] = {"$ref": f"#/components/examples/{key}"}
                self.want(op, "body", None, mt, [], v, "media.examples.$ref-bare")
            if rng.random() < 0.2:
                # a bare list / string behind the reference; "value" as an element or a substring is still no key
                word = rng.random() < 0.5
                v = [new(), "value" if word else "other"] if rng.random() < 0.5 else f"{new()}{' value' if word else ''}"
                key = f"Ex{len(self.components['examples'])}"
                self.components["examples"][key] = v
                media["examples"]["bare2"] = {"$ref": f"#/components/examples/{key}"}
                self.want(op, "body", None, mt, [], v, "media.examples.$ref-bare" + ("+word-value" if word else ""))
        if rng.random() < 0.3:
            v = obj()
            schema["example"] = v
            self.want(op, "body", None, mt, [], v, "body.schema.example")
        if rng.random() < 0.2:
            vs = [obj() for _ in range(rng.randint(1, 2))]
            schema["examples"] = vs
            for v in vs:
                self.want(op, "body", None, mt, [], v, "body.schema.examples")
        if rng.random() < 0.2:
            key = f"S{len(self.components['schemas'])}"
            self.components["schemas"][key] = schema
            schema = {"$ref": f"#/components/schemas/{key}"}
        media["schema"] = schema
        return media

    def deep_body(self, op, mt=JSON):
        """property examples under a body-level combinator: below what the code expands"""
        v = self.c.new("str")
        key = self.rng.choice(["anyOf", "allOf", "oneOf"])
        self.want(op, "body", None, mt, ["b"], v, f"body.schema.{key}.properties.example", "deep")
        return {"schema": {key: [{"type": "object", "properties": {"b": {"type": "string", "example": v}}}]}}

    # ---- operations ----------------------------------------------------------------------------------------
    def operation3(self, idx, with_examples=True, simple=False):
        """simple=True: only placements whose canaries are primitive parameter values / JSON bodies (wire-checkable)."""
        rng = self.rng
        has_path_param = rng.random() < 0.5
        path = f"/r{idx}" + ("/{id}" if has_path_param else "")
        method = rng.choice(["get", "post", "put", "patch", "delete"])
        op = (path, method.upper())
        params = []
        names = iter(["q1", "q2", "q3", "h1", "h2", "c1"])
        locs = {"q1": "query", "q2": "query", "q3": "query", "h1": "header", "h2": "header", "c1": "cookie"}
        if has_path_param:
            if with_examples and rng.random() < 0.6:
                params.append(self.param3(op, "id", "path", True, rng.randint(1, 2)))
            else:
                params.append(self.filler3("id", "path", True))
        for name in names:
            r = rng.random()
            hname = {"h1": "X-H1", "h2": "X-H2"}.get(name, name)
            if with_examples and r < 0.4:
                params.append(self.param3(op, hname, locs[name], rng.random() < 0.4, rng.randint(1, 3)))
            elif r < 0.6:
                params.append(self.filler3(hname, locs[name], rng.random() < 0.6))
        # a referenced parameter / a path-level parameter
        path_level = []
        if with_examples and rng.random() < 0.2:
            p = self.param3(op, "pl", "query", False, 1)
            path_level.append(p)
        if with_examples and rng.random() < 0.2:
            p = self.param3(op, "rp", "query", False, 1)
            key = f"P{len(self.components['parameters'])}"
            self.components["parameters"][key] = p
            params.append({"$ref": f"#/components/parameters/{key}"})
        rng.shuffle(params)
        definition: dict = {"parameters": params, "responses": {"200": {"description": "OK"}}}
        if method != "get" and method != "delete" and rng.random() < 0.7:
            content = {}
            if with_examples:
                content[JSON] = self.json_media(op) if rng.random() < 0.9 or not self.allow_deep else self.deep_body(op)
                if rng.random() < 0.25:
                    v = self.c.new("str")
                    content["text/plain"] = {"schema": {"type": "string"}, "example": v}
                    self.want(op, "body", None, "text/plain", [], v, "media.example(text/plain)")
                if rng.random() < 0.2:
                    v = {"f": self.c.new("str")}
                    content["application/x-www-form-urlencoded"] = {
                        "schema": {"type": "object", "properties": {"f": {"type": "string"}}}, "example": v}
                    self.want(op, "body", None, "application/x-www-form-urlencoded", [], v, "media.example(form)")
            else:
                content[JSON] = {"schema": {"type": "object", "properties": {"a": {"type": "string"}}}}
            definition["requestBody"] = {"required": True, "content": content}
        item = self.paths.setdefault(path, {})
        if path_level:
            item.setdefault("parameters", []).extend(path_level)
        if method in item:
            return None
        item[method] = definition
        return op

    def build3(self):
        doc = {"openapi": "3.0.2", "info": {"title": "t", "version": "1"}, "paths": self.paths,
               "components": {k: v for k, v in self.components.items() if v}}
        return doc

    # ---- OpenAPI 2.0 ---------------------------------------------------------------------------------------
    def operation2(self, idx):
        rng = self.rng
        new = self.c.new
        path = f"/s{idx}"
        method = rng.choice(["post", "put"])
        op = (path, method.upper())
        params = []
        for name, loc in (("q1", "query"), ("X-H1", "header"), ("q2", "query")):
            r = rng.random()
            if r < 0.45:
                p = {"name": name, "in": loc, "type": "string"}
                if rng.random() < 0.6:
                    v = new("str")
                    falsy = rng.random() < 0.15
                    if falsy:
                        v = ""
                    p["x-example"] = v
                    self.want(op, "param", CONTAINER[loc], name, [], v, "swagger.param.x-example" + ("+falsy" if falsy else ""))
                if rng.random() < 0.4:
                    v = new("str")
                    p["x-examples"] = {"a": {"value": v}}
                    self.want(op, "param", CONTAINER[loc], name, [], v, "swagger.param.x-examples")
                if rng.random() < 0.3:
                    p["required"] = True
                params.append(p)
            elif r < 0.6:
                params.append({"name": name, "in": loc, "type": "string", "required": rng.random() < 0.5})
        r = rng.random()
        if r < 0.6:
            schema: dict = {"type": "object"}
            if rng.random() < 0.7:
                props = {}
                for i in range(rng.randint(1, 3)):
                    s, _ = self.prop_schema(op, JSON, [f"p{i}"], 1)
                    props[f"p{i}"] = s
                schema["properties"] = props
                if rng.random() < 0.3:
                    v = new("str")
                    props["px"] = {"type": "string", "x-example": v}
                    self.want(op, "body", None, JSON, ["px"], v, "swagger.body.property.x-example")
            b: dict = {"name": "b", "in": "body", "required": True, "schema": schema}
            if rng.random() < 0.4:
                v = {"k": new()}
                schema["example"] = v
                self.want(op, "body", None, JSON, [], v, "swagger.body.schema.example")
            if rng.random() < 0.4:
                v = {"k": new()}
                b["x-example"] = v
                self.want(op, "body", None, JSON, [], v, "swagger.body.x-example")
            if rng.random() < 0.3:
                v = {"k": new()}
                b["x-examples"] = {"a": {"value": v}}
                self.want(op, "body", None, JSON, [], v, "swagger.body.x-examples")
            params.append(b)
        elif r < 0.7 and self.allow_deep:
            v = {"k": new("str")}
            params.append({"name": "b", "in": "body", "required": True,
                           "schema": {"allOf": [{"type": "object"}, {"example": v}]}})
            self.want(op, "body", None, JSON, [], v, "swagger.body.schema.allOf[1].example", "deep")
        elif r < 0.85:
            v = new("str")
            fp = {"name": "f", "in": "formData", "type": "string", "x-example": v, "required": True}
            params.append(fp)
            self.want(op, "body", None, "multipart/form-data", ["f"], v, "swagger.formData.x-example")
            if rng.random() < 0.5:      # the plural keyword next to the singular one: both are examples of the field
                for i in range(rng.randint(1, 2)):
                    v2 = new("str")
                    fp.setdefault("x-examples", {})[f"e{i}"] = {"value": v2}
                    self.want(op, "body", None, "multipart/form-data", ["f"], v2, "swagger.formData.x-examples(next to x-example)")
            self.form = True
        self.paths.setdefault(path, {})[method] = {"parameters": params, "consumes": [
            "multipart/form-data" if any(p.get("in") == "formData" for p in params) else JSON],
            "responses": {"200": {"description": "OK"}}}
        return op

    def build2(self):
        return {"swagger": "2.0", "info": {"title": "t", "version": "1"}, "paths": self.paths}


def gen_doc(rng, tag, n_ops=4, oas3=True, simple=False, none_ratio=0.2, allow_deep=True):
    """-> (raw document, expectations, ops with examples, ops without examples, feature names)"""
    b = DocBuilder(rng, tag, oas3, allow_deep)
    with_ex, without = [], []
    for i in range(n_ops):
        if oas3:
            no_examples = rng.random() < none_ratio
            op = b.operation3(i, with_examples=not no_examples, simple=simple)
        else:
            op = b.operation2(i)
        if op is None:
            continue
        (with_ex if any(tuple(e["op"]) == op for e in b.expect) else without).append(op)
    return (b.build3() if oas3 else b.build2()), b.expect, with_ex, without, b.features
