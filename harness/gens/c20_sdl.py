"""Seeded generators of GraphQL schemas for C20.

* `index_desc(rng)`  — small root-type layouts (custom root names, shared field names, one type for both roots, a
  Subscription root, unrelated object types) for the selection / statistic / lookup correspondence;
* `desc_to_sdl(desc)` — SDL text of such a layout;
* `rich_sdl(rng)`    — SDL with nested input objects, lists, enums, non-null, interfaces, unions, default values,
  deprecated fields, built-in extra scalars (Date, …), a registered custom scalar and an unknown one, for the
  sampled validity check.
"""
from __future__ import annotations

FIELD_POOL = ["dup", "a", "b", "user", "users", "create", "m", "q", "node", "Dup", "_x", "a1"]
ROOT_NAMES = [("Query", "Mutation"), ("Query", "Mutation"), ("Query", "Mutation"), ("Q", "M"), ("RootQuery", "Mut"),
              ("Root", "Root"), ("Query", "Query2"), ("A", "AB")]


def index_desc(rng, *, max_fields=4):
    qn, mn = rng.choice(ROOT_NAMES)
    has_mutation = rng.random() < 0.85
    pool = FIELD_POOL[: rng.choice([3, 5, 8, len(FIELD_POOL)])]
    qf = rng.sample(pool, rng.randint(1, min(max_fields, len(pool))))
    if qn == mn:
        mf = qf
    else:
        mf = rng.sample(pool, rng.randint(1, min(max_fields, len(pool))))
        if rng.random() < 0.5:  # force a shared name
            shared = rng.choice(qf)
            if shared not in mf:
                mf[rng.randrange(len(mf))] = shared
    others = []
    if rng.random() < 0.5:
        others.append(("User", rng.sample(pool, rng.randint(1, 3))))
    if rng.random() < 0.2:
        others.append(("Mutation2", ["dup", "zz"]))
    sub = None
    if rng.random() < 0.25:
        sub = ("Subscription" if "Subscription" not in (qn, mn) else "Sub", rng.sample(pool, rng.randint(1, 2)))
    return {"query": (qn, qf), "mutation": (mn, mf) if has_mutation else None, "others": others, "subscription": sub,
            "order": rng.random() < 0.5}


def desc_to_sdl(desc) -> str:
    qn, qf = desc["query"]
    out = []
    roots = [f"query: {qn}"]
    if desc["mutation"]:
        roots.append(f"mutation: {desc['mutation'][0]}")
    if desc["subscription"]:
        roots.append(f"subscription: {desc['subscription'][0]}")
    out.append("schema { " + " ".join(roots) + " }")

    def obj(name, fields, i0=0):
        body = []
        for i, f in enumerate(fields):
            arg = ["", "(x: Int)", "(id: ID!, s: String)"][(i + i0) % 3]
            ty = ["Int", "String", "[Int!]", "Boolean!"][(i + i0) % 4]
            body.append(f"  {f}{arg}: {ty}")
        return "type %s {\n%s\n}" % (name, "\n".join(body))

    blocks = [obj(qn, qf)]
    if desc["mutation"] and desc["mutation"][0] != qn:
        blocks.append(obj(desc["mutation"][0], desc["mutation"][1], 1))
    for n, fs in desc["others"]:
        blocks.append(obj(n, fs, 2))
    if desc["subscription"]:
        blocks.append(obj(desc["subscription"][0], desc["subscription"][1]))
    if desc["order"]:
        blocks.reverse()
    return "\n".join(out + blocks) + "\n"


# ---- rich schemas ---------------------------------------------------------------------------------------------------

EXTRA_SCALARS = ["Date", "Time", "DateTime", "IP", "IPv4", "IPv6", "BigInt", "Long", "UUID"]
REGISTERED = "Weird"          # registered through schemathesis.graphql.scalar by the harness
UNKNOWN = "Mystery"           # never registered: only ever used in nullable positions
BUILTIN = ["Int", "Float", "String", "Boolean", "ID"]


def rich_sdl(rng, *, unknown_scalars=True):
    """returns (sdl, info) — info: {"scalars": [...], "query": name, "mutation": name|None}"""
    scalars = rng.sample(EXTRA_SCALARS, rng.randint(1, 4)) + [REGISTERED]
    if unknown_scalars and rng.random() < 0.4:
        scalars.append(UNKNOWN)
    n_enum, n_input, n_obj = rng.randint(1, 2), rng.randint(1, 3), rng.randint(1, 3)
    enums = {f"E{i}": [f"V{i}{j}" for j in range(rng.randint(1, 4))] for i in range(n_enum)}
    lines = [f"scalar {s}" for s in scalars]
    for e, vs in enums.items():
        lines.append(f"enum {e} {{ {' '.join(vs)} }}")

    def leaf(allow_unknown):
        r = rng.random()
        if r < 0.4:
            return rng.choice(BUILTIN)
        if r < 0.7:
            pool = [s for s in scalars if allow_unknown or s != UNKNOWN]
            return rng.choice(pool)
        return rng.choice(list(enums))

    def input_ref(upto, depth=0):
        """a type expression usable in input position; input objects In0..In{upto-1} may be referenced"""
        r = rng.random()
        if upto > 0 and r < 0.3:
            base = f"In{rng.randrange(upto)}"
        else:
            base = leaf(allow_unknown=False)
        if rng.random() < 0.3 and depth < 2:
            inner = base + ("!" if rng.random() < 0.5 else "")
            base = f"[{inner}]"
            if rng.random() < 0.2 and depth < 1:
                base = f"[{base}]"
        if rng.random() < 0.35:
            base += "!"
        return base

    def default_for(ty):
        if ty == "Int":
            return " = 3"
        if ty == "Boolean":
            return " = true"
        if ty == "String":
            return ' = "d"'
        if ty in enums:
            return f" = {enums[ty][0]}"
        return ""

    for i in range(n_input):
        fs = []
        for j in range(rng.randint(1, 4)):
            if unknown_scalars and UNKNOWN in scalars and rng.random() < 0.15:
                ty = UNKNOWN
            elif rng.random() < 0.12:
                ty = f"In{i}"                # nullable self reference
            else:
                ty = input_ref(i)
            d = default_for(ty) if rng.random() < 0.3 else ""
            fs.append(f"  f{j}: {ty}{d}")
        lines.append("input In%d {\n%s\n}" % (i, "\n".join(fs)))

    def args():
        if rng.random() < 0.25:
            return ""
        parts = []
        for j in range(rng.randint(1, 3)):
            if unknown_scalars and UNKNOWN in scalars and rng.random() < 0.15:
                ty = UNKNOWN
            else:
                ty = input_ref(n_input)
            d = default_for(ty) if rng.random() < 0.3 else ""
            parts.append(f"a{j}: {ty}{d}")
        return "(" + ", ".join(parts) + ")"

    lines.append("interface Node { id: ID! }")
    objs = [f"T{i}" for i in range(n_obj)]
    for i, o in enumerate(objs):
        fs = ["  id: ID!"]
        for j in range(rng.randint(1, 3)):
            r = rng.random()
            if r < 0.3:
                ty = rng.choice(objs)
                ty = rng.choice([ty, f"[{ty}!]", f"{ty}!"]) if ty != o else rng.choice([ty, f"[{ty}!]"])
            elif r < 0.4:
                ty = "Node"
            elif r < 0.5 and len(objs) > 1:
                ty = "U"
            else:
                ty = rng.choice(BUILTIN + [s for s in scalars] + list(enums))
            dep = ' @deprecated(reason: "x")' if rng.random() < 0.1 else ""
            fs.append(f"  g{j}{args()}: {ty}{dep}")
        lines.append("type %s implements Node {\n%s\n}" % (o, "\n".join(fs)))
    if len(objs) > 1:
        lines.append(f"union U = {' | '.join(objs)}")

    def out_ref():
        r = rng.random()
        if r < 0.45:
            o = rng.choice(objs)
            return rng.choice([o, f"{o}!", f"[{o}!]!", f"[{o}]"])
        if r < 0.55:
            return "Node"
        if r < 0.65 and len(objs) > 1:
            return rng.choice(["U", "[U!]"])
        return rng.choice(BUILTIN + [s for s in scalars] + list(enums))

    qn, mn = rng.choice([("Query", "Mutation"), ("Query", "Mutation"), ("RootQ", "RootM")])
    names = ["dup", "get", "list", "find", "create", "update", "remove"]
    qfs = rng.sample(names, rng.randint(1, 3))
    has_m = rng.random() < 0.8
    mfs = rng.sample(names, rng.randint(1, 3)) if has_m else []
    if has_m and rng.random() < 0.6 and not set(qfs) & set(mfs):
        mfs[0] = qfs[0]
    lines.append("type %s {\n%s\n}" % (qn, "\n".join(f"  {f}{args()}: {out_ref()}" for f in qfs)))
    if has_m:
        lines.append("type %s {\n%s\n}" % (mn, "\n".join(f"  {f}{args()}: {out_ref()}" for f in mfs)))
    head = f"schema {{ query: {qn}" + (f" mutation: {mn}" if has_m else "") + " }"
    return head + "\n" + "\n".join(lines) + "\n", {"scalars": scalars, "query": qn, "mutation": mn if has_m else None}


# ---- schemas exercising the built-in scalar strategies ---------------------------------------------------------------

SCALAR_DEFAULTS = {"Long": "42", "BigInt": "-7", "Date": '"2020-02-29"', "Time": '"01:02:03Z"',
                   "DateTime": '"2020-02-29T01:02:03Z"', "IP": '"::1"', "IPv4": '"10.0.0.1"', "IPv6": '"1::"',
                   "UUID": '"00000000-0000-4000-8000-000000000000"'}


def scalar_sdl(rng):
    """SDL whose arguments are (almost) only built-in extra scalars, in every input position: plain / non-null argument,
    list item, nested list, input-object field, nested input object, with acceptable schema defaults.
    returns (sdl, info) like rich_sdl"""
    scalars = rng.sample(EXTRA_SCALARS, rng.randint(2, 5))
    if "Long" not in scalars and rng.random() < 0.6:
        scalars.append("Long")
    lines = [f"scalar {s}" for s in scalars]

    def wrap(base, depth=0):
        r = rng.random()
        if r < 0.3 and depth < 2:
            inner = base + ("!" if rng.random() < 0.6 else "")
            base = f"[{inner}]"
            if rng.random() < 0.25:
                base = f"[{base}]"
        if rng.random() < 0.45:
            base += "!"
        return base

    def typed(allow_input):
        if allow_input and rng.random() < 0.3:
            return wrap(f"In{rng.randrange(allow_input)}"), None
        s = rng.choice(scalars) if rng.random() < 0.85 else rng.choice(["Int", "String", "ID"])
        ty = wrap(s)
        d = SCALAR_DEFAULTS.get(s) if ty == s and rng.random() < 0.25 else None
        return ty, d

    n_input = rng.randint(1, 2)
    for i in range(n_input):
        fs = []
        for j in range(rng.randint(1, 3)):
            ty, d = typed(i)
            fs.append(f"  f{j}: {ty}" + (f" = {d}" if d else ""))
        lines.append("input In%d {\n%s\n}" % (i, "\n".join(fs)))

    def args():
        parts = []
        for j in range(rng.randint(1, 3)):
            ty, d = typed(n_input)
            parts.append(f"a{j}: {ty}" + (f" = {d}" if d else ""))
        return "(" + ", ".join(parts) + ")"

    lines.append("type T0 {\n  id: ID!\n  g0%s: %s\n}" % (args(), rng.choice(scalars + ["Int"])))
    qfs = rng.sample(["get", "list", "find", "dup"], rng.randint(1, 2))
    has_m = rng.random() < 0.7
    mfs = rng.sample(["create", "update", "dup"], rng.randint(1, 2)) if has_m else []
    out = lambda: rng.choice(["T0", "T0!", "[T0!]", "Int", rng.choice(scalars)])  # noqa: E731
    lines.append("type Query {\n%s\n}" % "\n".join(f"  {f}{args()}: {out()}" for f in qfs))
    if has_m:
        lines.append("type Mutation {\n%s\n}" % "\n".join(f"  {f}{args()}: {out()}" for f in mfs))
    return "\n".join(lines) + "\n", {"scalars": scalars, "query": "Query", "mutation": "Mutation" if has_m else None}
