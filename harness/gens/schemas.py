"""Shared generators for JSON-Schema fragments and instances + the differential self-check of the Lean reference
semantics (lean/SV/Spec/JsonSchema.lean) against the `jsonschema` library.

Everything random derives from the `random.Random` passed in. Numbers are ints or halves (exactly representable),
never NaN/inf/large floats, and never floats with an integral value (1.0 is indistinguishable from 1 on the wire).
"""
from __future__ import annotations

import json
import re

import jsonschema

from harness.core import Driver, InfraError

STRINGS = ["", "a", "ab", "abc", "0", "12", "true", "null", "é", "a b", "x" * 5]
PATTERNS = ["^a", "b$", "^[a-c]+$", "^\\d+$", "a", "^$", "^.{2}$"]


def gen_number(rng, ints_only=False):
    n = rng.randint(-4, 6)
    if ints_only or rng.random() < 0.75:
        return n
    return n + 0.5


def gen_instance(rng, depth=2):
    r = rng.random()
    if r < 0.1:
        return None
    if r < 0.2:
        return rng.random() < 0.5
    if r < 0.45:
        return gen_number(rng)
    if r < 0.65:
        return rng.choice(STRINGS)
    if depth <= 0:
        return rng.choice([0, "a", None])
    if r < 0.82:
        return [gen_instance(rng, depth - 1) for _ in range(rng.randint(0, 3))]
    return {k: gen_instance(rng, depth - 1) for k in rng.sample(["a", "b", "c", "d"], rng.randint(0, 3))}


def gen_schema(rng, depth=2, draft4=True, defs=None):
    """A schema over the supported keyword fragment. `defs`: names available for local $ref (#/definitions/<n>)."""
    if depth <= 0 or rng.random() < 0.12:
        return rng.choice([{}, {"type": "string"}, {"type": "integer"}, True, {"enum": [1, "a", None]}])
    s: dict = {}
    r = rng.random()
    if defs and r < 0.08:
        return {"$ref": f"#/definitions/{rng.choice(defs)}"}
    kind = rng.choice(["integer", "number", "string", "array", "object", "boolean", "null", "any", "multi", "comb"])
    if kind in ("integer", "number"):
        s["type"] = kind
        if rng.random() < 0.6:
            s["minimum"] = gen_number(rng, kind == "integer" and rng.random() < 0.8)
        if rng.random() < 0.6:
            s["maximum"] = gen_number(rng, kind == "integer" and rng.random() < 0.8)
        if rng.random() < 0.3:
            if draft4:
                if "minimum" in s and rng.random() < 0.6:
                    s["exclusiveMinimum"] = rng.random() < 0.8
                if "maximum" in s and rng.random() < 0.6:
                    s["exclusiveMaximum"] = rng.random() < 0.8
            else:
                if rng.random() < 0.5:
                    s["exclusiveMinimum"] = gen_number(rng)
                if rng.random() < 0.5:
                    s["exclusiveMaximum"] = gen_number(rng)
        if rng.random() < 0.25:
            s["multipleOf"] = rng.choice([1, 2, 3, 0.5])
    elif kind == "string":
        s["type"] = "string"
        if rng.random() < 0.5:
            s["minLength"] = rng.randint(0, 3)
        if rng.random() < 0.5:
            s["maxLength"] = rng.randint(0, 4)
        if rng.random() < 0.35:
            s["pattern"] = rng.choice(PATTERNS)
    elif kind == "array":
        s["type"] = "array"
        if rng.random() < 0.7:
            s["items"] = gen_schema(rng, depth - 1, draft4, defs)
        if rng.random() < 0.4:
            s["minItems"] = rng.randint(0, 2)
        if rng.random() < 0.4:
            s["maxItems"] = rng.randint(0, 3)
        if rng.random() < 0.3:
            s["uniqueItems"] = rng.random() < 0.8
    elif kind == "object":
        s["type"] = "object"
        names = rng.sample(["a", "b", "c", "d"], rng.randint(0, 3))
        if names or rng.random() < 0.3:
            s["properties"] = {n: gen_schema(rng, depth - 1, draft4, defs) for n in names}
        if rng.random() < 0.6:
            s["required"] = rng.sample(["a", "b", "c", "d"], rng.randint(0, 2))
        if rng.random() < 0.4:
            s["additionalProperties"] = rng.choice([True, False, gen_schema(rng, depth - 1, draft4, defs)])
        if rng.random() < 0.15:
            s["minProperties"] = rng.randint(0, 2)
        if rng.random() < 0.15:
            s["maxProperties"] = rng.randint(0, 3)
        if rng.random() < 0.1:
            s["patternProperties"] = {"^[ab]$": gen_schema(rng, depth - 1, draft4, defs)}
    elif kind in ("boolean", "null"):
        s["type"] = kind
    elif kind == "multi":
        s["type"] = rng.sample(["integer", "string", "null", "array", "object", "boolean", "number"], 2)
        if rng.random() < 0.5:
            s["minimum"] = gen_number(rng, True)
        if rng.random() < 0.5:
            s["minLength"] = rng.randint(0, 2)
    elif kind == "comb":
        k = rng.choice(["allOf", "anyOf", "oneOf", "not"])
        if k == "not":
            s["not"] = gen_schema(rng, depth - 1, draft4, defs)
        else:
            s[k] = [gen_schema(rng, depth - 1, draft4, defs) for _ in range(rng.randint(1, 3))]
        if rng.random() < 0.3:
            s["type"] = rng.choice(["integer", "string", "object"])
    if rng.random() < 0.12:
        s["enum"] = [gen_instance(rng, 1) for _ in range(rng.randint(1, 3))]
    if not draft4 and rng.random() < 0.06:
        s["const"] = gen_instance(rng, 1)
    return s


def instance_for(rng, schema, depth=3):
    """A value that is valid for `schema` more often than not (best effort, no guarantee)."""
    if not isinstance(schema, dict) or depth <= 0 or rng.random() < 0.15:
        return gen_instance(rng, 2)
    if "enum" in schema and rng.random() < 0.7:
        return rng.choice(schema["enum"])
    if "const" in schema and rng.random() < 0.7:
        return schema["const"]
    for k in ("anyOf", "oneOf", "allOf"):
        if k in schema and schema[k]:
            return instance_for(rng, rng.choice(schema[k]), depth - 1)
    t = schema.get("type")
    if isinstance(t, list):
        t = rng.choice(t)
    if t in ("integer", "number"):
        lo = schema.get("minimum", -3)
        hi = schema.get("maximum", lo + 6 if isinstance(lo, (int, float)) else 6)
        cands = [lo, hi, lo + 1, hi - 1, (lo + hi) // 2 if isinstance(lo, int) and isinstance(hi, int) else lo, lo - 1, hi + 1]
        v = rng.choice(cands)
        if t == "integer" and isinstance(v, float) and rng.random() < 0.8:
            v = int(v)
        if isinstance(v, float) and v == int(v):
            v = int(v)
        return v
    if t == "string":
        return rng.choice(STRINGS)
    if t == "array":
        n = rng.randint(schema.get("minItems", 0), max(schema.get("minItems", 0), schema.get("maxItems", 3)))
        return [instance_for(rng, schema.get("items", {}), depth - 1) for _ in range(n)]
    if t == "object":
        out = {}
        props = schema.get("properties", {})
        for k in set(schema.get("required", [])) | {p for p in props if rng.random() < 0.6}:
            out[k] = instance_for(rng, props.get(k, {}), depth - 1)
        if rng.random() < 0.2:
            out["zz"] = gen_instance(rng, 1)
        return out
    if t == "boolean":
        return rng.random() < 0.5
    if t == "null":
        return None
    return gen_instance(rng, 2)


def _walk(node, fn):
    fn(node)
    if isinstance(node, dict):
        for v in node.values():
            _walk(v, fn)
    elif isinstance(node, list):
        for v in node:
            _walk(v, fn)


def re_table(schema, instance, root=None):
    """[[pattern, string, bool]] for every (pattern, string) pair that the validator may ask about: patterns found under
    "pattern"/"patternProperties" in the schema (and root), strings and object keys found in the instance."""
    pats, strs = set(), set()

    def sfn(n):
        if isinstance(n, dict):
            p = n.get("pattern")
            if isinstance(p, str):
                pats.add(p)
            pp = n.get("patternProperties")
            if isinstance(pp, dict):
                pats.update(k for k in pp if isinstance(k, str))

    def ifn(n):
        if isinstance(n, str):
            strs.add(n)
        if isinstance(n, dict):
            strs.update(n.keys())

    _walk(schema, sfn)
    if root is not None:
        _walk(root, sfn)
    _walk(instance, ifn)
    out = []
    for p in sorted(pats):
        try:
            c = re.compile(p)
        except re.error:
            continue
        for s in sorted(strs):
            out.append([p, s, c.search(s) is not None])
    return out


def lean_env(schema, instance, *, oas="none", nullable="nullable", root=None):
    return {"oas": oas, "nullable": nullable, "root": root, "re": re_table(schema, instance, root), "fmt": []}


def js_valid(schema, instance, draft4=True, root=None):
    cls = jsonschema.Draft4Validator if draft4 else jsonschema.Draft202012Validator
    if root is not None:
        full = dict(root)
        full["__s"] = schema
        # resolve "#/definitions/x" against the root document
        v = cls({"$ref": "#/__s", **{k: v for k, v in full.items()}}) if False else None
        resolver = jsonschema.RefResolver.from_schema(full)
        return cls(schema, resolver=resolver).is_valid(instance)
    return cls(schema).is_valid(instance)


def selfcheck(chk, n=400):
    """Lean `validF` vs jsonschema on random (schema, instance) pairs; a mismatch is an infrastructure error."""
    rng = chk.rng
    drv = Driver("JsonSchema")
    reqs, cases = [], []
    for i in range(n):
        draft4 = rng.random() < 0.6
        defs = None
        root = None
        if rng.random() < 0.2:
            defs = ["A", "B"]
            root = {"definitions": {"A": gen_schema(rng, 1, draft4), "B": gen_schema(rng, 2, draft4, ["A"])}}
        s = gen_schema(rng, 3, draft4, defs)
        for _ in range(3):
            v = instance_for(rng, s)
            reqs.append(("valid", {"env": lean_env(s, v, root=root), "schema": s, "instance": v}))
            cases.append((s, v, draft4, root))
    outs = drv.batch(reqs)
    import warnings
    agree = 0
    for (s, v, d4, root), o in zip(cases, outs):
        with warnings.catch_warnings():
            warnings.simplefilter("ignore")
            try:
                ref = js_valid(s, v, d4, root)
            except Exception as e:  # ill-formed for the library: outside the comparison
                continue
        if o != ref:
            raise InfraError(f"Lean validF != jsonschema: schema={json.dumps(s)} instance={json.dumps(v)} draft4={d4} "
                             f"root={json.dumps(root)} lean={o} jsonschema={ref}")
        agree += 1
    chk.notes.append(f"spec self-check: Lean validF agreed with jsonschema on {agree} (schema, instance) pairs")
    return agree


if __name__ == "__main__":
    import random
    import sys

    class _C:
        rng = random.Random(int(sys.argv[1]) if len(sys.argv) > 1 else 0)
        notes = []
    print(selfcheck(_C, int(sys.argv[2]) if len(sys.argv) > 2 else 1000), _C.notes)
