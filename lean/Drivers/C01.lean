import SV.Wire
import SV.Spec.JsonSchemaWire
import SV.Model.C01
import SV.Model.C01Regex
import SV.Model.C01Body
import SV.Spec.C01
import SV.Model.C01Prune
open SV SV.Wire SV.Model.C01

def decVariant (j : Json) : Except String Variant :=
  match j with
  | .str "asFound" => pure .asFound
  | .str "repaired" => pure .repaired
  | .null => pure .asFound
  | _ => .error "bad variant"

def lookupUpd (tbl : List (String × Option Nat × Option Nat × String)) (p : String) (lo hi : Option Nat) : String :=
  match tbl.find? (fun (p', lo', hi', _) => p' == p && lo' == lo && hi' == hi) with
  | some (_, _, _, out) => out
  | none => p

def lookupAnch (tbl : List (String × Bool)) (p : String) : Bool :=
  match tbl.find? (fun (p', _) => p' == p) with
  | some (_, b) => b
  | none => false

def decParam (j : Json) : Except String Param := do
  match ← field j "schema" with
  | .obj kvs => return ⟨← asStr (← field j "name"), ← asBool (← field j "required"), kvs⟩
  | _ => .error "parameter schema must be an object"

/-! regex trees: Re = ["eps"] | ["atom", id] | ["cat", r, s] | ["alt", r, s] | ["rep", r, lo, hi] | ["opaque", id]
    Item = ["at", kind] | ["lit", id] | ["cls", id] | ["rep", lo, hi, re] | ["other", re] -/
namespace Rx
open SV.Model.C01Regex

partial def decRe (j : Json) : Except String (Re String) :=
  match j with
  | .arr [.str "eps"] => pure .eps
  | .arr [.str "atom", .str a] => pure (.atom a)
  | .arr [.str "opaque", .str a] => pure (.opaque a)
  | .arr [.str "cat", r, s] => do pure (.cat (← decRe r) (← decRe s))
  | .arr [.str "alt", r, s] => do pure (.alt (← decRe r) (← decRe s))
  | .arr [.str "rep", r, lo, hi] => do pure (.rep (← decRe r) (← asNat lo) (← asNat hi))
  | _ => .error "bad regex tree"

def decKind (j : Json) : Except String AtKind :=
  match j with
  | .str "bos" => pure .bos | .str "bosA" => pure .bosA | .str "eos" => pure .eos | .str "eosZ" => pure .eosZ
  | .str "wordB" => pure .wordB | .str "nonWordB" => pure .nonWordB
  | .str "other" => pure .other
  | _ => .error "bad anchor kind"

def decItem (j : Json) : Except String (Item String) :=
  match j with
  | .arr [.str "at", k] => do pure (.at (← decKind k))
  | .arr [.str "lit", .str a] => pure (.lit a)
  | .arr [.str "cls", .str a] => pure (.cls a)
  | .arr [.str "rep", lo, hi, r] => do pure (.rep (← asNat lo) (← asNat hi) (← decRe r))
  | .arr [.str "other", r] => do pure (.other (← decRe r))
  | _ => .error "bad item"

def encRe : Re String → Json
  | .eps => .arr [.str "eps"]
  | .atom a => .arr [.str "atom", .str a]
  | .opaque a => .arr [.str "opaque", .str a]
  | .cat r s => .arr [.str "cat", encRe r, encRe s]
  | .alt r s => .arr [.str "alt", encRe r, encRe s]
  | .rep r lo hi => .arr [.str "rep", encRe r, jnat lo, jnat hi]

def encKind : AtKind → Json
  | .bos => .str "bos" | .bosA => .str "bosA" | .eos => .str "eos" | .eosZ => .str "eosZ"
  | .wordB => .str "wordB" | .nonWordB => .str "nonWordB" | .other => .str "other"

def encItem : Item String → Json
  | .at k => .arr [.str "at", encKind k]
  | .lit a => .arr [.str "lit", .str a]
  | .cls a => .arr [.str "cls", .str a]
  | .rep lo hi r => .arr [.str "rep", jnat lo, jnat hi, encRe r]
  | .other r => .arr [.str "other", encRe r]

def decV1 (j : Json) : SV.Model.C01Regex.Variant :=
  match j with
  | .str "repaired" => .repaired
  | _ => .asFound

/-- {"zeroMax": "asFound"|"repaired", "atom": …} -/
def decV (j : Json) : Except String RxV :=
  pure { zeroMax := decV1 (j.getD "zeroMax" .null), atom := decV1 (j.getD "atom" .null) }

end Rx

/-- cfg JSON: {"vForbid","vLen","nn","resp","updQ","upd":[[p,lo|null,hi|null,out]],"anchItems":[[p,items]]}
    `anch` (what `is_anchored` answers for the pattern text `p`) is the model's `isAnchored` on the parse tree of `p` -/
def decCfg (j : Json) : Except String Cfg := do
  let upd ← (← asArr (j.getD "upd" (.arr []))).mapM fun t => match t with
    | .arr [.str p, lo, hi, .str out] => do pure (p, ← asOpt asNat lo, ← asOpt asNat hi, out)
    | _ => .error "bad upd entry"
  let anch ← (← asArr (j.getD "anchItems" (.arr []))).mapM fun t => match t with
    | .arr [.str p, items] => do pure (p, SV.Model.C01Regex.isAnchored (← asList Rx.decItem items))
    | _ => .error "bad anchItems entry"
  return { vForbid := ← decVariant (optField j "vForbid"), vLen := ← decVariant (optField j "vLen"),
           nn := ← asStr (j.getD "nn" (.str "nullable")),
           resp := ← asBool (j.getD "resp" (.bool false)), updQ := ← asBool (j.getD "updQ" (.bool true)),
           upd := lookupUpd upd, anch := lookupAnch anch }


namespace Body
open SV.Model.C01Body

def decFactory (j : Json) : Except String Factory :=
  match j with
  | .str "positive" => pure .positive
  | .str "negative" => pure .negative
  | _ => .error "bad factory"

def decKind (j : Json) : Except String AltKind :=
  match j with
  | .str "v3" => pure .v3 | .str "v2body" => pure .v2body | .str "v2form" => pure .v2form
  | _ => .error "bad alternative kind"

/-- {"kind","mediaType","required","schema":{…},"formParams":[{name,required,schema}],"supported":[…]} -/
def decAlt (nn : String) (j : Json) : Except String Alt := do
  let schema ← match j.getD "schema" (.obj []) with
    | .obj kvs => pure kvs
    | _ => .error "alternative schema must be an object"
  let supported ← asList asStr (j.getD "supported" (.arr []))
  let ps ← asList decParam (j.getD "formParams" (.arr []))
  return { kind := ← decKind (← field j "kind"), mediaType := ← asStr (← field j "mediaType"),
           required := ← asBool (j.getD "required" (.bool false)), schema := schema,
           formParams := ps.map fun p => { p with schema := filterKeywords supported nn p.schema } }

def encStrat : Strat → Json
  | .custom mt => jobj [("custom", .str mt)]
  | .built s mt f ns => jobj [("schema", s), ("mediaType", .str mt),
                              ("factory", .str (match f with | .positive => "positive" | .negative => "negative")),
                              ("orNotSet", .bool ns)]

end Body

def fuelOf (a : Json) : Nat := match a.getD "fuel" .null with | .num m 0 => m.toNat | _ => 64

def handle : Handler := fun op a => do
  match op with
  | "valid" => SV.Spec.JsonSchema.handleValid a
  | "prune" =>
    -- {variant, required: [..], props: [{name, hasRef, singleComb}]} → per property "keep" | "never" | "absent"
    let v ← (match ← asStr (← field a "variant") with
      | "asFound" => pure SV.Model.C01Prune.Variant.asFound | "repaired" => pure SV.Model.C01Prune.Variant.repaired
      | o => .error s!"variant {o}")
    let required ← asList asStr (← field a "required")
    let props ← asList (fun j => do
      return (⟨← asStr (← field j "name"), ← asBool (← field j "hasRef"), ← asBool (← field j "singleComb")⟩ :
        SV.Model.C01Prune.PropIn)) (← field a "props")
    return .arr (props.map fun p => match SV.Model.C01Prune.cleanOne v required p with
      | some .keep => Json.str "keep" | some .never => Json.str "never" | none => Json.str "absent")
  | "conv" =>
    -- {cfg, schema, fuel} → transform(schema, to_json_schema, …)
    let cfg ← decCfg (a.getD "cfg" (.obj []))
    return transform cfg (fuelOf a) (← field a "schema")
  | "location" =>
    -- {cfg, location, params:[{name, required, schema}], fuel} → schema handed to the strategy factory
    let cfg ← decCfg (a.getD "cfg" (.obj []))
    let loc ← asStr (← field a "location")
    let ps ← asList decParam (← field a "params")
    -- `from_open_api_to_json_schema`: keep supported keywords (tuple read from the live parameter class), x-*, nullable
    let supported ← asList asStr (← field a "supported")
    let ps := ps.map fun p => { p with schema := filterKeywords supported cfg.nn p.schema }
    let s := schemaForLocation cfg (fuelOf a) loc ps
    return jobj [("schema", .obj s), ("strategy_schema", .obj (injectHeaderFormat loc s))]
  | "regex" =>
    -- {v, items, lo, hi} → rewritten parse tree | "InternalError"
    let items ← asList Rx.decItem (← field a "items")
    let lo ← asOpt asNat (optField a "lo")
    let hi ← asOpt asNat (optField a "hi")
    match SV.Model.C01Regex.updateQuantifier (← Rx.decV (optField a "v")) items lo hi with
    | .ok out w => return jobj [("ok", .arr (out.map Rx.encItem)), ("rewrote", .bool w)]
    | .internalError => return .str "InternalError"
  | "merge" =>
    -- {v, vLen, sameText, items, lo, hi} → {"uq": update_quantifier on the tree, "merge": what update_pattern_in_schema leaves
    -- ({ok: items, keep: bool} | "InternalError"), "anchored": is_anchored on the same tree}
    let items ← asList Rx.decItem (← field a "items")
    let lo ← asOpt asNat (optField a "lo")
    let hi ← asOpt asNat (optField a "hi")
    let v ← Rx.decV (optField a "v")
    let uq := match SV.Model.C01Regex.updateQuantifier v items lo hi with
      | .ok out w => jobj [("ok", .arr (out.map Rx.encItem)), ("rewrote", .bool w)]
      | .internalError => .str "InternalError"
    let mg := match SV.Model.C01Regex.mergeLengths v (Rx.decV1 (optField a "vLen"))
        (← asBool (a.getD "sameText" (.bool false))) items lo hi with
      | .ok m => jobj [("ok", .arr (m.items.map Rx.encItem)), ("keep", .bool m.keepLengths)]
      | .internalError => .str "InternalError"
    return jobj [("uq", uq), ("merge", mg), ("anchored", .bool (SV.Model.C01Regex.isAnchored items))]
  | "body" =>
    -- {cfg, fuel, custom:[media types], alts:[…], history:[[idx, factory]]} → the strategy every request is answered with
    let cfg ← decCfg (a.getD "cfg" (.obj []))
    let alts ← asList (Body.decAlt cfg.nn) (← field a "alts")
    let custom ← asList asStr (a.getD "custom" (.arr []))
    let hist ← (← asArr (← field a "history")).mapM fun t => match t with
      | .arr [i, f] => do
        let idx ← asNat i
        match alts[idx]? with
        | some alt => pure ({ idx := idx, alt := alt, factory := ← Body.decFactory f } : SV.Model.C01Body.BodyReq)
        | none => .error "alternative index out of range"
      | _ => .error "bad history entry"
    return .arr ((SV.Model.C01Body.runBody cfg (fuelOf a) (fun mt => custom.contains mt) [] hist).map Body.encStrat)
  | "frag" =>
    -- {nn, schema, f, c} → is the schema in the fragment of C01_nullable_exact (with these fuels)?
    let nn ← asStr (a.getD "nn" (.str "nullable"))
    return .bool (SV.Spec.C01.Frag nn (← asNat (← field a "f")) (← asNat (← field a "c")) (← field a "schema"))
  | _ => .error s!"unknown op {op}"

def main : IO Unit := run handle
