import SV.Wire
import SV.Spec.C02
import SV.Spec.C02Explicit
import SV.Spec.JsonSchemaWire
open SV SV.Wire SV.Model.C02 SV.Spec.C02 SV.Spec.JsonSchema

def decLoc : Json → Except String Loc
  | .str "query" => .ok .query
  | .str "path_parameters" => .ok .path
  | .str "path" => .ok .path
  | .str "headers" => .ok .header
  | .str "header" => .ok .header
  | .str "cookies" => .ok .cookie
  | .str "cookie" => .ok .cookie
  | .str "body" => .ok .body
  | _ => .error "bad location"

def encLoc : Loc → Json
  | .query => .str "query" | .path => .str "path_parameters" | .header => .str "headers"
  | .cookie => .str "cookies" | .body => .str "body"

def decMode : Json → Except String Mode
  | .str "positive" => .ok .positive
  | .str "negative" => .ok .negative
  | _ => .error "bad mode"

def encMode : Mode → Json
  | .positive => .str "positive" | .negative => .str "negative"

def decVariant : Json → Except String Variant
  | .str "asFound" => .ok .asFound
  | .str "repaired" => .ok .repaired
  | _ => .error "bad variant"

def decParam : Json → Except String Param
  | .arr [.str n, s, .bool c] => .ok ⟨n, s, c⟩
  | _ => .error "bad param"

def decBodyItem : Json → Except String BodyItem
  | .arr [.bool c, .bool r] => .ok ⟨c, r⟩
  | _ => .error "bad body item"

def decOp (j : Json) : Except String Op := do
  return ⟨← asList decParam (← field j "path"), ← asList decParam (← field j "header"),
          ← asList decParam (← field j "cookie"), ← asList decParam (← field j "query"),
          ← asList decBodyItem (← field j "body")⟩

def optJson : Json → Option Json
  | .null => none
  | x => some x

/-- {"path": v|null, "header": …, "cookie": …, "query": …, "bodyIdx": n, "body": {"set": bool, "value": v}} -/
def decDraws (j : Json) : Except String Draws := do
  let b ← field j "body"
  let set ← asBool (← field b "set")
  return ⟨optJson (optField j "path"), optJson (optField j "header"), optJson (optField j "cookie"),
          optJson (optField j "query"), ← asNat (← field j "bodyIdx"), if set then some (optField b "value") else none⟩

def encOutcome : Outcome → Json
  | .skip => .str "skip"
  | .reject => .str "reject"
  | .case c => jobj [("mode", encMode c.mode),
                     ("components", .arr (c.components.map fun lm => .arr [encLoc lm.1, encMode lm.2]))]

def encResult : MResult → Json
  | .success => .str "SUCCESS" | .failure => .str "FAILURE" | .keyError => .str "KeyError"

def decResult : Json → Except String MResult
  | .str "SUCCESS" => .ok .success
  | .str "FAILURE" => .ok .failure
  | .str "KeyError" => .ok .keyError
  | _ => .error "bad result"

def asDict : Json → Except String Dict
  | .obj kvs => .ok kvs
  | _ => .error "expected object"

def decCtx (j : Json) : Except String Ctx := do
  return ⟨← decLoc (← field j "loc"), ← asBool (← field j "form")⟩

def encMut (r : MResult × Dict) : Json := jobj [("result", encResult r.1), ("schema", .obj r.2)]

/-- well-formed `type` (a name or a list of names) — outside this the Python code may raise -/
def typeWellFormed (d : Dict) : Bool :=
  match Json.lookup "type" d with
  | none => true
  | some (.str _) => true
  | some (.arr ts) => ts.all Json.isStr
  | some _ => false

def tableLookup (tbl : List (Loc × Bool)) (l : Loc) : Bool :=
  match tbl.lookup l with
  | some b => b
  | none => false

/-- null | [[name, value], …] -/
def decExplicitDict : Json → Except String (Option Dict)
  | .null => .ok none
  | j => do return some (← asPairs asStr (fun x => .ok x) j)

/-- {"path": null|pairs, "header": …, "cookie": …, "query": …, "body": {"set": bool, "value": v}} -/
def decExplicits (j : Json) : Except String Explicits := do
  let b ← field j "body"
  let set ← asBool (← field b "set")
  return ⟨← decExplicitDict (optField j "path"), ← decExplicitDict (optField j "header"),
          ← decExplicitDict (optField j "cookie"), ← decExplicitDict (optField j "query"),
          if set then some (optField b "value") else none⟩

def decReqs (j : Json) : Except String Reqs := do
  return ⟨← asList asStr (← field j "path"), ← asList asStr (← field j "header"),
          ← asList asStr (← field j "cookie"), ← asList asStr (← field j "query")⟩

def decVariants (j : Json) : Except String Variants := do
  return ⟨← decVariant (← field j "labels"), ← decVariant (← field j "exclusion"), ← decVariant (← field j "unchanged")⟩

def encStrat : Strat → Json
  | .none => .str "none"
  | .factory m ps req => jobj [("factory", encMode m), ("props", .arr (ps.map fun p => .str p.name)),
                               ("required", .arr (req.map .str))]

def encOptValue : Option Json → Json
  | some x => jobj [("set", .bool true), ("value", x)]
  | none => jobj [("set", .bool false), ("value", .null)]

def decBodyItemM : Json → Except String BodyItemM
  | .arr [.bool c, .bool r, .bool k] => .ok ⟨⟨c, r⟩, k⟩
  | _ => .error "bad body item (with custom flag)"

def encBodyStrat : BodyStrat → Json
  | .custom => .str "custom"
  | .factory m b => jobj [("factory", encMode m), ("orAbsent", .bool b)]

def decTable (j : Json) : Except String (List (Loc × Bool)) := asPairs decLoc asBool j

def handle : Handler := fun op a => do
  match op with
  | "valid" => handleValid a
  | "labels" =>
    -- {variant, op, only, mode, draws} → outcome (+ spec-side facts about the operation)
    let v ← decVariant (← field a "variant")
    let o ← decOp (← field a "op")
    let only ← asBool (← field a "only")
    let mode ← decMode (← field a "mode")
    let d ← decDraws (← field a "draws")
    return jobj [("outcome", encOutcome (openapiCases v o only mode d)),
                 ("negatable", .bool (negatable o)),
                 ("generators", .arr ((paramLocs.map fun l => .arr [encLoc l, encMode (generatorFor o mode l)]))),
                 ("bodyGenerator", match (bodyContainer o mode d).generator with | some g => encMode g | none => .null)]
  | "labelsX" =>
    -- {variants, op, reqs, explicit, only, mode, draws} → outcome, values, strategies (+ spec-side facts)
    let vs ← decVariants (← field a "variants")
    let o ← decOp (← field a "op")
    let rq ← decReqs (← field a "reqs")
    let ex ← decExplicits (← field a "explicit")
    let only ← asBool (← field a "only")
    let mode ← decMode (← field a "mode")
    let d ← decDraws (← field a "draws")
    let cs := containersX vs o ex mode d
    return jobj [("outcome", encOutcome (openapiCasesX vs o ex only mode d)),
                 ("values", .arr (cs.map fun c => .arr [encLoc c.loc, encOptValue c.value])),
                 ("generators", .arr (cs.map fun c => .arr [encLoc c.loc, match c.generator with | some g => encMode g | none => .null])),
                 ("strategies", .arr (paramLocs.map fun l => .arr [encLoc l, encStrat (strategyFor vs.exclusion o rq ex mode l)])),
                 ("negatable", .bool (negatableX vs.exclusion o rq ex)),
                 ("allSupplied", .arr (paramLocs.map fun l => .arr [encLoc l, .bool (allSupplied o ex l)])),
                 ("negativeFactoryOk", .arr (paramLocs.map fun l => .arr [encLoc l, .bool (
                    match strategyFor vs.exclusion o rq ex mode l with
                    | .factory .negative rem _ => negatableParams l rem
                    | _ => true)]))]
  | "bodyStrat" =>
    -- {variant, mode, items: [[canNeg, required, custom]]} → candidates, body generator, strategy per candidate
    let v ← decVariant (← field a "variant")
    let mode ← decMode (← field a "mode")
    let items ← asList decBodyItemM (← field a "items")
    let cg := bodyCandidatesM v mode items
    return jobj [("generator", encMode cg.2),
                 ("candidates", .arr (cg.1.map fun it => .arr [.bool it.item.canNeg, .bool it.item.required, .bool it.custom])),
                 ("strategies", .arr (cg.1.map fun it => encBodyStrat (bodyStrategyM it cg.2))),
                 ("negativeFromNegativeFactory", .bool (cg.2 != .negative ||
                    cg.1.all fun it => bodyStrategyM it .negative == .factory .negative false))]
  | "stratKey" =>
    -- {factory, loc, exclude: [names]} → the cache key of get_parameters_strategy
    let k := stratKey (← decMode (← field a "factory")) (← decLoc (← field a "loc")) (← asList asStr (← field a "exclude"))
    return .arr [encMode k.factory, encLoc k.loc, .arr (k.exclude.map .str)]
  | "labelsSound" =>
    -- {mode, components: [[loc, mode]], present: [[loc, bool]], valid: [[loc, bool]], absentOk: [[loc, bool]]}
    let mode ← decMode (← field a "mode")
    let comps ← asPairs decLoc decMode (← field a "components")
    let present ← decTable (← field a "present")
    let valid ← decTable (← field a "valid")
    let absent ← decTable (← field a "absentOk")
    let locs := [Loc.query, .path, .header, .cookie, .body]
    let c : Case := ⟨mode, comps, locs.map fun l => (l, if tableLookup present l then some .null else none)⟩
    return .bool (labelsSound (fun l _ => tableLookup valid l) (tableLookup absent) c)
  | "part" =>
    -- {env, schema, value, fuel?} → raw validity and validity through the wire spelling
    let env ← decEnv (a.getD "env" (.obj []))
    let fuel := match a.getD "fuel" .null with | .num m 0 => m.toNat | _ => 64
    let s := a.getD "schema" .null
    let x := a.getD "value" .null
    return jobj [("raw", .bool (validF fuel env s x)), ("coerced", .bool (partConforms fuel env s x))]
  | "removeRequired" =>
    let d ← asDict (← field a "schema")
    if !typeWellFormed d then .error "ill-formed type"
    return encMut (removeRequired d (← asStr (← field a "name")))
  | "changeType" =>
    let d ← asDict (← field a "schema")
    if !typeWellFormed d then .error "ill-formed type"
    let ctx ← decCtx (← field a "ctx")
    -- `choice`: the drawn `new_type`, or null when the real call made no draw at all.  Where the model reaches the draw
    -- (two or more candidates) a missing draw is not "failure": it is reported as such
    let choiceJ := optField a "choice"
    let drew := match choiceJ with | .null => false | _ => true
    let choice ← (match choiceJ with | .null => pure "" | j => asStr j)
    let r := changeType ctx d choice
    let reachesDraw := dhas "type" d && !ctx.form &&
      !((getType d).contains "string" && (isHeaderLoc ctx.loc || ctx.loc == .path || ctx.loc == .query)) &&
      (typeCandidates ctx d).length ≥ 2
    return jobj [("result", if reachesDraw && !drew then Json.str "DRAW-EXPECTED" else encResult r.1),
                 ("schema", .obj r.2),
                 ("candidates", .arr ((typeCandidates ctx d).map .str))]
  | "negate" =>
    let d ← asDict (← field a "schema")
    let ctx ← decCtx (← field a "ctx")
    return encMut (negateConstraints (← decVariant (← field a "variant")) ctx (← asBool (← field a "canNeg")) d (← asStr (← field a "candidate"))
                    (← asList asStr (← field a "enabled")))
  | "changeProperties" =>
    let d ← asDict (← field a "schema")
    if !typeWellFormed d then .error "ill-formed type"
    let props ← asDict (← field a "props")
    let first ← asOpt asStr (optField a "first")
    return encMut (changeProperties d props first)
  | "changeItems" =>
    let d ← asDict (← field a "schema")
    if !typeWellFormed d then .error "ill-formed type"
    return encMut (changeItemsObject d (← field a "items") (← decResult (← field a "result")))
  | "mutateTail" =>
    let d ← asDict (← field a "schema")
    let nk ← asDict (← field a "nonKeywords")
    let ctx ← decCtx (← field a "ctx")
    let results ← asList decResult (← field a "results")
    match mutateTail ctx results d nk (← asBool (← field a "extraHeaders")) with
    | none => return .str "reject"
    | some s => return jobj [("schema", .obj s)]
  | _ => .error s!"unknown op {op}"

def main : IO Unit := run handle
