import SV.Wire
import SV.Spec.JsonSchemaWire
import SV.Spec.C03
import SV.Model.C03Cases
import SV.Spec.C03Cases
open SV SV.Wire SV.Model.C03 SV.Spec.C03 SV.Spec.JsonSchema

/-- ordered objects travel as {"$o": [[k, v], …]} (the wire layer sorts plain objects) -/
partial def decOrd : Json → Json
  | .obj [("$o", .arr pairs)] =>
    .obj (pairs.filterMap fun p => match p with
      | .arr [.str k, v] => some (k, decOrd v)
      | _ => none)
  | .obj kvs => .obj (kvs.map fun (k, v) => (k, decOrd v))
  | .arr xs => .arr (xs.map decOrd)
  | j => j

partial def encOrd : Json → Json
  | .obj kvs => .obj [("$o", .arr (kvs.map fun (k, v) => .arr [.str k, encOrd v]))]
  | .arr xs => .arr (xs.map encOrd)
  | j => j

def decVariant (j : Json) : Except String Variant :=
  match j with
  | .str "asFound" => .ok .asFound
  | .str "repaired" => .ok .repaired
  | .null => .ok .asFound
  | _ => .error "bad variant"

def decAns : Json → Except String Ans
  | .obj [("raise", _)] => .ok .raise
  | .obj [("val", v)] => .ok (.val (decOrd v))
  | _ => .error "bad oracle answer"

def encMode : Mode → Json
  | .positive => .str "positive"
  | .negative => .str "negative"

def encGV (g : GV) : Json :=
  jobj [("value", encOrd g.value), ("mode", encMode g.mode), ("desc", .str g.desc.render),
        ("loc", match g.loc with | some p => .str ("/" ++ "/".intercalate p) | none => .null),
        ("param", match g.param with | some p => .str p | none => .null)]

def encReq : Req → Json
  | .schema s => jobj [("schema", encOrd s)]
  | .strategy t a => jobj [("strategy", .str t), ("arg", encOrd a)]

def encCall (c : Call) : Json :=
  jobj [("req", encReq c.req), ("ans", match c.ans with | .val v => jobj [("val", encOrd v)] | .raise => jobj [("raise", .bool true)])]

def encStatus : Status → Json
  | .ok => .str "ok" | .raised => .str "raised" | .starved => .str "starved" | .unsupported => .str "unsupported"

def encR (r : R) : Json :=
  jobj [("out", .arr (r.out.map encGV)), ("calls", .arr (r.calls.map encCall)), ("status", encStatus r.status),
        ("left", Wire.jnat r.st.orc.length)]

def kvsOf (j : Json) : Except String (List (String × Json)) :=
  match decOrd j with
  | .obj kvs => .ok kvs
  | _ => .error "schema is not an object"

def decMode : Json → Except String Mode
  | .str "positive" => .ok .positive
  | .str "negative" => .ok .negative
  | _ => .error "bad mode"

def decDescToken (t : String) : Desc :=
  if t.startsWith "missing-required:" then .missingRequired ((t.drop 17).toString) else .other t

def decLV (j : Json) : Except String LV := do
  return ⟨← decMode (← field j "mode"), decDescToken (← asStr (← field j "desc")), ← asOpt asStr (optField j "param")⟩

def decParam (j : Json) : Except String ParamIn := do
  return ⟨← asStr (← field j "location"), ← asStr (← field j "name"), ← asBool (← field j "required"),
          ← asList decLV (← field j "values")⟩

def decBody (j : Json) : Except String BodyIn := do
  return ⟨← asStr (← field j "mediaType"), ← asList decLV (← field j "values")⟩

def encSlots (xs : List Slot) : Json := .arr (xs.map fun s => .arr [.str s.name, encMode s.mode])

def encContent : Content → Json
  | .slots xs => jobj [("slots", encSlots xs)]
  | .duplicated xs n => jobj [("slots", encSlots xs), ("duplicated", .str n)]
  | .removed xs n => jobj [("slots", encSlots xs), ("removed", .str n)]
  | .generated m => jobj [("generated", encMode m)]
  | .bodyValue m => jobj [("body", encMode m)]

def encCase (c : Case) : Json :=
  jobj [("method", match c.method with | some m => .str m | none => .null), ("mode", encMode c.mode),
        ("comps", .obj (c.comps.map fun (k, m) => (k.render, encMode m))),
        ("contents", .obj (c.contents.map fun (k, x) => (k.render, encContent x))),
        ("desc", .str c.desc.render),
        ("parameter", match c.parameter with | some p => .str p | none => .null),
        ("parameter_location", match c.parameterLocation with | some p => .str p | none => .null),
        ("spec", jobj [("label_ok", .bool (caseLabelOk c)), ("comps_ok", .bool (compsOk c))])]

def descOfToken (t : String) : Option Desc :=
  match t with
  | "greater-than-maximum" => some .greaterThanMaximum
  | "smaller-than-minimum" => some .smallerThanMinimum
  | "non-multiple" => some .nonMultiple
  | "incorrect-type" => some .incorrectType
  | "invalid-enum" => some .invalidEnum
  | "smaller-than-min-length" => some .smallerThanMinLength
  | "larger-than-max-length" => some .largerThanMaxLength
  | "not-matching-pattern" => some .notMatchingPattern
  | "not-matching-format" => some .notMatchingFormat
  | _ => none

def handle : Handler := fun op a => do
  match op with
  | "posnum" =>
    -- {schema, orc:[…], vz, vx, vc}
    let kvs ← kvsOf (← field a "schema")
    let orc ← asList decAns (a.getD "orc" (.arr []))
    let vz ← decVariant (a.getD "vz" .null)
    let vx ← decVariant (a.getD "vx" .null)
    let vc ← decVariant (a.getD "vc" .null)
    let r := positiveNumber vz vx vc kvs { orc := orc, seen := [] }
    let vs ← asArr (a.getD "judge" (.arr []))
    match encR r with
    | .obj fields => return .obj (fields ++ [("valid", .arr (vs.map fun v => .bool (validF 64 {} (.obj kvs) (decOrd v))))])
    | j => return j
  | "cover" =>
    -- {schema, orc:[…], vz, vx, vc, vl, va, vt, vm, vf, location, pos, neg, fuel?}   (variant sites: see `Vs`)
    let schema := decOrd (← field a "schema")
    let orc ← asList decAns (a.getD "orc" (.arr []))
    let vs : Vs := ⟨← decVariant (a.getD "vz" .null), ← decVariant (a.getD "vx" .null), ← decVariant (a.getD "vc" .null),
                    ← decVariant (a.getD "vl" .null), ← decVariant (a.getD "va" .null), ← decVariant (a.getD "vt" .null),
                    ← decVariant (a.getD "vm" .null), ← decVariant (a.getD "vf" .null)⟩
    let loc ← asStr (a.getD "location" (.str "body"))
    let pos ← asBool (a.getD "pos" (.bool true))
    let neg ← asBool (a.getD "neg" (.bool true))
    let fuel := match a.getD "fuel" .null with | .num m 0 => m.toNat | _ => 12
    return encR (coverTop fuel vs ⟨loc, pos, neg, []⟩ schema { orc := orc, seen := [] })
  | "cases" =>
    let vb ← decVariant (a.getD "vb" .null)
    let inp : OpIn := ⟨← asList decParam (← field a "params"), ← asBool (← field a "hasBody"),
      ← asList decBody (← field a "bodies"), ← asList asStr (← field a "methods"), ← asBool (← field a "pos"),
      ← asBool (← field a "neg"), ← asList (asList decLV) (← field a "negCalls")⟩
    match iterCases vb inp with
    | none => return jobj [("error", .str "KeyError")]
    | some cs => return jobj [("cases", .arr (cs.map encCase))]
  | "judge" =>
    -- {env, schema, values:[…], fuel?} → [bool]
    let env ← decEnv (a.getD "env" (.obj []))
    let fuel := match a.getD "fuel" .null with | .num m 0 => m.toNat | _ => 64
    let schema := decOrd (a.getD "schema" .null)
    let vs ← asArr (a.getD "values" (.arr []))
    match a.get? "descs" with
    | some (.arr ds) =>
      -- [[valid, violatesAsDescribed | null]] (the second only for top-level negative values of an object schema)
      return .arr ((vs.zip ds).map fun (v, d) =>
        let v := decOrd v
        let dflag : Json := match d, schema with
          | .str t, .obj kvs => (match descOfToken t with
            | some dd => .bool (violatesAsDescribed env kvs ⟨v, .negative, dd, none, none⟩)
            | none => .null)
          | _, _ => .null
        .arr [.bool (validF fuel env schema v), dflag])
    | _ => return .arr (vs.map fun v => .bool (validF fuel env schema (decOrd v)))
  | "valid" =>
    let env ← decEnv (a.getD "env" (.obj []))
    let fuel := match a.getD "fuel" .null with | .num m 0 => m.toNat | _ => 64
    return .bool (validF fuel env (decOrd (a.getD "schema" .null)) (decOrd (a.getD "instance" .null)))
  | _ => .error s!"unknown op {op}"

/-- the harness splits the answers with Python's `splitlines`, which also breaks on U+0085, U+2028 … : answer in ASCII -/
def hex4 (n : Nat) : String :=
  let d (k : Nat) : Char := (Nat.toDigits 16 (k % 16)).headD '0'
  String.ofList [d (n / 4096), d (n / 256), d (n / 16), d n]

def escapeNonAscii (s : String) : String :=
  s.foldl (fun acc c =>
    let n := c.toNat
    if n < 127 then acc.push c
    else if n < 65536 then acc ++ "\\u" ++ hex4 n
    else
      let m := n - 65536
      acc ++ "\\u" ++ hex4 (55296 + m / 1024) ++ "\\u" ++ hex4 (56320 + m % 1024)) ""

partial def loop (stdin stdout : IO.FS.Stream) : IO Unit := do
  let line ← stdin.getLine
  if line.isEmpty then return ()
  let t := line.trimAscii.toString
  if t.isEmpty then loop stdin stdout else
  stdout.putStrLn (escapeNonAscii (answer handle t))
  stdout.flush
  loop stdin stdout

def main : IO Unit := do loop (← IO.getStdin) (← IO.getStdout)
