import SV.Wire
import SV.Spec.JsonSchemaWire
import SV.Spec.C03
import SV.Model.C03Cases
import SV.Spec.C03Cases
import SV.Spec.C03Doc
open SV SV.Wire SV.Model.C03 SV.Spec.C03 SV.Spec.JsonSchema

/-- ordered objects travel as {"$o": [[k, v], …]} (the wire layer sorts plain objects) -/
partial def decOrd : Json → Json
  | .obj [("$o", .arr pairs)] =>
    .obj (pairs.filterMap fun p => match p with
      | .arr [.str k, v] => some (k, decOrd v)
      | _ => none)
  | .obj kvs => .obj (kvs.map fun (k, v) => (k, decOrd v))
  | .arr xs => .arr (xs.map decOrd)
  | j => j

partial def encOrd : Json → Json
  | .obj kvs => .obj [("$o", .arr (kvs.map fun (k, v) => .arr [.str k, encOrd v]))]
  | .arr xs => .arr (xs.map encOrd)
  | j => j

def decVariant (j : Json) : Except String Variant :=
  match j with
  | .str "asFound" => .ok .asFound
  | .str "repaired" => .ok .repaired
  | .null => .ok .asFound
  | _ => .error "bad variant"

def decAns : Json → Except String Ans
  | .obj [("raise", _)] => .ok .raise
  | .obj [("val", v)] => .ok (.val (decOrd v))
  | _ => .error "bad oracle answer"

def encMode : Mode → Json
  | .positive => .str "positive"
  | .negative => .str "negative"

def encGV (g : GV) : Json :=
  jobj [("value", encOrd g.value), ("mode", encMode g.mode), ("desc", .str g.desc.render),
        ("loc", match g.loc with | some p => .str ("/" ++ "/".intercalate p) | none => .null),
        ("param", match g.param with | some p => .str p | none => .null)]

def encReq : Req → Json
  | .schema s => jobj [("schema", encOrd s)]
  | .strategy t a => jobj [("strategy", .str t), ("arg", encOrd a)]

def encCall (c : Call) : Json :=
  jobj [("req", encReq c.req), ("ans", match c.ans with | .val v => jobj [("val", encOrd v)] | .raise => jobj [("raise", .bool true)])]

def encStatus : Status → Json
  | .ok => .str "ok" | .raised => .str "raised" | .starved => .str "starved" | .unsupported => .str "unsupported"

def encR (r : R) : Json :=
  jobj [("out", .arr (r.out.map encGV)), ("calls", .arr (r.calls.map encCall)), ("status", encStatus r.status),
        ("left", Wire.jnat r.st.orc.length)]

def kvsOf (j : Json) : Except String (List (String × Json)) :=
  match decOrd j with
  | .obj kvs => .ok kvs
  | _ => .error "schema is not an object"

def decMode : Json → Except String Mode
  | .str "positive" => .ok .positive
  | .str "negative" => .ok .negative
  | _ => .error "bad mode"

def decDescToken (t : String) : Desc :=
  if t.startsWith "missing-required:" then .missingRequired ((t.drop 17).toString) else .other t

def decLV (j : Json) : Except String LV := do
  return ⟨← decMode (← field j "mode"), decDescToken (← asStr (← field j "desc")), ← asOpt asStr (optField j "param")⟩

def decParam (j : Json) : Except String ParamIn := do
  return ⟨← asStr (← field j "location"), ← asStr (← field j "name"), ← asBool (← field j "required"),
          ← asList decLV (← field j "values")⟩

def decBody (j : Json) : Except String BodyIn := do
  return ⟨← asStr (← field j "mediaType"), ← asList decLV (← field j "values")⟩

def encSlots (xs : List Slot) : Json := .arr (xs.map fun s => .arr [.str s.name, encMode s.mode])

def encContent : Content → Json
  | .slots xs => jobj [("slots", encSlots xs)]
  | .duplicated xs n => jobj [("slots", encSlots xs), ("duplicated", .str n)]
  | .removed xs n => jobj [("slots", encSlots xs), ("removed", .str n)]
  | .generated m => jobj [("generated", encMode m)]
  | .bodyValue m => jobj [("body", encMode m)]

def encCase (c : Case) : Json :=
  jobj [("method", match c.method with | some m => .str m | none => .null), ("mode", encMode c.mode),
        ("comps", .obj (c.comps.map fun (k, m) => (k.render, encMode m))),
        ("contents", .obj (c.contents.map fun (k, x) => (k.render, encContent x))),
        ("desc", .str c.desc.render),
        ("parameter", match c.parameter with | some p => .str p | none => .null),
        ("parameter_location", match c.parameterLocation with | some p => .str p | none => .null),
        ("spec", jobj [("label_ok", .bool (caseLabelOk c)), ("comps_ok", .bool (compsOk c))])]

/-! document wire format: DECL = [name, loc, required]; ITEM = {keys:[…], shared:[DECL], own:[[method,[DECL]]]};
    DOC = {entry: {inline: ITEM} | {ref: name}, pathItems: [[name, ITEM]]} -/
def decDecl : Json → Except String Decl
  | .arr [.str n, .str l, .bool r] => .ok ⟨n, l, r⟩
  | _ => .error "bad parameter declaration"

def decItem (j : Json) : Except String PathItem := do
  return ⟨← asList asStr (← field j "keys"), ← asList decDecl (← field j "shared"),
          ← asPairs asStr (asList decDecl) (← field j "own")⟩

def decDoc (j : Json) : Except String Doc := do
  let e ← field j "entry"
  let entry ← match e.get? "ref" with
    | some r => do pure (PathEntry.ref (← asStr r))
    | none => do pure (PathEntry.inline (← decItem (← field e "inline")))
  return ⟨entry, ← asPairs asStr decItem (← field j "pathItems")⟩

def encCaseDoc (d : Doc) (opm : String) (c : Case) : Json :=
  match encCase c with
  | .obj kvs => .obj (kvs ++ [("spec_doc", jobj [("label_ok", .bool (caseLabelOkDoc d opm c)),
                                                  ("desc_ok", .bool (descOkDoc d opm c))])])
  | j => j

def decKind (s : String) : Except String Kind :=
  match s with
  | "query" => .ok .query | "path_parameters" => .ok .pathParameters | "headers" => .ok .headers
  | "cookies" => .ok .cookies | "body" => .ok .body | _ => .error "bad kind"

/-- a case as the real code produced it, for the reference predicates: {method (sent, lower-case), mode,
    comps:[[kind, mode]], parts:[[kind, mode]] (the label every container deserves), desc: {unspecified: m} |
    {missing: [name, loc]} | null} -/
def decRealCase (opm : String) (j : Json) : Except String Case := do
  let sent ← asStr (← field j "method")
  let mode ← decMode (← field j "mode")
  let comps ← asPairs (fun k => do decKind (← asStr k)) decMode (← field j "comps")
  let parts ← asPairs (fun k => do decKind (← asStr k)) decMode (← field j "parts")
  let dj := optField j "desc"
  let desc ← match dj.get? "unspecified", dj.get? "missing", dj.get? "missing_property" with
    | some m, _, _ => do pure (CaseDesc.unspecifiedMethod (← asStr m))
    | _, some (.arr [.str n, .str l]), _ => pure (CaseDesc.missing n l)
    | _, _, some (.str p) => pure (CaseDesc.value (.missingRequired p))
    | _, _, _ => pure CaseDesc.defaultPositive
  return ⟨if sent == opm then none else some sent, mode, comps, parts.map fun (k, m) => (k, Content.generated m), desc,
          ← asOpt asStr (optField j "parameter"), ← asOpt asStr (optField j "parameter_location")⟩

def descOfToken (t : String) : Option Desc :=
  match t with
  | "greater-than-maximum" => some .greaterThanMaximum
  | "smaller-than-minimum" => some .smallerThanMinimum
  | "non-multiple" => some .nonMultiple
  | "incorrect-type" => some .incorrectType
  | "invalid-enum" => some .invalidEnum
  | "smaller-than-min-length" => some .smallerThanMinLength
  | "larger-than-max-length" => some .largerThanMaxLength
  | "not-matching-pattern" => some .notMatchingPattern
  | "not-matching-format" => some .notMatchingFormat
  | _ => none

def handle : Handler := fun op a => do
  match op with
  | "posnum" =>
    -- {schema, orc:[…], vz, vx, vc}
    let kvs ← kvsOf (← field a "schema")
    let orc ← asList decAns (a.getD "orc" (.arr []))
    let vz ← decVariant (a.getD "vz" .null)
    let vx ← decVariant (a.getD "vx" .null)
    let vc ← decVariant (a.getD "vc" .null)
    let r := positiveNumber vz vx vc kvs { orc := orc, seen := [] }
    let vs ← asArr (a.getD "judge" (.arr []))
    match encR r with
    | .obj fields => return .obj (fields ++ [("valid", .arr (vs.map fun v => .bool (validF 64 {} (.obj kvs) (decOrd v))))])
    | j => return j
  | "cover" =>
    -- {schema, orc:[…], vz, vx, vc, vl, va, vt, vm, vf, location, pos, neg, fuel?}   (variant sites: see `Vs`)
    let schema := decOrd (← field a "schema")
    let orc ← asList decAns (a.getD "orc" (.arr []))
    let vs : Vs := ⟨← decVariant (a.getD "vz" .null), ← decVariant (a.getD "vx" .null), ← decVariant (a.getD "vc" .null),
                    ← decVariant (a.getD "vl" .null), ← decVariant (a.getD "va" .null), ← decVariant (a.getD "vt" .null),
                    ← decVariant (a.getD "vm" .null), ← decVariant (a.getD "vf" .null)⟩
    let loc ← asStr (a.getD "location" (.str "body"))
    let pos ← asBool (a.getD "pos" (.bool true))
    let neg ← asBool (a.getD "neg" (.bool true))
    let fuel := match a.getD "fuel" .null with | .num m 0 => m.toNat | _ => 12
    return encR (coverTop fuel vs ⟨loc, pos, neg, []⟩ schema { orc := orc, seen := [] })
  | "cases" =>
    let vb ← decVariant (a.getD "vb" .null)
    let inp : OpIn := ⟨← asList decParam (← field a "params"), ← asBool (← field a "hasBody"),
      ← asList decBody (← field a "bodies"), ← asList asStr (← field a "methods"), ← asBool (← field a "pos"),
      ← asBool (← field a "neg"), ← asList (asList decLV) (← field a "negCalls")⟩
    match iterCases vb inp with
    | none => return jobj [("error", .str "KeyError")]
    | some cs => return jobj [("cases", .arr (cs.map encCase))]
  | "casesdoc" =>
    -- {vb, doc, opMethod, cfg: [..]|null, streams, hasBody, bodies, pos, neg, negCalls}
    let vb ← decVariant (a.getD "vb" .null)
    let doc ← decDoc (← field a "doc")
    let x : DocIn := ⟨doc, ← asStr (← field a "opMethod"), ← asOpt (asList asStr) (optField a "cfg"),
      ← asList (asList decLV) (← field a "streams"), ← asBool (← field a "hasBody"), ← asList decBody (← field a "bodies"),
      ← asBool (← field a "pos"), ← asBool (← field a "neg"), ← asList (asList decLV) (← field a "negCalls")⟩
    match toOpIn x with
    | none => return jobj [("error", .str "no-operation")]
    | some inp =>
      let shape := [("params", Json.arr (inp.params.map fun p => .arr [.str p.location, .str p.name, .bool p.required])),
                    ("methods", Json.arr (inp.methods.map .str))]
      match iterCases vb inp with
      | none => return jobj (("error", .str "KeyError") :: shape)
      | some cs => return jobj (("cases", .arr (cs.map (encCaseDoc doc x.opMethod))) :: shape)
  | "judgedoc" =>
    -- {doc, opMethod, cases:[real case]} → {documented:[…], cases:[[label_ok, comps_ok, desc_ok]]}
    let doc ← decDoc (← field a "doc")
    let opm ← asStr (← field a "opMethod")
    let cs ← asList (decRealCase opm) (← field a "cases")
    let asked ← asList (fun j => do match j with
      | .arr [.str n, .str l] => pure (n, l)
      | _ => .error "bad pair") (a.getD "required" (.arr []))
    return jobj [("documented", .arr ((httpMethods.filter (documents doc)).map .str)),
                 ("op_documented", .bool (documents doc opm)),
                 ("required", .arr (asked.map fun (n, l) => .bool (requiresParam doc opm n l))),
                 ("cases", .arr (cs.map fun c => .arr [.bool (caseLabelOkDoc doc opm c), .bool (compsOk c),
                                                       .bool (descOkDoc doc opm c)]))]
  | "consumers" =>
    -- {vh, opMethod, items:[{case: real case, status, allow, reqMethod, onlyAdditional, allowed:[…]}]} → [[ndr, pda, mrh, um]] (true = fails)
    let vh ← decVariant (a.getD "vh" .null)
    let opm ← asStr (← field a "opMethod")
    let items ← asArr (← field a "items")
    let outs ← items.mapM fun it => do
      let c ← decRealCase opm (← field it "case")
      let r : Resp := ⟨← asNat (← field it "status"), ← asBool (← field it "allow"), ← asStr (← field it "reqMethod")⟩
      let oa ← asBool (← field it "onlyAdditional")
      let allowed ← asList asNat (← field it "allowed")
      pure (Json.arr [.bool (negativeDataRejectionFails c r oa), .bool (positiveDataAcceptanceFails c r),
                      .bool (missingRequiredHeaderFails vh c r allowed), .bool (unsupportedMethodFails c r)])
    return .arr outs
  | "judge" =>
    -- {env, schema, values:[…], fuel?} → [bool]
    let env ← decEnv (a.getD "env" (.obj []))
    let fuel := match a.getD "fuel" .null with | .num m 0 => m.toNat | _ => 64
    let schema := decOrd (a.getD "schema" .null)
    let vs ← asArr (a.getD "values" (.arr []))
    match a.get? "descs" with
    | some (.arr ds) =>
      -- [[valid, violatesAsDescribed | null]] (the second only for top-level negative values of an object schema)
      return .arr ((vs.zip ds).map fun (v, d) =>
        let v := decOrd v
        let dflag : Json := match d, schema with
          | .str t, .obj kvs => (match descOfToken t with
            | some dd => .bool (violatesAsDescribed env kvs ⟨v, .negative, dd, none, none⟩)
            | none => .null)
          | _, _ => .null
        .arr [.bool (validF fuel env schema v), dflag])
    | _ => return .arr (vs.map fun v => .bool (validF fuel env schema (decOrd v)))
  | "valid" =>
    let env ← decEnv (a.getD "env" (.obj []))
    let fuel := match a.getD "fuel" .null with | .num m 0 => m.toNat | _ => 64
    return .bool (validF fuel env (decOrd (a.getD "schema" .null)) (decOrd (a.getD "instance" .null)))
  | _ => .error s!"unknown op {op}"

/-- the harness splits the answers with Python's `splitlines`, which also breaks on U+0085, U+2028 … : answer in ASCII -/
def hex4 (n : Nat) : String :=
  let d (k : Nat) : Char := (Nat.toDigits 16 (k % 16)).headD '0'
  String.ofList [d (n / 4096), d (n / 256), d (n / 16), d n]

def escapeNonAscii (s : String) : String :=
  s.foldl (fun acc c =>
    let n := c.toNat
    if n < 127 then acc.push c
    else if n < 65536 then acc ++ "\\u" ++ hex4 n
    else
      let m := n - 65536
      acc ++ "\\u" ++ hex4 (55296 + m / 1024) ++ "\\u" ++ hex4 (56320 + m % 1024)) ""

partial def loop (stdin stdout : IO.FS.Stream) : IO Unit := do
  let line ← stdin.getLine
  if line.isEmpty then return ()
  let t := line.trimAscii.toString
  if t.isEmpty then loop stdin stdout else
  stdout.putStrLn (escapeNonAscii (answer handle t))
  stdout.flush
  loop stdin stdout

def main : IO Unit := do loop (← IO.getStdin) (← IO.getStdout)
