import SV.Wire
import SV.Spec.JsonSchemaWire
import SV.Spec.C04
open SV SV.Wire SV.Model.C04 SV.Spec.C04

def decVariant : Json → Except String Variant
  | .str "asFound" => pure .asFound
  | .str "repaired" => pure .repaired
  | _ => .error "bad variant"

def decVariants (j : Json) : Except String Variants := do
  return ⟨← decVariant (← field j "lookup"), ← decVariant (← field j "media"), ← decVariant (← field j "hdrRef"),
          ← decVariant (← field j "ctError"), ← decVariant (← field j "hdrKw"), ← decVariant (← field j "hdrType")⟩

/-- [name, schema|null] -/
def decMedia : Json → Except String Media
  | .arr [n, .null] => do return ⟨← asChars n, none⟩
  | .arr [n, s] => do return ⟨← asChars n, some s⟩
  | _ => .error "bad media"

/-- [name, isRef, required, schema, target|null] -/
def decHeader : Json → Except String HeaderDef
  | .arr [n, r, q, s, .null] => do return ⟨← asChars n, ← asBool r, ← asBool q, s, none⟩
  | .arr [n, r, q, s, t] => do return ⟨← asChars n, ← asBool r, ← asBool q, s, some t⟩
  | _ => .error "bad header"

def decRespDef (j : Json) : Except String RespDef := do
  let s2 := match optField j "schema2" with | .null => none | s => some s
  return ⟨← asList decMedia (← field j "content"), s2, ← asList decHeader (← field j "headers")⟩

def decDoc (j : Json) : Except String Doc := do
  return ⟨← asBool (← field j "v2"), ← asPairs asChars decRespDef (← field j "responses"),
          ← asList asChars (← field j "produces"), ← asBool (← field j "v31")⟩

/-- body: ["json", v] | ["malformed"] -/
def decBody : Json → Except String (Option Json)
  | .arr [.str "json", v] => pure (some v)
  | .arr [.str "malformed"] => pure none
  | _ => .error "bad body"

def decResp (j : Json) : Except String Resp := do
  return ⟨← asNat (← field j "status"), ← asOpt asChars (optField j "ct"),
          ← asPairs asChars asChars (← field j "headers"), ← decBody (← field j "body")⟩

def failName : Fail → String
  | .undefinedStatus => "UndefinedStatusCode"
  | .missingContentType => "MissingContentType"
  | .malformedMediaType => "MalformedMediaType"
  | .undefinedContentType => "UndefinedContentType"
  | .missingHeaders => "MissingHeaders"
  | .headerSchema => "JsonSchemaError"
  | .malformedJson => "MalformedJson"
  | .bodySchema => "JsonSchemaError"

def encOut : Out → Json
  | .ok fs => .arr (fs.map fun f => .str (failName f))
  | .error => .str "error"

def encMedia : Option (List Char × List Char) → Json
  | some (m, t) => .arr [jstr m, jstr t]
  | none => .null

/-- the model: validity `W` handed the checker of each call site over the truth `F` -/
def checksOf (W : (String → Json → Bool) → Json → Json → Bool) (F : String → Json → Bool) (vs : Variants) (doc : Doc)
    (r : Resp) : Json :=
  jobj [("status", encOut (statusCheck doc r)), ("content_type", encOut (contentTypeCheck vs doc r)),
        ("headers", encOut (headersCheck (W (checkerFmt (headerChecker doc.flavour) F)) vs doc r)),
        ("body", encOut (bodyCheck (W (checkerFmt (bodyChecker doc.flavour) F)) vs doc r)),
        ("all", encOut (runAllF W F vs doc r))]

def draftName : Draft → String
  | .d4 => "Draft4Validator" | .d6 => "Draft6Validator" | .d7 => "Draft7Validator"
  | .d201909 => "Draft201909Validator" | .d202012 => "Draft202012Validator"

def flavourName : Flavour → String
  | .swagger2 => "2.0" | .openapi30 => "3.0" | .openapi31 => "3.1"

def allDrafts : List Draft := [.d4, .d6, .d7, .d201909, .d202012]
def allFlavours : List Flavour := [.swagger2, .openapi30, .openapi31]

def matchedBy (doc : Doc) (status : Nat) : String :=
  if (findKey (digitsOf status) doc.responses).isSome then "exact"
  else if (doc.responses.find? (fun kd => keyMatches kd.1 status)).isSome then "range"
  else if (findKey defaultKey doc.responses).isSome then "default"
  else "none"

def handle : Handler := fun op a => do
  match op with
  | "expand" =>
    -- {"key": str, "status": n}
    let k ← asChars (← field a "key")
    let n ← asNat (← field a "status")
    return jobj [("model", match expandStatusCode k with | some l => .arr (l.map jnat) | none => .str "error"),
                 ("covers", .bool (keyCovers k n)), ("spec", .bool (keyMatches k n)), ("wf", .bool (keyWf k))]
  | "parse" =>
    -- {"s": str}
    let s ← asChars (← field a "s")
    return jobj [("model", encMedia (parseMedia s)), ("spec", encMedia (refParse s)), ("plain", .bool (plainMedia s)),
                 ("json", .bool (match parseMedia s with | some mt => isJsonMedia mt | none => false))]
  | "coerce" =>
    -- {"value": str, "schema": json}
    let v ← asChars (← field a "value")
    let s ← field a "schema"
    return coerceHeader v (headerSchema s)
  | "check" =>
    -- {"doc": …, "resp": …, "env": …, "variants": …}
    let doc ← decDoc (← field a "doc")
    let r ← decResp (← field a "resp")
    let env ← SV.Spec.JsonSchema.decEnv (a.getD "env" (.obj []))
    let vs ← decVariants (← field a "variants")
    -- `env.fmt` is the truth F of the format predicates; the model hands validity the checker of the call site, the
    -- specification hands it every defined format
    let F := env.fmt
    let W : (String → Json → Bool) → Json → Json → Bool := fun fmt => SV.Spec.JsonSchema.validF 64 { env with fmt := fmt }
    let V := W (specFmt F)
    return jobj [
      ("model", checksOf W F vs doc r),
      ("asFound", checksOf W F Variants.allAsFound doc r),
      ("repaired", checksOf W F Variants.allRepaired doc r),
      -- the headers verdict with ONE site repaired on top of the variants in force (attribution of known findings)
      ("flip", jobj [
        ("lookup", encOut (headersCheck (W (checkerFmt (headerChecker doc.flavour) F)) { vs with lookup := .repaired } doc r)),
        ("hdrRef", encOut (headersCheck (W (checkerFmt (headerChecker doc.flavour) F)) { vs with hdrRef := .repaired } doc r)),
        ("hdrKw", encOut (headersCheck (W (checkerFmt (headerChecker doc.flavour) F)) { vs with hdrKw := .repaired } doc r)),
        ("hdrType", encOut (headersCheck (W (checkerFmt (headerChecker doc.flavour) F)) { vs with hdrType := .repaired } doc r))]),
      ("spec", jobj [("status", .bool (devStatus doc r)), ("content_type", .bool (devContentType doc r)),
                     ("headers", .bool (devHeaders V doc r)), ("body", .bool (devBody V doc r)),
                     ("deviates", .bool (deviates V doc r))]),
      ("wf", jobj [("keys", .bool (keysWf doc)), ("media", .bool (docMediaWf doc)), ("ct_plain", .bool (respMediaPlain r)),
                   ("ct_ok", .bool (match r.contentType with | some ct => (refParse ct).isSome | none => false)),
                   ("no_range_only", .bool (noRangeOnly doc r.status)), ("single_media", .bool (singleMedia doc)),
                   ("no_required_ref_header", .bool (noRequiredRefHeader doc)),
                   ("produces", .bool (producesWf doc)), ("ct_no_crash", .bool (ctNoCrash r)),
                   ("plain_headers", .bool (plainHeaders doc))]),
      ("matched", .str (matchedBy doc r.status))]
  | "formats" =>
    -- {} → the registration tables of the model and the specification's list
    return jobj [
      ("drafts", jobj (allDrafts.map fun d => (draftName d, .arr (d.formats.map .str)))),
      ("asserted", .arr (assertedFormats.map .str)),
      ("validator_cls", jobj (allFlavours.map fun fl => (flavourName fl, .str (draftName (validatorCls fl))))),
      ("header_checker", jobj (allFlavours.map fun fl => (flavourName fl, .str (draftName (headerChecker fl))))),
      ("body_checker", jobj (allFlavours.map fun fl => (flavourName fl, .str (draftName (bodyChecker fl)))))]
  | "prep" =>
    -- {"flavour": "2.0"|"3.0"|"3.1", "schema": json} → the header schema `as_json_schema` produces (as found)
    let fl ← match ← field a "flavour" with
      | .str "2.0" => pure Flavour.swagger2
      | .str "3.0" => pure Flavour.openapi30
      | .str "3.1" => pure Flavour.openapi31
      | _ => .error "bad flavour"
    let s ← field a "schema"
    return convertDefault fl (filterKw fl s)
  | _ => .error s!"unknown op {op}"

def main : IO Unit := run handle
