import SV.Wire
import SV.Spec.JsonSchemaWire
import SV.Spec.C04
open SV SV.Wire SV.Model.C04 SV.Spec.C04

def decVariant : Json → Except String Variant
  | .str "asFound" => pure .asFound
  | .str "repaired" => pure .repaired
  | _ => .error "bad variant"

def decVariants (j : Json) : Except String Variants := do
  return ⟨← decVariant (← field j "lookup"), ← decVariant (← field j "media"), ← decVariant (← field j "hdrRef"),
          ← decVariant (← field j "ctError")⟩

/-- [name, schema|null] -/
def decMedia : Json → Except String Media
  | .arr [n, .null] => do return ⟨← asChars n, none⟩
  | .arr [n, s] => do return ⟨← asChars n, some s⟩
  | _ => .error "bad media"

/-- [name, isRef, required, schema] -/
def decHeader : Json → Except String HeaderDef
  | .arr [n, r, q, s] => do return ⟨← asChars n, ← asBool r, ← asBool q, s⟩
  | _ => .error "bad header"

def decRespDef (j : Json) : Except String RespDef := do
  let s2 := match optField j "schema2" with | .null => none | s => some s
  return ⟨← asList decMedia (← field j "content"), s2, ← asList decHeader (← field j "headers")⟩

def decDoc (j : Json) : Except String Doc := do
  return ⟨← asBool (← field j "v2"), ← asPairs asChars decRespDef (← field j "responses"),
          ← asList asChars (← field j "produces")⟩

/-- body: ["json", v] | ["malformed"] -/
def decBody : Json → Except String (Option Json)
  | .arr [.str "json", v] => pure (some v)
  | .arr [.str "malformed"] => pure none
  | _ => .error "bad body"

def decResp (j : Json) : Except String Resp := do
  return ⟨← asNat (← field j "status"), ← asOpt asChars (optField j "ct"),
          ← asPairs asChars asChars (← field j "headers"), ← decBody (← field j "body")⟩

def failName : Fail → String
  | .undefinedStatus => "UndefinedStatusCode"
  | .missingContentType => "MissingContentType"
  | .malformedMediaType => "MalformedMediaType"
  | .undefinedContentType => "UndefinedContentType"
  | .missingHeaders => "MissingHeaders"
  | .headerSchema => "JsonSchemaError"
  | .malformedJson => "MalformedJson"
  | .bodySchema => "JsonSchemaError"

def encOut : Out → Json
  | .ok fs => .arr (fs.map fun f => .str (failName f))
  | .error => .str "error"

def encMedia : Option (List Char × List Char) → Json
  | some (m, t) => .arr [jstr m, jstr t]
  | none => .null

def checksOf (V : Json → Json → Bool) (vs : Variants) (doc : Doc) (r : Resp) : Json :=
  jobj [("status", encOut (statusCheck doc r)), ("content_type", encOut (contentTypeCheck vs doc r)),
        ("headers", encOut (headersCheck V vs doc r)), ("body", encOut (bodyCheck V vs doc r)),
        ("all", encOut (runAll V vs doc r))]

def matchedBy (doc : Doc) (status : Nat) : String :=
  if (findKey (digitsOf status) doc.responses).isSome then "exact"
  else if (doc.responses.find? (fun kd => keyMatches kd.1 status)).isSome then "range"
  else if (findKey defaultKey doc.responses).isSome then "default"
  else "none"

def handle : Handler := fun op a => do
  match op with
  | "expand" =>
    -- {"key": str, "status": n}
    let k ← asChars (← field a "key")
    let n ← asNat (← field a "status")
    return jobj [("model", match expandStatusCode k with | some l => .arr (l.map jnat) | none => .str "error"),
                 ("covers", .bool (keyCovers k n)), ("spec", .bool (keyMatches k n)), ("wf", .bool (keyWf k))]
  | "parse" =>
    -- {"s": str}
    let s ← asChars (← field a "s")
    return jobj [("model", encMedia (parseMedia s)), ("spec", encMedia (refParse s)), ("plain", .bool (plainMedia s)),
                 ("json", .bool (match parseMedia s with | some mt => isJsonMedia mt | none => false))]
  | "coerce" =>
    -- {"value": str, "schema": json}
    let v ← asChars (← field a "value")
    let s ← field a "schema"
    return coerceHeader v (headerSchema s)
  | "check" =>
    -- {"doc": …, "resp": …, "env": …, "variants": …}
    let doc ← decDoc (← field a "doc")
    let r ← decResp (← field a "resp")
    let env ← SV.Spec.JsonSchema.decEnv (a.getD "env" (.obj []))
    let vs ← decVariants (← field a "variants")
    let V := SV.Spec.JsonSchema.validF 64 env
    return jobj [
      ("model", checksOf V vs doc r),
      ("asFound", checksOf V Variants.allAsFound doc r),
      ("repaired", checksOf V Variants.allRepaired doc r),
      ("spec", jobj [("status", .bool (devStatus doc r)), ("content_type", .bool (devContentType doc r)),
                     ("headers", .bool (devHeaders V doc r)), ("body", .bool (devBody V doc r)),
                     ("deviates", .bool (deviates V doc r))]),
      ("wf", jobj [("keys", .bool (keysWf doc)), ("media", .bool (docMediaWf doc)), ("ct_plain", .bool (respMediaPlain r)),
                   ("ct_ok", .bool (match r.contentType with | some ct => (refParse ct).isSome | none => false)),
                   ("no_range_only", .bool (noRangeOnly doc r.status)), ("single_media", .bool (singleMedia doc)),
                   ("no_required_ref_header", .bool (noRequiredRefHeader doc)),
                   ("produces", .bool (producesWf doc)), ("ct_no_crash", .bool (ctNoCrash r))]),
      ("matched", .str (matchedBy doc r.status))]
  | _ => .error s!"unknown op {op}"

def main : IO Unit := run handle
