import SV.Wire
import SV.Spec.C05Stat
open SV SV.Wire SV.Model.Engine SV.Model.Plan SV.Model.C05Stat SV.Spec.C05Stat

/-! line-protocol driver for the CLI reporting layer of C05 (SV/Model/C05Stat.lean, SV/Spec/C05Stat.lean) -/

def decStatus : Json → Except String Status
  | .str "success" => pure .success | .str "failure" => pure .failure | .str "error" => pure .error
  | .str "interrupted" => pure .interrupted | .str "skip" => pure .skip
  | _ => .error "bad status"

def decCheck (j : Json) : Except String Check :=
  match j with
  | .null => pure none
  | j => do
    match ← asArr j with
    | [f, s] => return some (← asNat f, ← asNat s)
    | _ => .error "bad check"

def decCase (j : Json) : Except String CaseRec := do
  return ⟨← asNat (← field j "id"), ← asList decCheck (← field j "checks"), ← asOpt asNat (optField j "resp")⟩

def decRecorder (j : Json) : Except String Recorder := do
  return ⟨← asNat (← field j "label"), ← asList decCase (← field j "cases")⟩

def decEvent (j : Json) : Except String CEv := do
  match ← asStr (← field j "kind") with
  | "scenario" => return .scenario (← asNat (← field j "phase")) 0 (← decStatus (← field j "status"))
                    (← decRecorder (← field j "recorder"))
  | "error" => return .plain (.inner (← asNat (← field j "phase")) (.nonFatal 0))
  | "phase" => return .plain (.phaseFinished (← asNat (← field j "phase")) (← decStatus (← field j "status")) none)
  | "started" => return .plain .engineStarted
  | "finished" => return .plain .engineFinished
  | _ => return .plain (.phaseStarted 0)

def decStart : Json → Except String Start
  | .str "stored" => pure .stored | .str "empty" => pure .empty | .null => pure .stored | _ => .error "bad start"

def encOptNat : Option Nat → Json
  | none => .null
  | some n => jnat n

def encGroup (g : Group) : Json :=
  jobj [("case", jnat g.caseId), ("sample", jnat g.sample), ("failures", .arr (g.failures.map jnat)), ("resp", encOptNat g.resp)]

def decGroup (j : Json) : Except String Group := do
  return ⟨← asNat (← field j "case"), ← asNat (← field j "sample"), ← asList asNat (← field j "failures"),
          ← asOpt asNat (optField j "resp")⟩

def encStore (F : List (Nat × List (Nat × Group))) : Json :=
  .arr (F.map fun (l, gs) => .arr [jnat l, .arr (gs.map fun (c, g) => .arr [jnat c, encGroup g])])

def decPairs {α β : Type} (fk : Json → Except String α) (fv : Json → Except String β) (j : Json) : Except String (List (α × β)) := do
  (← asArr j).mapM fun p => do
    match ← asArr p with
    | [k, v] => return (← fk k, ← fv v)
    | _ => .error "bad pair"

def decStore (j : Json) : Except String (List (Nat × List (Nat × Group))) := decPairs asNat (decPairs asNat decGroup) j

def encStat (st : Stat) : Json :=
  jobj [("store", encStore st.failures), ("unique", .arr (st.unique.map fun (f, c) => .arr [jnat f, jnat c])),
        ("total", jnat st.total), ("with_failures", jnat st.withFailures), ("without_checks", jnat st.withoutChecks)]

def encVerdict (v : Verdict) : Json :=
  jobj [("failure", jnat v.failure), ("count", jnat v.count),
        ("first", match v.first with | some (l, c) => .arr [jnat l, jnat c] | none => .null), ("held", .bool v.held)]

/-- `ctxRun` with the per-label start of the store as a parameter (the model of the code is `.stored`) -/
def ctxRunV (v : Start) (enabled : Nat → Bool) (evs : List CEv) : Ctx :=
  evs.foldl (fun c e => match e with
    | .scenario _ _ _ r => { c with stat := onScenarioFinishedV v c.stat r }
    | e => onEvent enabled c e) {}

def handle : Handler := fun op a => do
  match op with
  | "stat" =>
    let evs ← asList decEvent (← field a "events")
    let en ← asList asNat (← field a "enabled")
    let v ← decStart (optField a "start")
    let c := ctxRunV v (fun i => en.contains i) evs
    return jobj [("stat", encStat c.stat), ("exit", jnat c.exit)]
  | "judge" =>
    let evs ← asList decEvent (← field a "events")
    let h := recorders evs
    let F ← decStore (← field a "store")
    let en ← asList asNat (← field a "enabled")
    return jobj [("verdicts", .arr ((judge h F).map encVerdict)), ("keeps_all", .bool (keepsAll h F)),
                 ("invented", .arr ((invented h F).map jnat)), ("ids_distinct", .bool (decide (caseIds h).Nodup)),
                 ("total", jnat (casesTotal h)), ("without_checks", jnat (casesWithoutChecks h)),
                 ("group_count", jnat (groupCount F)),
                 ("exit", jnat (exitCode (fun i => en.contains i) (evs.map CEv.erase)))]
  | "execute" =>
    let evs ← asList decEvent (← field a "events")
    let en ← asList asNat (← field a "enabled")
    let fault ← match optField a "fault" with
      | .null => pure none
      | j => do
        match ← asArr j with
        | [k, ab] => pure (some (← asNat k, ← asBool ab))
        | _ => .error "bad fault"
    let r := executeCli (fun i => en.contains i) fault evs
    return jobj [("outcome", match r.1 with | .exit c => jnat c | .raised => .str "raised"),
                 ("stat", encStat r.2.stat)]
  | _ => .error s!"unknown op {op}"

def main : IO Unit := run handle
