import SV.Wire
import SV.Spec.C06
import SV.Spec.C06Style
import SV.Model.C06Headers
import SV.Spec.C06Session
import SV.Model.C06Template
import SV.Model.C06Entries
open SV SV.Wire SV.Model.C06 SV.Spec.C06

def asBytes (j : Json) : Except String Bytes := asList asNat j
def jbytes (bs : Bytes) : Json := .arr (bs.map jnat)
def jopt (f : α → Json) : Option α → Json | none => .null | some a => f a

def decVariant (j : Json) : Except String Variant := do
  match ← asStr j with
  | "asFound" => return .asFound
  | "repaired" => return .repaired
  | s => .error s!"variant {s}"

def decPVal (j : Json) : Except String PVal :=
  match j with
  | .null => .ok .null
  | .bool b => .ok (.bool b)
  | .num m 0 => .ok (.int m)
  | .arr _ => do return .str (← asBytes j)
  | _ => .error "pval"

def encPVal : PVal → Json
  | .null => .null
  | .bool b => .bool b
  | .int i => .num i 0
  | .str bs => jbytes bs

def decPiece (j : Json) : Except String Piece :=
  match j with
  | .arr [.str "lit", b] => do return .lit (← asBytes b)
  | .arr [.str "var", b] => do return .var (← asBytes b)
  | _ => .error "piece"

def toStr (s : String) : Str := s.toList.map Char.toNat
def ofStr (s : Str) : String := String.ofList (s.map Char.ofNat)
def asText (j : Json) : Except String Str := do return toStr (← asStr j)
def jtext (s : Str) : Json := .str (ofStr s)

def decPrim (j : Json) : Except String Prim :=
  match j with
  | .null => .ok .null
  | .bool b => .ok (.bool b)
  | .num m 0 => .ok (.int m)
  | .str s => .ok (.str (toStr s))
  | _ => .error "prim"

def encPrim : Prim → Json
  | .null => .null
  | .bool b => .bool b
  | .int i => .num i 0
  | .str s => jtext s

def decVal (j : Json) : Except String Val :=
  match j.get? "arr", j.get? "obj" with
  | some xs, _ => do return .arr (← asList decPrim xs)
  | _, some kvs => do return .obj (← asPairs asText decPrim kvs)
  | _, _ => do return .prim (← decPrim j)

def encVal : Val → Json
  | .prim p => encPrim p
  | .arr xs => jobj [("arr", .arr (xs.map encPrim))]
  | .obj kvs => jobj [("obj", .arr (kvs.map fun (k, p) => .arr [jtext k, encPrim p]))]

def decContainer (j : Json) : Except String Container := asPairs asText decVal j
def encContainer (c : Container) : Json := .arr (c.map fun (k, x) => .arr [jtext k, encVal x])

def decLoc (j : Json) : Except String Loc := do
  match ← asStr j with
  | "path" => return .path | "query" => return .query | "header" => return .header | "cookie" => return .cookie
  | s => .error s!"loc {s}"

def decTy (j : Json) : Except String Ty :=
  match j with
  | .str "array" => .ok .array
  | .str "object" => .ok .object
  | _ => .ok .other

def decStyle (j : Json) : Except String (Option Style) :=
  match j with
  | .null => .ok none
  | .str "simple" => .ok (some .simple) | .str "label" => .ok (some .label) | .str "matrix" => .ok (some .matrix)
  | .str "form" => .ok (some .form) | .str "spaceDelimited" => .ok (some .spaceDelimited)
  | .str "pipeDelimited" => .ok (some .pipeDelimited) | .str "deepObject" => .ok (some .deepObject)
  | _ => .ok (some .other)

def decCell (j : Json) : Except String Cell := do
  return ⟨← decLoc (← field j "loc"), ← decStyle (optField j "style"), ← asOpt asBool (optField j "explode"),
          ← decTy (optField j "ty")⟩

def decPDef (j : Json) : Except String PDef := do
  return ⟨← asText (← field j "name"), ← decCell j, ← asOpt asBool (optField j "content")⟩

def decFmt (j : Json) : Except String CollFmt :=
  match j with
  | .str "csv" => .ok .csv | .str "ssv" => .ok .ssv | .str "tsv" => .ok .tsv | .str "pipes" => .ok .pipes
  | .str "multi" => .ok .multi | _ => .ok .other

def decSDef (j : Json) : Except String SDef := do
  return ⟨← asText (← field j "name"), ← asBool (← field j "isHeader"), ← asBool (← field j "collection"),
          ← decFmt (optField j "fmt")⟩

def encDVal : DVal → Json
  | .prim s => jtext s
  | .arr xs => jobj [("arr", .arr (xs.map jtext))]
  | .obj kvs => jobj [("obj", .arr (kvs.map fun (k, v) => .arr [jtext k, jtext v]))]

def lowerAscii (s : Str) : Str := s.map fun c => if 65 ≤ c && c ≤ 90 then c + 32 else c
def decHeaders (j : Json) : Except String Headers := asPairs asText asText j
def encHeaders (h : Headers) : Json := .arr (h.map fun (k, v) => .arr [jtext k, jtext v])
def decPair (j : Json) : Except String (Str × Str) :=
  match j with
  | .arr [k, v] => do return (← asText k, ← asText v)
  | _ => .error "pair"


def decDict (j : Json) : Except String Dict := asPairs asText asText j
def encDict (d : Dict) : Json := .arr (d.map fun (k, v) => .arr [jtext k, jtext v])
def decCaseS (j : Json) : Except String CaseS := do
  return ⟨← asOpt decDict (optField j "query"), ← asOpt decDict (optField j "cookies")⟩
def encCaseS (c : CaseS) : Json := jobj [("query", jopt encDict c.query), ("cookies", jopt encDict c.cookies)]
def decSetCookie (j : Json) : Except String SetCookie :=
  match j with
  | .arr [k, v] => do return (← asText k, ← asOpt asText v)
  | _ => .error "set-cookie"
def decCall (j : Json) : Except String (Nat × Call) := do
  return (← asNat (← field j "ix"),
    ⟨← asOpt decDict (optField j "params"), ← asOpt decDict (optField j "cookies"), ← asBool (← field j "explicit"),
     ← asList decSetCookie (← field j "setCookies")⟩)
def decVia (j : Json) : Except String Via := do
  match ← asStr j with
  | "wsgi" => return .wsgi | "requests" => return .requests | "asgi" => return .asgi
  | s => .error s!"via {s}"
def decPolicy (j : Json) : Except String ClientPolicy := do
  match ← asStr j with
  | "perCall" => return .perCall | "perApp" => return .perApp
  | s => .error s!"policy {s}"
def encSent (s : Sent) : Json := jobj [("query", encDict s.query), ("cookies", encDict s.cookies)]
def decSent (j : Json) : Except String Sent := do
  return ⟨← decDict (← field j "query"), ← decDict (← field j "cookies")⟩

/-- the specification's verdicts on a history of observed requests; `store` is the cases as generated -/
def judgeTrace (store : List CaseS) : Dict → List (Nat × Call) → List (Sent × Sent) → List Json
  | _, [], _ => []
  | _, _, [] => []
  | jar, (ix, a) :: calls, (w, r) :: obs =>
    match store[ix]? with
    | none => .null :: judgeTrace store jar calls obs
    | some c =>
      let uj := if a.explicit then some jar else none
      jobj [("cookiesOk", .bool (cookiesOk c a uj w.cookies)), ("queryOk", .bool (queryOk c a w.query)),
            ("recordedOk", .bool (recordedOk c a ⟨w, r⟩)),
            ("ownCookies", encDict (ownCookies c a)), ("ownQuery", encDict (ownQuery c a)),
            ("userJar", jopt encDict uj)]
        :: judgeTrace store (specUserJar jar a) calls obs

def shapeName : Shape → String
  | .plain => "plain" | .list d => s!"list:{d}" | .pairs => "pairs" | .kvs d => s!"kvs:{d}"
  | .labelPlain => "labelPlain" | .labelList d => s!"labelList:{d}" | .labelPairs => "labelPairs" | .labelKvs => "labelKvs"
  | .matrixPlain => "matrixPlain" | .matrixList => "matrixList" | .matrixExploded => "matrixExploded"
  | .matrixPairs => "matrixPairs" | .matrixKvs => "matrixKvs"

def handle : Handler := fun op a => do
  match op with
  | "quote" =>
    let bs ← asBytes (← field a "bs")
    match ← asStr (← field a "fn") with
    | "quote" => return jbytes (quote bs)
    | "quote_strict" => return jbytes (quoteStrict bs)
    | "quote_plus" => return jbytes (quotePlus bs)
    | s => .error s!"fn {s}"
  | "unquote" =>
    let bs ← asBytes (← field a "bs")
    return jobj [("model", jbytes (unquote bs)), ("spec", jopt jbytes (pctDecode bs))]
  | "quote_all" =>
    let v ← decVariant (← field a "variant")
    let x ← decPVal (← field a "val")
    let q := quoteAll v x
    let seg := pathSegment v x
    return jobj [("quoted", encPVal q), ("segment", jbytes seg), ("decoded", jopt jbytes (decodeSegment seg))]
  | "decode_segment" =>
    return jopt jbytes (decodeSegment (← asBytes (← field a "bs")))
  | "prepare_path" =>
    let ps ← asList decPiece (← field a "pieces")
    let vals ← asPairs asBytes decPVal (← field a "params")
    return jopt jbytes (preparePath ps vals)
  | "prepare_url" =>
    let bpath ← asBytes (← field a "bpath")
    let path ← asBytes (← field a "path")
    return jbytes (prepareUrlPath bpath path)
  | "serialize3" =>
    let vt ← decVariant (← field a "vt"); let vm ← decVariant (← field a "vm"); let vs ← decVariant (← field a "vs")
    let defs ← asList decPDef (← field a "defs")
    let c ← decContainer (← field a "container")
    return jopt encContainer (serializeOpenapi3 vt vm vs defs c)
  | "serialize2" =>
    let vs ← decVariant (← field a "vs")
    let defs ← asList decSDef (← field a "defs")
    let c ← decContainer (← field a "container")
    return jopt encContainer (serializeSwagger2 vs defs c)
  | "jsonify" =>
    return encContainer (jsonify (← decVariant (← field a "v")) (← decContainer (← field a "container")))
  | "stringify" =>
    return encContainer (stringify (← asBool (← field a "isQuery")) (← decContainer (← field a "container")))
  | "cell" =>
    let vt ← decVariant (← field a "vt"); let vm ← decVariant (← field a "vm"); let vs ← decVariant (← field a "vs")
    let c ← decCell (← field a "cell")
    let name ← asText (← field a "name")
    let x ← decVal (← field a "val")
    let w := cellWire vt vm vs c name x
    return jobj [("wire", jopt jtext w), ("decoded", jopt encDVal (w.bind (decodeCell c name))),
                 ("coerce", encDVal (coerce x)), ("single", .bool (singleStringCell c)),
                 ("shape_ok", .bool (shapeOk c.ty x)), ("known_bad", .bool (!goodCell vt vm c)),
                 ("bad_defaults", .bool (badDefaultsCell c)), ("bad_matrix", .bool (badMatrixCell c)),
                 ("all_plain", .bool (allPlain x)),
                 ("shape", jopt (fun sh => .str (shapeName sh)) (cellShape c)),
                 ("eff_style", .str (reprStr (effStyle c))), ("eff_explode", .bool (effExplode c)),
                 ("wire_repaired", jopt jtext (cellWire .repaired .repaired .repaired c name x))]
  | "decode_cell" =>
    let c ← decCell (← field a "cell")
    return jobj [("decoded", jopt encDVal (decodeCell c (← asText (← field a "name")) (← asText (← field a "w")))),
                 ("single", .bool (singleStringCell c))]
  | "decode_list" =>
    let d ← asNat (← field a "d")
    return encDVal (decList d (← asText (← field a "w")))
  | "cell_entries" =>
    let vt ← decVariant (← field a "vt"); let vm ← decVariant (← field a "vm"); let vs ← decVariant (← field a "vs")
    let c ← decCell (← field a "cell")
    return jopt (fun es => Json.arr (es.map fun (k, v) => .arr [jtext k, jtext v]))
      (cellEntries vt vm vs c (← asText (← field a "name")) (← decVal (← field a "value")))
  | "decode_spread" =>
    let name ← asText (← field a "name")
    let entries ← asPairs asText asText (← field a "entries")
    match ← asStr (← field a "kind") with
    | "deepObject" => return encDVal (decodeDeepObject name entries)
    | "formArray" => return encDVal (decodeFormExplodedArray name entries)
    | s => .error s!"kind {s}"
  | "headers" =>
    let t ← match ← asStr (← field a "t") with
      | "requests" => pure Transport.requests | "wsgi" => pure Transport.wsgi | s => .error s!"transport {s}"
    let caseH ← asOpt decHeaders (optField a "caseH")
    let cfg ← asOpt decHeaders (optField a "cfg")
    let ua ← decPair (← field a "ua"); let tcid ← decPair (← field a "tcid")
    let mt ← asOpt asText (optField a "mediaType")
    let extra ← decHeaders (← field a "extra")
    return encHeaders (finalHeaders lowerAscii t caseH cfg ua tcid (toStr "Content-Type") mt
      (← asBool (← field a "multipart")) (← asBool (← field a "bodySet")) extra)
  | "template" =>
    let vq ← decVariant (← field a "vq"); let vt ← decVariant (← field a "vt"); let vm ← decVariant (← field a "vm")
    let vs ← decVariant (← field a "vs")
    let loc ← decLoc (← field a "loc")
    let defs ← asList decPDef (← field a "defs")
    return jopt encContainer (templateSerialize vq vt vm vs loc defs (← decContainer (← field a "container")))
  | "template_history" =>
    let vq ← decVariant (← field a "vq"); let vt ← decVariant (← field a "vt"); let vm ← decVariant (← field a "vm")
    let vs ← decVariant (← field a "vs")
    let defsL ← asList (fun j => do return (← decLoc (← field j "loc"), ← asList decPDef (← field j "defs"))) (← field a "defs")
    let defs : Loc → List PDef := fun l => match defsL.find? (·.1 = l) with | some (_, d) => d | none => []
    let conts ← asList (fun j => do return (← decLoc (← field j "loc"), ← decContainer (← field j "container"))) (← field a "conts")
    let ops ← asList (fun j => do
      match ← asStr (← field j "op") with
      | "unmodified" => return TOp.unmodified
      | "withParameter" => return TOp.withParameter (← decLoc (← field j "loc")) (← asText (← field j "name")) (← decVal (← field j "value"))
      | "withContainer" => return TOp.withContainer (← decLoc (← field j "loc")) (← decContainer (← field j "container"))
      | o => .error s!"template op {o}") (← field a "ops")
    let ca ← (match ← asStr (a.getD "copy" (.str "entry")) with
      | "entry" => pure CopyAt.entry | "beforeSerializer" => pure CopyAt.beforeSerializer | o => .error s!"copy {o}")
    let encLoc : Loc → Json := fun l => match l with
      | .path => .str "path" | .query => .str "query" | .header => .str "header" | .cookie => .str "cookie"
    return .arr ((runT ca ⟨vq, vt, vm, vs, defs⟩ ⟨conts⟩ ops).map fun cs =>
      .arr (cs.map fun (l, oc) => .arr [encLoc l, jopt encContainer oc]))
  | "utf8" =>
    let s ← asText (← field a "s")
    return jobj [("bytes", jbytes (utf8 s)), ("back", jopt jtext (utf8Decode (utf8 s)))]
  | "utf8_decode" => return jopt jtext (utf8Decode (← asBytes (← field a "bs")))
  | "empty_dicts" =>
    return encContainer (emptyDictsToStrings (← decContainer (← field a "container")))
  | "session_trace" =>
    let via ← decVia (← field a "via"); let pol ← decPolicy (← field a "pol")
    let vm ← decVariant (← field a "vm"); let vp ← decVariant (← field a "vp")
    let store ← asList decCaseS (← field a "store")
    let calls ← asList decCall (← field a "calls")
    let jar ← decDict (← field a "userJar")
    let es := runTrace via pol vm vp ⟨[], jar⟩ store calls
    return .arr (es.map fun e => jobj [("ix", jnat e.ix), ("wire", encSent e.out.wire), ("recorded", encSent e.out.recorded),
                                        ("caseAfter", encCaseS e.caseAfter)])
  | "session_judge" =>
    let store ← asList decCaseS (← field a "store")
    let calls ← asList decCall (← field a "calls")
    let jar ← decDict (← field a "userJar")
    let obs ← asList (fun j => do return (← decSent (← field j "wire"), ← decSent (← field j "recorded"))) (← field a "observed")
    return .arr (judgeTrace store jar calls obs)
  | _ => .error s!"unknown op {op}"

def main : IO Unit := run handle
