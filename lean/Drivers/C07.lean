import SV.Wire
import SV.Spec.C07
open SV SV.Wire SV.Model.C07 SV.Spec.C07

/-! Line-protocol driver for C07: JSON op in → JSON out (imports Model + Spec, not Props). -/

def decStrs (j : Json) : Except String (List Str) := asList asChars j

def decView (j : Json) : Except String View := do
  return ⟨← asOpt decStrs (optField j "tags"), ← asOpt asChars (optField j "opid"), ← asBool (← field j "dep"),
          ← asList asBool (← field j "fns")⟩

def decTarget : Json → Except String LinkTarget
  | .null => .ok .broken
  | j =>
    match j.get? "id", j.get? "ref" with
    | some i, _ => do return .byId (← asChars i)
    | _, some (.arr [m, p]) => do return .byRef (← asChars m) (← asChars p)
    | _, _ => .error "bad link target"

def decLink (j : Json) : Except String Link := do
  return ⟨← asChars (← field j "s"), ← asChars (← field j "n"), ← decTarget (optField j "t")⟩

def decOp (j : Json) : Except String Op := do
  return ⟨← asChars (← field j "m"), ← asChars (← field j "p"), ← asChars (← field j "label"),
          ← decView (← field j "raw"), ← decView (← field j "res"), ← asList decLink (← field j "links"),
          ← asBool (← field j "body"), ← asBool (← field j "pp")⟩

def decExpected : Json → Except String Expected
  | .str s => .ok (.one s.toList)
  | .arr xs => do return .many (← xs.mapM asChars)
  | _ => .error "bad expected"

def decCrit (j : Json) : Except String Crit :=
  match j with
  | .null => .ok Crit.none
  | .arr [e, r] => do return ⟨← asOpt decExpected e, ← asOpt asNat r⟩
  | _ => .error "bad crit"

def decFn : Json → Except String (Option Fn)
  | .null => .ok none
  | .str "dep" => .ok (some .isDeprecated)
  | j => do return some (.user (← asNat j))

def decArgs (j : Json) : Except String FilterArgs := do
  return ⟨← decFn (optField j "f"), ← decCrit (optField j "name"), ← decCrit (optField j "method"),
          ← decCrit (optField j "path"), ← decCrit (optField j "tag"), ← decCrit (optField j "operation_id")⟩

def decCall (j : Json) : Except String Call := do
  return ⟨← asBool (← field j "inc"), ← asBool (j.getD "dep" (.bool false)), ← decArgs j⟩

/-- regex tables: [[id, [[string, bool], …]], …]; anything not listed is `false` -/
def decRx (j : Json) : Except String Rx := do
  let tabs ← asPairs asNat (asPairs asChars asBool) j
  return fun i s =>
    match tabs.find? (·.1 == i) with
    | some (_, t) => match t.find? (·.1 == s) with
      | some (_, b) => b
      | none => false
    | none => false

def encErr : Err → Json
  | .expectedAndRegex => .str "expectedAndRegex"
  | .emptyFilter => .str "emptyFilter"
  | .filterExists => .str "filterExists"
  | .duplicateValues => .str "duplicateValues"

def labels (ops : List Op) : Json := .arr (ops.map fun o => jstr o.oasLabel)
def gqlLabels (ops : List Op) : Json := .arr (ops.map fun o => jstr o.label)

def encStat (s : Stat) : Json := .arr [jnat s.opsTotal, jnat s.opsSelected, jnat s.linksTotal, jnat s.linksSelected]

def encTransition (t : Transition) : Json := .arr [jstr t.source, jstr t.status, jstr t.name, jstr t.target]

def encRule : Rule → Json
  | .link t => encTransition t
  | .root l => .arr [.str "RANDOM", jstr l]

def encOptList (f : α → Json) : Option (List α) → Json
  | none => .null
  | some xs => .arr (xs.map f)

def attrName : Attr → String
  | .label => "name" | .method => "method" | .path => "path" | .tag => "tag" | .operationId => "operation_id"

def encMatcher : Matcher → Json
  | .value a (.one s) => .arr [.str (attrName a), jstr s]
  | .value a (.many xs) => .arr [.str (attrName a), .arr (xs.map jstr)]
  | .regex a i => .arr [.str (attrName a), .str "regex", jnat i]
  | .func .isDeprecated => .str "is_deprecated"
  | .func (.user i) => .arr [.str "fn", jnat i]

def encFS (fs : FilterSet) : Json :=
  jobj [("includes", .arr (fs.includes.map fun f => .arr (f.map encMatcher))),
        ("excludes", .arr (fs.excludes.map fun f => .arr (f.map encMatcher)))]

/-- everything observable about one Open API document under one filter set -/
def observeOas (rx : Rx) (fs : FilterSet) (doc : Doc) : List (String × Json) :=
  [("all", labels (getAllOperations rx fs doc)),
   ("iter", jnat (operationIter rx fs doc).length),
   ("stat_asFound", encStat (measureStatistic .asFound rx fs doc)),
   ("stat_repaired", encStat (measureStatistic .repaired rx fs doc)),
   ("trans", encOptList encTransition (collectTransitions rx fs doc)),
   ("rules", encOptList encRule (stateMachineRules rx fs doc)),
   ("spec", labels (offered rx fs doc)),
   ("spec_links", jnat ((linkPairs (operations doc)).filter (linkOffered rx fs doc)).length)]

def runProgram (rx : Rx) (doc : Doc) (gql : Bool) (j : Json) : Except String Json := do
  let calls ← asList decCall (← field j "calls")
  match applyCalls FilterSet.empty calls with
  | .error e => return jobj [("build", encErr e)]
  | .ok fs =>
    if gql then
      let st := gqlStatistic rx fs doc
      return jobj [("build", .str "ok"), ("fs", encFS fs), ("all", gqlLabels (gqlAllOperations rx fs doc)),
                   ("stat", .arr [jnat st.1, jnat st.2]), ("spec", gqlLabels (gqlOffered rx fs doc))]
    else
      let base := [("build", Json.str "ok"), ("fs", encFS fs)] ++ observeOas rx fs doc
      match j.get? "lazy" with
      | some (.arr lz) =>
        let lcalls ← lz.mapM decCall
        match applyCalls FilterSet.empty lcalls with
        | .error e => return jobj (base ++ [("lazy", jobj [("build", encErr e)])])
        | .ok lfs =>
          return jobj (base ++ [("lazy", jobj [
            ("build", .str "ok"),
            ("asFound", labels (getAllOperations rx (lazyFilterSet .asFound fs lfs) doc)),
            ("repaired", labels (getAllOperations rx (lazyFilterSet .repaired fs lfs) doc)),
            ("spec", labels (lazyOffered rx fs lfs doc))])])
      | _ => return jobj base

def decCli (j : Json) : Except String CliArgs := do
  let l (k : String) : Except String (List Str) := do decStrs (j.getD k (.arr []))
  let r (k : String) : Except String (Option Nat) := do asOpt asNat (optField j k)
  return {
    includePath := ← l "include_path", includeMethod := ← l "include_method", includeName := ← l "include_name",
    includeTag := ← l "include_tag", includeOperationId := ← l "include_operation_id",
    includePathRegex := ← r "include_path_regex", includeMethodRegex := ← r "include_method_regex",
    includeNameRegex := ← r "include_name_regex", includeTagRegex := ← r "include_tag_regex",
    includeOperationIdRegex := ← r "include_operation_id_regex",
    excludePath := ← l "exclude_path", excludeMethod := ← l "exclude_method", excludeName := ← l "exclude_name",
    excludeTag := ← l "exclude_tag", excludeOperationId := ← l "exclude_operation_id",
    excludePathRegex := ← r "exclude_path_regex", excludeMethodRegex := ← r "exclude_method_regex",
    excludeNameRegex := ← r "exclude_name_regex", excludeTagRegex := ← r "exclude_tag_regex",
    excludeOperationIdRegex := ← r "exclude_operation_id_regex",
    includeBy := ← r "include_by", excludeBy := ← r "exclude_by",
    excludeDeprecated := ← asBool (j.getD "exclude_deprecated" (.bool false)) }

def decHOp (j : Json) : Except String HOp := do
  match j.get? "op" with
  | some (.str "derive") => return .derive (← asNat (← field j "p")) (← decCall (← field j "call"))
  | some (.str "share") => return .share (← asNat (← field j "p"))
  | some (.str "resolve") => return .resolve (← asNat (← field j "l")) (← asNat (← field j "f"))
  | some (.str "adopt") => return .adopt (← decCli (← field j "cli"))
  | _ => .error "bad history op"

def decVariant : Json → Except String Variant
  | .str "asFound" => .ok .asFound
  | .str "repaired" => .ok .repaired
  | _ => .error "bad variant"

/-- every object of a history state: what it offers and reports (heap semantics) next to what the value semantics
    (specification) says it must offer; `gql`: the GraphQL selection code (names only, no links) -/
def observeObjs (gql : Bool) (rx : Rx) (doc : Doc) (s : HState) (vals : List FilterSet) : List (String × Json) :=
  if gql then
    [("objs", .arr (s.values.map fun fs =>
        let st := gqlStatistic rx fs doc
        jobj [("all", gqlLabels (gqlAllOperations rx fs doc)),
              ("stat_asFound", .arr [jnat st.1, jnat st.2, jnat 0, jnat 0]),
              ("stat_repaired", .arr [jnat st.1, jnat st.2, jnat 0, jnat 0])])),
     ("spec", .arr (vals.map fun fs => gqlLabels (gqlOffered rx fs doc)))]
  else
    [("objs", .arr (s.values.map fun fs => jobj [
        ("all", labels (getAllOperations rx fs doc)),
        ("stat_asFound", encStat (measureStatistic .asFound rx fs doc)),
        ("stat_repaired", encStat (measureStatistic .repaired rx fs doc))])),
     ("spec", .arr (vals.map fun fs => labels (offered rx fs doc)))]

/-- a history step by step: model = `hstep` (variant `v`), specification = `vstep .repaired` -/
def runHistory (gql : Bool) (v : Variant) (rx : Rx) (doc : Doc) : HState → List FilterSet → List HOp → List Json
  | _, _, [] => []
  | s, vals, op :: rest =>
    let r := hstep v s op
    let vals' := vstep .repaired vals op
    let err := match r.2 with
      | some e => encErr e
      | none => Json.null
    let specErr := match vstepErr vals op with
      | some e => encErr e
      | none => Json.null
    jobj ([("err", err), ("spec_err", specErr)] ++ observeObjs gql rx doc r.1 vals')
      :: runHistory gql v rx doc r.1 vals' rest

def handle : Handler := fun op a => do
  match op with
  | "history" =>
    -- {rx, ops, roots, variant, histories:[[step…]…]} → per history, per step: refusal + every object's observables
    let rx ← decRx (← field a "rx")
    let doc ← asList decOp (← field a "ops")
    let n ← asNat (← field a "roots")
    let v ← decVariant (← field a "variant")
    let gql ← asBool (a.getD "gql" (.bool false))
    let hs ← asArr (← field a "histories")
    return .arr (← hs.mapM fun j => do
      let steps ← asList decHOp j
      return .arr (runHistory gql v rx doc (HState.roots n) (List.replicate n FilterSet.empty) steps))
  | "tables" =>
    return jobj [("http_methods", .arr (httpMethods.map jstr))]
  | "run" =>
    -- {rx, ops, gql?, programs:[{calls:[…], lazy?:[…]}]} → one result per program
    let rx ← decRx (← field a "rx")
    let doc ← asList decOp (← field a "ops")
    let gql ← asBool (a.getD "gql" (.bool false))
    let progs ← asArr (← field a "programs")
    return .arr (← progs.mapM (runProgram rx doc gql))
  | "cli" =>
    -- {rx, ops, args:[{…}]} → one result per argument set
    let rx ← decRx (← field a "rx")
    let doc ← asList decOp (← field a "ops")
    let argss ← asArr (← field a "args")
    return .arr (← argss.mapM fun j => do
      let c ← decCli j
      match cliInto c with
      | .error e => return jobj [("build", encErr e)]
      | .ok fs => return jobj [("build", .str "ok"), ("fs", encFS fs), ("all", labels (getAllOperations rx fs doc)),
                               ("stat_asFound", encStat (measureStatistic .asFound rx fs doc)),
                               ("stat_repaired", encStat (measureStatistic .repaired rx fs doc)),
                               ("spec", labels (cliOffered rx c doc))])
  | _ => .error s!"unknown op {op}"

def main : IO Unit := run handle
