import SV.Wire
import SV.Spec.C08
open SV SV.Wire SV.Model.C08 SV.Spec.C08

def decParam (j : Json) : Except String Param := do
  return ⟨← asOpt asStr (optField j "name"), ← asOpt asStr (optField j "in"),
          ← asBool (← field j "required"), ← asNat (← field j "tag")⟩

def decRef (j : Json) : Except String (String × String) :=
  match j with
  | .arr [.str f, .str p] => .ok (f, p)
  | _ => .error "expected [file, ptr]"

def decPEntry (j : Json) : Except String PEntry :=
  match j with
  | .str _ => .ok .junk
  | _ =>
    match j.get? "p", j.get? "ref" with
    | some p, _ => do return .inline (← decParam p)
    | _, some r => do let (f, p) ← decRef r; return .ref f p
    | _, _ => .error "bad parameter entry"

def decBody (j : Json) : Except String BodyField :=
  match j with
  | .null => .ok .absent
  | _ => do
    let c ← asOpt (asPairs asStr asNat) (optField j "content")
    return .present c (← asBool (← field j "required"))

def decOpDef (j : Json) : Except String OpDef := do
  return ⟨← asOpt asStr (optField j "id"), ← asList decPEntry (← field j "params"), ← decBody (optField j "body"),
          ← asOpt (asList asStr) (optField j "security")⟩

def decItem (j : Json) : Except String PathItem := do
  return ⟨← asList decPEntry (← field j "shared"), ← asPairs asStr decOpDef (← field j "entries")⟩

def decPathEntry (j : Json) : Except String PathEntry :=
  match j.get? "item", j.get? "ref" with
  | some it, _ => do return .inline (← decItem it)
  | _, some r => do let (f, p) ← decRef r; return .ref f p
  | _, _ => .error "bad path entry"

def decFile (j : Json) : Except String FileDoc := do
  return ⟨← asPairs asStr decPEntry (← field j "params"), ← asPairs asStr decItem (← field j "items")⟩

def decLink (j : Json) : Except String ((Nat × String) × Nat) :=
  match j with
  | .arr [a, .str f, b] => do return ((← asNat a, f), ← asNat b)
  | _ => .error "bad link"

def decScheme (j : Json) : Except String SecScheme := do
  return ⟨← asStr (← field j "key"), ← asOpt asStr (optField j "type"), ← asOpt asStr (optField j "name"),
          ← asOpt asStr (optField j "in")⟩

def decDoc (j : Json) : Except String Doc := do
  return ⟨← asPairs asStr decPathEntry (← field j "paths"), ← asList decFile (← field j "files"),
          ← asList decLink (← field j "links"), ← asList decScheme (← field j "schemes"),
          ← asList asStr (← field j "security")⟩

def decVariant (j : Json) (k : String) : Except String Variant := do
  return if (← asBool (← field j k)) then .repaired else .asFound

def decCfg (j : Json) : Except String Cfg := do
  return ⟨← decVariant j "merge", ← decVariant j "lookupScope", ← decVariant j "typeErr", ← decVariant j "suspend",
          ← decVariant j "populate"⟩

def decAccess (j : Json) : Except String Access :=
  match j with
  | .arr [.str "iterate"] => .ok .iterate
  | .arr [.str "start"] => .ok .iterStart
  | .arr [.str "next"] => .ok .iterNext
  | .arr [.str "pm", .str p, .str m] => .ok (.byPM p m)
  | .arr [.str "id", .str i] => .ok (.byId i)
  | .arr [.str "ref", .bool f, .str p, .str m] => .ok (.byRef ⟨f, p, m⟩)
  | _ => .error "bad access"

def jopt (f : α → Json) : Option α → Json
  | none => .null
  | some a => f a

def encParam (p : Param) : Json :=
  jobj [("name", jopt .str p.name), ("in", jopt .str p.loc), ("required", .bool p.required), ("tag", jnat p.tag)]

def encErr : Err → Json
  | .ref => .str "ref" | .key => .str "lookup" | .invalid => .str "invalid" | .type => .str "type"

def encOp (o : Operation) : Json :=
  jobj [("path", .str o.path), ("method", .str o.method),
        ("path_parameters", .arr (o.pathParams.map encParam)), ("headers", .arr (o.headers.map encParam)),
        ("cookies", .arr (o.cookies.map encParam)), ("query", .arr (o.query.map encParam)),
        ("body", .arr (o.body.map fun b => .arr [.str b.media, jnat b.tag, .bool b.required]))]

def encItem : Item → Json
  | .ok o => jobj [("ok", encOp o)]
  | .err p m e => jobj [("err", .arr [.str p, jopt .str m]), ("kind", encErr e)]

def encRes : Res → Json
  | .op i o => jobj [("op", jnat i), ("o", encOp o)]
  | .err e => jobj [("err", encErr e)]
  | .items xs r => jobj [("items", .arr (xs.map encItem)), ("raised", jopt encErr r)]
  | .next x r => jobj [("next", jopt encItem x), ("raised", jopt encErr r)]
  | .unit => .null

def encScope (s : Scope) : Json := .arr [jnat s.file, jopt .str s.frag]

/-- results and resolver stacks after every access -/
def trace (cfg : Cfg) (d : Doc) : St → List Access → List (Res × List Scope)
  | _, [] => []
  | s, a :: rest =>
    let (s', r) := step cfg d s a
    (r, s'.stack) :: trace cfg d s' rest

def decOperation (j : Json) : Except String Operation := do
  let ps := fun k => do asList decParam (← field j k)
  return ⟨← asStr (← field j "path"), ← asStr (← field j "method"), ← ps "path_parameters", ← ps "headers",
          ← ps "cookies", ← ps "query", []⟩

def handle : Handler := fun op a => do
  match op with
  | "run" =>
    let cfg ← decCfg (← field a "cfg")
    let d ← decDoc (← field a "doc")
    let runs ← asList (asList decAccess) (← field a "runs")
    return jobj [
      ("wf", .bool (wfDoc d)),
      ("uniqueIds", .bool (uniqueIds cfg d)),
      ("populateOk", .bool (populateOk cfg d)),
      ("documented", .arr ((documented d).map fun (p, m) => .arr [.str p, jopt .str m])),
      ("runs", .arr (runs.map fun accs => .arr ((trace cfg d St.init accs).map fun (r, st) =>
          jobj [("r", encRes r), ("stack", .arr (st.map encScope))])))]
  | "judge" =>
    -- {op: [Param], shared: [Param], offered: Operation}
    let o ← asList decParam (← field a "op")
    let s ← asList decParam (← field a "shared")
    let off ← decOperation (← field a "offered")
    return jobj [("conforms", .bool (conforms o s off)),
                 ("effective", .arr ((effective o s).map encParam)),
                 ("distinct", .bool (distinctKeys o && distinctKeys s))]
  | "tables" =>
    return jobj [("httpMethods", .arr (httpMethods.map .str)), ("hops", jnat hops)]
  | _ => .error s!"unknown op {op}"

def main : IO Unit := run handle
