import SV.Wire
import SV.Spec.C09
open SV SV.Wire SV.Model.C09 SV.Spec.C09

def decVariant (j : Json) : Except String Variant := do
  match ← asStr j with
  | "asFound" => return .asFound
  | "repaired" => return .repaired
  | s => .error s!"bad variant {s}"

def decVariants (j : Json) : Except String Variants := do
  return ⟨← decVariant (← field j "emptyHeader"), ← decVariant (← field j "dataAt"), ← decVariant (← field j "filter")⟩

def decTable (j : Json) : Except String Table := asPairs asChars (asOpt asChars) j

/-- `body` is text or null; a bytes body is sent as `body_bytes` (array of 0..255) and decoded by the model -/
def decBody (j : Json) : Except String (Option Str) :=
  match optField j "body_bytes" with
  | .null => asOpt asChars (optField j "body")
  | bs => (asList asNat bs).map fun l => some (utf8DecodeReplace l)

def decReq (j : Json) : Except String Req := do
  let body ← decBody j
  return ⟨← asChars (← field j "method"), ← asChars (← field j "url"), body,
          ← asBool (← field j "verify"), ← asPairs asChars asChars (← field j "headers"),
          ← asList asChars (← field j "known")⟩

def decClients (j : Json) : Except String Clients := do
  return ⟨← asChars (← field j "curlAgent"), ← asPairs asChars asChars (← field j "requestsOwn"),
          ← asChars (← field j "caseIdHeader")⟩

def encPairs (hs : List (Str × Str)) : Json := .arr (hs.map fun kv => .arr [jstr kv.1, jstr kv.2])
def encOptStr : Option Str → Json | none => .null | some s => jstr s
def encWords (ws : List Str) : Json := .arr (ws.map jstr)
def encOptWords : Option (List Str) → Json | none => .null | some ws => encWords ws

def encResult : CurlResult → Json
  | .request m u hs b k => jobj [("kind", .str "request"), ("method", jstr m), ("url", jstr u), ("headers", encPairs hs),
                                 ("body", encOptStr b), ("insecure", .bool k)]
  | .readsFile => jobj [("kind", .str "readsFile")]
  | .globbed => jobj [("kind", .str "globbed")]
  | .unsupported => jobj [("kind", .str "unsupported")]

def encTable (t : Table) : Json := .arr (t.map fun e => .arr [jstr e.1, encOptStr e.2])

/-! recorder histories -/

def decRecReq (j : Json) : Except String RecRequest := do
  return ⟨← asChars (← field j "method"), ← asChars (← field j "uri"), ← asOpt asChars (optField j "body"),
          ← asPairs asChars (asList asChars) (← field j "headers")⟩

def decOp (j : Json) : Except String Op := do
  match ← asStr (← field j "k") with
  | "case" => return .recordCase (← asOpt asChars (optField j "parent")) ⟨← asChars (← field j "id"), ← asNat (← field j "obj")⟩
  | "response" => return .recordResponse (← asChars (← field j "id")) (← decRecReq (← field j "req")) (← asBool (← field j "verify"))
  | "request" => return .recordRequest (← asChars (← field j "id")) (← decRecReq (← field j "req"))
  | "success" => return .checkSuccess (← asChars (← field j "name")) (← asChars (← field j "id"))
  | "failure" => return .onFailure (← asChars (← field j "name")) (← asChars (← field j "pid")) (← asOpt asChars (optField j "fcid"))
  | s => .error s!"bad op {s}"

def encErr : RecErr → Json
  | .keyError => .str "KeyError"
  | .assertionError => .str "AssertionError"
  | .indexError => .str "IndexError"

def encFd (fd : FailureData) : Json :=
  jobj [("id", jstr fd.case.id), ("obj", jnat fd.case.obj), ("headers", encPairs fd.headers), ("verify", .bool fd.verify)]

def encOutcome : Except RecErr FailureData → Json
  | .ok fd => jobj [("ok", encFd fd)]
  | .error e => jobj [("error", encErr e)]

def encRecReq (r : RecRequest) : Json :=
  jobj [("method", jstr r.method), ("uri", jstr r.uri), ("body", encOptStr r.body),
        ("headers", .arr (r.headers.map fun kv => .arr [jstr kv.1, encWords kv.2]))]

def handle : Handler := fun op a => do
  match op with
  | "quote" => return .arr ((← asList asChars (← field a "ss")).map fun s => jstr (shlexQuote s))
  | "shparse" => return .arr ((← asList asChars (← field a "ss")).map fun s => encOptWords (shParse s))
  | "curlsem" => return .arr ((← asList (asList asChars) (← field a "argvs")).map fun v => encResult (curlSem v))
  | "curlwire" =>
    -- the specification of everything curl sends (its own fields included) for an argument vector
    let c ← decClients (← field a "clients")
    return .arr ((← asList (asList asChars) (← field a "argvs")).map fun v =>
      jobj [("sem", encResult (curlSem v)),
            ("wire", match curlWire c v with | some w => encPairs w | none => .null)])
  | "table" =>
    -- the code model of get_excluded_headers()
    return encTable (excludedTable (← asPairs asChars asChars (← field a "defaults")) (← asChars (← field a "ua"))
      (← asChars (← field a "caseIdHeader")))
  | "tablewithin" =>
    -- the specification alone, applied to the table the implementation built
    let c ← decClients (← field a "clients")
    let tbl ← decTable (← field a "tbl")
    return jobj [("within", .bool (tableWithin c tbl)), ("outside", encTable (tableOutside c tbl)),
                 ("static", encTable (staticAuto c))]
  | "headersent" =>
    return .arr ((← asList asChars (← field a "hs")).map fun h =>
      match headerSent h with | none => .null | some kv => .arr [jstr kv.1, jstr kv.2])
  | "utf8" => return .arr ((← asList (asList asNat) (← field a "bs")).map fun b => jstr (utf8DecodeReplace b))
  | "utf8enc" =>
    return .arr ((← asList asChars (← field a "ss")).map fun s => .arr ((utf8Encode s).map jnat))
  | "filter" =>
    let f ← decVariant (← field a "f")
    let tbl ← decTable (← field a "tbl")
    let known ← asList asChars (← field a "known")
    return .arr ((← asList (asPairs asChars asChars) (← field a "hss")).map fun hs => encPairs (filterHeaders f tbl known hs))
  | "generate" =>
    -- the code model: command text, the argv it denotes, and what sh + curl make of the text
    let vs ← decVariants (← field a "vs")
    let tbl ← decTable (← field a "tbl")
    let r ← decReq (← field a "req")
    let cmd := generate vs tbl r
    let parsed := shParse cmd
    return jobj [("cmd", jstr cmd), ("argv", encWords (argvOf vs tbl r)), ("parsed", encOptWords parsed),
                 ("sem", match parsed with | some v => encResult (curlSem v) | none => .null), ("wf", .bool (wf r))]
  | "judge" =>
    -- the specification alone, applied to a command text produced by the implementation
    -- (the table of automatic fields is the specification's own: computed from the measured clients and the original)
    let c ← decClients (← field a "clients")
    let o ← field a "orig"
    let orig : Original := ⟨← asChars (← field o "method"), ← asChars (← field o "url"),
                            ← asPairs asChars asChars (← field o "headers"), ← asOpt asChars (optField o "body"),
                            ← asBool (← field o "verify")⟩
    let cmd ← asChars (← field a "cmd")
    let parsed := shParse cmd
    let auto := specAuto c orig
    return jobj [("argv", encOptWords parsed),
                 ("sem", match parsed with | some v => encResult (curlSem v) | none => .null),
                 ("wire", match parsed with
                          | some v => (match curlWire c v with | some w => encPairs w | none => .null)
                          | none => .null),
                 ("auto", encTable auto),
                 ("unique", .bool (namesUnique orig.headers)),
                 ("ok_table", .bool (reproduces auto orig cmd)),
                 ("ok_wire", .bool (reproducesOnWire c orig cmd)),
                 ("ok", .bool (reproduces auto orig cmd && reproducesOnWire c orig cmd))]
  | "formdecode" => return .arr ((← asList asChars (← field a "ss")).map fun s => .arr ((formDecode s).map jnat))
  | "sanitize" =>
    -- the code model of sanitize_value on flat mappings
    let cfg : SanConfig := ⟨← asList asChars (← field a "keys"), ← asList asChars (← field a "markers"),
                            ← asChars (← field a "replacement")⟩
    return .arr ((← asList (asPairs asChars asChars) (← field a "hss")).map fun hs => encPairs (sanitizeFlat cfg hs))
  | "judgeredacted" =>
    -- the specification alone, sanitization enabled: the command against the original, up to redacted values
    let c ← decClients (← field a "clients")
    let ms ← asList asChars (← field a "markers")
    let o ← field a "orig"
    let orig : Original := ⟨← asChars (← field o "method"), ← asChars (← field o "url"),
                            ← asPairs asChars asChars (← field o "headers"), ← asOpt asChars (optField o "body"),
                            ← asBool (← field o "verify")⟩
    let cmd ← asChars (← field a "cmd")
    let parsed := shParse cmd
    let auto := specAuto c orig
    return jobj [("argv", encOptWords parsed),
                 ("sem", match parsed with | some v => encResult (curlSem v) | none => .null),
                 ("auto", encTable auto),
                 ("ok", .bool (reproducesRedacted ms auto orig cmd)),
                 ("ok_plain", .bool (reproduces auto orig cmd))]
  | "history" =>
    -- the code model: the recorder after the history (the sample of a failed check is the data selected for it)
    let ops ← asList decOp (← field a "ops")
    let st := SV.Model.C09.run (fun fd => fd) ops
    return jobj [
      ("outcomes", .arr ((outcomes (fun fd => fd) Recorder.empty ops).map encOutcome)),
      ("checks", .arr (st.checks.map fun kv => .arr [jstr kv.1, .arr (kv.2.map fun n =>
          .arr [jstr n.name, match n.sample with | none => .null | some fd => encFd fd])])),
      ("cases", .arr (st.cases.map fun kv => .arr [jstr kv.1, jnat kv.2.value.obj, encOptStr kv.2.parent])),
      ("interactions", .arr (st.interactions.map fun kv => jstr kv.1))]
  | "select" =>
    -- the specification alone: what the report of a failure of test case `key` stands for after `n` operations
    let ops ← asList decOp (← field a "ops")
    let h := ops.take (← asNat (← field a "n"))
    let key ← asChars (← field a "key")
    return jobj [("data", encOutcome (expectedData h key)),
                 ("sent", match lastSent h key with | none => .null | some ia => encRecReq ia.request)]
  | _ => .error s!"unknown op {op}"

def main : IO Unit := run handle
