import SV.Wire
import SV.Spec.C10
open SV SV.Wire SV.Model.C10 SV.Spec.C10

/-! wire form of `J`: scalars as themselves, arrays as {"a":[…]}, objects as {"o":[[k,v],…]} (ordered) -/
partial def decJ : Json → Except String J
  | .null => .ok .null
  | .bool b => .ok (.bool b)
  | .num m e => .ok (.num m e)
  | .str s => .ok (.str s.toList)
  | .obj [("a", .arr xs)] => do return .arr (← xs.mapM decJ)
  | .obj [("o", .arr ps)] => do
    return .obj (← ps.mapM fun p => match p with
      | .arr [.str k, v] => do return (k.toList, ← decJ v)
      | _ => .error "bad pair")
  | _ => .error "bad J"

partial def encJ : J → Json
  | .null => .null
  | .bool b => .bool b
  | .num m e => .num m e
  | .str s => jstr s
  | .arr xs => jobj [("a", .arr (xs.map encJ))]
  | .obj kvs => jobj [("o", .arr (kvs.map fun (k, v) => .arr [jstr k, encJ v]))]

def encVal : Val → Json
  | .unres => jobj [("unres", .bool true)]
  | .ok j => jobj [("v", encJ j)]

def encPErr : PErr → String
  | .runtimeExpr => "RuntimeExpressionError" | .unknownToken => "UnknownToken" | .stopIteration => "StopIteration"

def encEErr : EErr → String
  | .parse e => "parse:" ++ encPErr e | .typeError => "TypeError" | .indexError => "IndexError"
  | .jsonError => "JSONDecodeError" | .outOfModel => "outOfModel"

def encRes : Except EErr Val → Json
  | .ok v => encVal v
  | .error e => jobj [("err", .str (encEErr e))]

def encTokType : TokType → String
  | .variable => "VARIABLE" | .string => "STRING" | .pointer => "POINTER" | .dot => "DOT"
  | .lbracket => "LBRACKET" | .rbracket => "RBRACKET"

def encOptStr : Option Str → Json | none => .null | some s => jstr s

def encNode : Node → Json
  | .str v => .arr [.str "String", jstr v]
  | .url => .arr [.str "URL"]
  | .method => .arr [.str "Method"]
  | .statusCode => .arr [.str "StatusCode"]
  | .nonBodyRequest l p x => .arr [.str "NonBodyRequest", jstr l, jstr p, encOptStr x]
  | .bodyRequest p => .arr [.str "BodyRequest", encOptStr p]
  | .headerResponse p x => .arr [.str "HeaderResponse", jstr p, encOptStr x]
  | .bodyResponse p => .arr [.str "BodyResponse", encOptStr p]

def encParse : Except PErr (List Node) → Json
  | .ok ns => jobj [("nodes", .arr (ns.map encNode))]
  | .error e => jobj [("err", .str (encPErr e))]

def decVariant (j : Json) : Except String Variant := do
  match ← asStr j with
  | "asFound" => return .asFound
  | "repaired" => return .repaired
  | s => .error s!"bad variant {s}"

/-- {"idx","stray","embBody"} -/
def decCfg (j : Json) : Except String Cfg := do
  return ⟨← decVariant (← field j "idx"), ⟨← decVariant (← field j "stray"), ← decVariant (← field j "embBody")⟩⟩

/-- [[pattern, groups|null]] -/
def decRx (j : Json) : Except String RxOracle := do
  let tbl ← asPairs asChars (asOpt asNat) j
  return fun p => (tbl.find? (·.1 == p)).bind (·.2)

/-- [[pattern, value, group1|null]] -/
def decExt (j : Json) : Except String ExtOracle := do
  let rows ← (← asArr j).mapM fun r => match r with
    | .arr [p, v, g] => do return (← asChars p, ← asChars v, ← asOpt asChars g)
    | _ => .error "bad ext row"
  return fun p v => (rows.find? (fun r => r.1 == p && r.2.1 == v)).bind (·.2.2)

def decDict (j : Json) : Except String (List (Str × J)) := asPairs asChars decJ j

def decCtx (j : Json) : Except String Ctx := do
  return {
    url := ← asChars (← field j "url"), method := ← asChars (← field j "method"),
    status := ← asNat (← field j "status"),
    query := ← asOpt decDict (optField j "query"), path := ← asOpt decDict (optField j "path"),
    headers := ← asOpt decDict (optField j "headers"),
    reqBody := ← decJ (← field j "reqBody"),
    respHeaders := ← asPairs asChars (asList asChars) (← field j "respHeaders"),
    respBody := ← (match optField j "respBody" with
      | .obj [("json", v)] => do return some (← decJ v)
      | _ => .ok none) }

partial def jDepth : J → Nat
  | .arr xs => 1 + (xs.map jDepth).foldl max 0
  | .obj kvs => 1 + (kvs.map fun kv => jDepth kv.2).foldl max 0
  | _ => 0


def decSource (j : Json) : Except String Source := do
  match j with
  | .arr [.str "body", p] => return .body (← asOpt asChars p)
  | .arr [.str "header", n, r] => return .header (← asChars n) (← asOpt asChars r)
  | .arr [.str "query", n, r] => return .query (← asChars n) (← asOpt asChars r)
  | .arr [.str "path", n, r] => return .path (← asChars n) (← asOpt asChars r)
  | _ => .error "bad source"

def decExpr (j : Json) : Except String Expr := do
  match j with
  | .arr [.str "url"] => return .url
  | .arr [.str "method"] => return .method
  | .arr [.str "statusCode"] => return .statusCode
  | .arr [.str "request", s] => return .request (← decSource s)
  | .arr [.str "response", s] => return .response (← decSource s)
  | _ => .error "bad expr"

def decPart (j : Json) : Except String Part := do
  match j with
  | .arr [.str "lit", s] => return .lit (← asChars s)
  | .arr [.str "dot"] => return .dot
  | .arr [.str "emb", e] => return .emb (← decExpr e)
  | _ => .error "bad part"

def decTemplate (j : Json) : Except String Template := do
  match j with
  | .arr [.str "bare", e] => return .bare (← decExpr e)
  | .arr [.str "parts", .arr ps] => return .parts (← ps.mapM decPart)
  | _ => .error "bad template"

def exprPointers : Expr → List Str
  | .request (.body (some p)) => [p]
  | .response (.body (some p)) => [p]
  | _ => []

def templatePointers : Template → List Str
  | .bare e => exprPointers e
  | .parts ps => ps.flatMap fun p => match p with | .emb e => exprPointers e | _ => []

def pointerLenient (p : Str) : Bool :=
  match refTokens p with | some ts => ts.any lenientIndex | none => false

def encExtracted (e : Extracted) : Json := encRes e

def encOptBool : Option Bool → Json | none => .str "raises" | some b => .bool b

def handle : Handler := fun op a => do
  match op with
  | "tokenize" =>
    let e ← asChars (← field a "e")
    return .arr ((tokenize e).map fun t => .arr [jstr t.value, jnat t.end_, .str (encTokType t.type)])
  | "pointer" =>
    let doc ← decJ (← field a "doc")
    let p ← asChars (← field a "ptr")
    return jobj [("asFound", encVal (resolvePointer .asFound doc p)),
                 ("repaired", encVal (resolvePointer .repaired doc p)),
                 ("spec", encVal (specResolve doc p)),
                 ("lenient", .bool (match refTokens p with | some ts => ts.any lenientIndex | none => false))]
  | "pyint" =>
    let s ← asChars (← field a "s")
    return jobj [("int", match pyInt s with | some i => .num i 0 | none => .null),
                 ("rfc", match rfcIndex s with | some i => jnat i | none => .null)]
  | "tables" =>
    return jobj [("zeros", .arr (digitZeros.map jnat)),
                 ("ws", .arr (((List.range 0x3100).filter fun n => isPyWs (Char.ofNat n)).map jnat))]
  | "parse" =>
    let e ← asChars (← field a "e")
    let rx ← decRx (← field a "rx")
    let v := fun s e' => encParse (parse ⟨s, e'⟩ rx e)
    return jobj [("asFound", v .asFound .asFound), ("strayRepaired", v .repaired .asFound),
                 ("embRepaired", v .asFound .repaired), ("repaired", v .repaired .repaired)]
  | "eval" =>
    let expr ← decJ (← field a "expr")
    let nested ← asBool (← field a "nested")
    let ctx ← decCtx (← field a "ctx")
    let rx ← decRx (← field a "rx")
    let ext ← decExt (← field a "ext")
    let cfg ← decCfg (← field a "cfg")
    let base := [("model", encRes (evalAny cfg rx ext ctx (jDepth expr + 1) nested expr))]
    match a.get? "tmpl" with
    | none => return jobj base
    | some tj =>
      let t ← decTemplate tj
      return jobj (base ++ [
        ("wf", .bool (wfTemplate rx t)),
        ("rendered", jstr (render t)),
        ("spec", encRes (specEval ext ctx t)),
        ("lenient", .bool ((templatePointers t).any pointerLenient)),
        ("specLenient", encRes (evalStr ⟨.asFound, ⟨.repaired, .repaired⟩⟩ rx ext ctx (render t)))])
  | "status" =>
    -- {all:[keys], links:[keys], status}
    let allKeys ← asList asChars (← field a "all")
    let links ← asList asChars (← field a "links")
    let s ← asNat (← field a "status")
    return jobj [
      ("filters", .arr (links.map fun k => encOptBool (responseFilter k allKeys s))),
      ("matcher", match responseMatcher allKeys s links with
        | none => .str "raises" | some none => .null | some (some k) => jstr k),
      ("spec", .arr (links.map fun k => .bool (specFollows k allKeys s))),
      ("valid", .arr (allKeys.map fun k => .bool (k == sDefault || validKey k)))]
  | "link" =>
    -- {params:[[name, exprJ, tmpl|null]], body:{"v":J}|null, mergeBody, source:[[name,loc]], target:[[name,loc]],
    --  ctx, rx, ext, cfg, generated: J}
    let cfg ← decCfg (← field a "cfg")
    let rx ← decRx (← field a "rx")
    let ext ← decExt (← field a "ext")
    let ctx ← decCtx (← field a "ctx")
    let rows ← (← asArr (← field a "params")).mapM fun r => match r with
      | .arr [n, e, t] => do return (← asChars n, ← decJ e, ← asOpt decTemplate t)
      | _ => .error "bad param row"
    let source ← asPairs asChars asChars (← field a "source")
    let target ← asPairs asChars asChars (← field a "target")
    let mergeBody ← asBool (← field a "mergeBody")
    let generated ← decJ (← field a "generated")
    let body ← (match optField a "body" with
      | .obj [("v", v)] => do return some (← decJ v)
      | _ => .ok none)
    let ev := fun (e : J) => evalAny cfg rx ext ctx 1 false e
    match normalizeParams cfg.p rx source target (rows.map fun r => (r.1, r.2.1)) with
    | none => return jobj [("construct", .str "KeyError")]
    | some (ps, nerr) =>
      if nerr > 0 then return jobj [("construct", .str "invalid"), ("errors", jnat nerr)] else
      let extracted := extractParams ev ps []
      let bodyEx : Option Extracted := body.map fun b => evalAny cfg rx ext ctx (jDepth b + 1) true b
      -- reference: value of the last definition per (container, name), evaluated on the syntax
      -- (no validation error => no parameter was dropped => `ps` and `rows` are aligned)
      let specRows : List Json := (ps.zip rows).map fun (_, r) =>
        match r.2.2 with
        | some t => if wfTemplate rx t then encRes (specEval ext ctx t) else .null
        | none => .null
      return jobj [
        ("construct", .str "ok"),
        ("params", .arr (ps.map fun p => .arr [encOptStr p.location, jstr p.name, jstr p.container])),
        ("extracted", .arr (extracted.map fun (c, d) => .arr [jstr c, .arr (d.map fun (n, r) => .arr [jstr n, encRes r])])),
        ("kwargs", .arr ((stepKwargs extracted).map fun (c, d) => .arr [jstr c, .arr (d.map fun (n, j) => .arr [jstr n, encJ j])])),
        ("body", match bodyEx with | none => .null | some r => encRes r),
        ("bodyKwarg", match kwargsBody (stepKwargs extracted) bodyEx mergeBody with
          | none => .null | some j => jobj [("v", encJ j)]),
        -- the drawn case carries an explicit `body` kwarg as its body (openapi_cases), else the generated one
        ("finalBody", encJ (finalBody bodyEx mergeBody
          ((kwargsBody (stepKwargs extracted) bodyEx mergeBody).getD generated))),
        ("spec", .arr specRows)]
  | _ => .error s!"unknown op {op}"

def main : IO Unit := run handle
