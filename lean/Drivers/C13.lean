import SV.Wire
import SV.Spec.C13
open SV SV.Wire SV.Model.C13 SV.Spec.C13

def decAct (j : Json) : Except String SEv := do
  let xs ← asArr j
  match xs with
  | [t, k] =>
    let t ← asNat t
    match ← asStr k with
    | "acq" => return (t, .acq) | "rel" => return (t, .rel) | "pop" => return (t, .pop)
    | "readTop" => return (t, .readTop) | "readAll" => return (t, .readAll)
    | s => .error s!"bad action {s}"
  | [t, k, v] =>
    match ← asStr k with
    | "push" => return (← asNat t, .push (← asNat v))
    | s => .error s!"bad action {s}"
  | _ => .error "bad event"

def encObs (o : List (Tid × List Scope)) : Json := .arr (o.map fun (t, v) => .arr [jnat t, .arr (v.map jnat)])

def encPc : LPc → Json
  | .start => jobj [("pc", .str "start")]
  | .building f p => jobj [("pc", .str "building"), ("filled", jnat f), ("published", .bool p)]
  | .have o => jobj [("pc", .str "have"), ("obj", jnat o)]
  | .done n => jobj [("pc", .str "done"), ("seen", jnat n)]

def decTriple (j : Json) : Except String (Nat × Nat × Nat) := do
  match ← asList asNat j with
  | [a, b, c] => return (a, b, c)
  | _ => .error "bad triple"

def handle : Handler := fun op a => do
  match op with
  | "cell" =>
    let c : LCfg := ⟨← asNat (← field a "parts"), ← asNat (← field a "publishAt"), ← asBool (← field a "locked")⟩
    let sched ← asList asNat (← field a "sched")
    let n ← asNat (← field a "workers")
    let s := lrun c sched
    return jobj [("workers", .arr ((List.range n).map fun w => encPc (s.pc w))),
                 ("cell", match s.cell with | some o => jnat o | none => .null),
                 ("safe", .bool ((List.range n).all fun w => match s.pc w with | .done k => k == c.parts | _ => true))]
  | "stack" =>
    let base ← asList asNat (← field a "base")
    let tr ← asList decAct (← field a "trace")
    return jobj [("disc", .bool (disc base none base tr)), ("shared", encObs (sharedObs base tr)),
                 ("priv", encObs (privObs (fun _ => base) tr)), ("foreign", .arr ((foreignReads base tr).map jnat))]
  | "gets" =>
    let gets ← asList decTriple (← field a "gets")
    let finals ← asPairs asNat asNat (← field a "finals")
    return .arr ((incompleteGets gets finals).map jnat)
  | _ => .error s!"unknown op {op}"

def main : IO Unit := SV.Wire.run handle
