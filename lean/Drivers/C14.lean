import SV.Wire
import SV.Model.C14
import SV.Spec.C14
open SV SV.Wire SV.Model.C14 SV.Spec.C14

def decDict (j : Json) : Except String Dict := asPairs asChars asStr j
def encDict (d : Dict) : Json := .arr (d.map fun (k, v) => .arr [jstr k, .str v])
def decOptDict (j : Json) : Except String (Option Dict) := asOpt decDict j

def locName : Loc → String
  | .query => "query" | .headers => "headers" | .cookies => "cookies" | .path => "path_parameters"

def decLoc (j : Json) : Except String Loc := do
  match (← asStr j) with
  | "query" => return .query
  | "headers" => return .headers
  | "cookies" => return .cookies
  | "path_parameters" => return .path
  | s => .error s!"unknown location {s}"

/-- {"query": [[k, v], …], …}; a missing location is the empty dict -/
def decOverrides (j : Json) : Except String Overrides := do
  let q ← match optField j "query" with | .null => pure [] | x => decDict x
  let h ← match optField j "headers" with | .null => pure [] | x => decDict x
  let c ← match optField j "cookies" with | .null => pure [] | x => decDict x
  let p ← match optField j "path_parameters" with | .null => pure [] | x => decDict x
  return fun l => match l with | .query => q | .headers => h | .cookies => c | .path => p

/-- {"query": [[k, v], …] | null, …} -/
def decContainers (j : Json) : Except String Containers := do
  let q ← decOptDict (optField j "query")
  let h ← decOptDict (optField j "headers")
  let c ← decOptDict (optField j "cookies")
  let p ← decOptDict (optField j "path_parameters")
  return fun l => match l with | .query => q | .headers => h | .cookies => c | .path => p

def encOverrides (o : Overrides) : Json := jobj (Loc.all.map fun l => (locName l, encDict (o l)))
def encContainers (c : Containers) : Json :=
  jobj (Loc.all.map fun l => (locName l, match c l with | some d => encDict d | none => .null))

def decOp (j : Json) : Except String Op := do
  let ps ← asPairs decLoc asChars (← field j "params")
  return ⟨← asChars (← field j "path"), ← asChars (← field j "method"), ps⟩

def decVariant (j : Json) : Except String Variant := do
  match (← asStr j) with
  | "asFound" => return .asFound
  | "repaired" => return .repaired
  | s => .error s!"unknown variant {s}"

def encOptStr : Option String → Json | some s => .str s | none => .null

def encVerdict : Verdict → Json
  | .missing l n want got => .arr [.str "missing", .str (locName l), jstr n, .str want, encOptStr got]
  | .invented l n v => .arr [.str "invented", .str (locName l), jstr n, .str v]

def decSteps (j : Json) : Except String (List (Op × Containers)) := do
  (← asArr j).mapM fun s => do return (← decOp (← field s "op"), ← decContainers (← field s "case"))

def handle : Handler := fun op a => do
  match op with
  | "prepare_headers" =>
    let r := prepareHeaders (← decOptDict (optField a "case")) (← decOptDict (optField a "user"))
      (← asStr (← field a "ua")) (← asStr (← field a "cid"))
    return encDict r
  | "strategy_headers" => return encDict (strategyHeaders (← decDict (← field a "config")))
  | "merge_explicit" =>
    return encDict (mergeExplicit (← decDict (← field a "explicit")) (← decOptDict (optField a "generated")))
  | "apply_override" =>
    return encDict (applyOverride (← decOptDict (optField a "container")) (← decDict (← field a "override")))
  | "seq_get" =>
    let calls ← asPairs asNat asNat (← field a "calls")
    let r := seqGet (← asNat (← field a "interval")) 0 none calls
    return .arr (r.map fun (d, f) => .arr [jnat d, .bool f])
  | "first_with_data" =>
    let ps ← asList (asOpt asNat) (← field a "providers")
    match firstWithData ps with
    | some (i, d) => return .arr [jnat i, jnat d]
    | none => return .null
  | "choose_storage" =>
    let t ← asOpt (asList (asOpt asNat)) (optField a "test")
    let s ← asList (asOpt asNat) (← field a "schema")
    let g ← asList (asOpt asNat) (← field a "global")
    match chooseStorage t s g with
    | some st => return .arr (st.map fun x => match x with | some d => jnat d | none => .null)
    | none => return .str "none"
  | "for_operation" =>
    return encOverrides (forOperation (← decOverrides (← field a "ov")) (← decOp (← field a "op")))
  | "strategy_kwargs" =>
    let applied := forOperation (← decOverrides (← field a "ov")) (← decOp (← field a "op"))
    return encContainers (strategyKwargsWith (← decVariant (← field a "variant")) applied (← decDict (← field a "net")))
  | "stateful_run" =>
    let o ← decOverrides (← field a "ov")
    let steps ← decSteps (← field a "steps")
    let r ← match (← asStr (← field a "resolver")) with
      | "perCall" => pure (statefulRun (.perCall : Resolver Unit) o steps)
      | "memoPath" => pure (statefulRun (.memo Op.path) o steps)
      | "memoOp" => pure (statefulRun (.memo fun op => op) o steps)
      | s => .error s!"unknown resolver {s}"
    return .arr (r.map encContainers)
  | "examples_merge" =>
    return encContainers (examplesMergeWith (← decContainers (← field a "kwargs")) (← decContainers (← field a "ex")))
  | "coverage_apply" =>
    return encContainers (coverageWith (← decContainers (← field a "kwargs")) (← decContainers (← field a "case")))
  | "judge" =>
    let r := judge (← decOverrides (← field a "ov")) (← decOp (← field a "op")) (← decContainers (← field a "req"))
      (← decContainers (optField a "base"))
    return .arr (r.map encVerdict)
  | "worker_session" =>
    let cfg ← (← asArr (← field a "cfg")).mapM asNat
    let prog := match (← asStr (← field a "publish")) with | "first" => publishFirst cfg | _ => publishLast cfg
    return .arr ((workerSession cfg prog (← asNat (← field a "t"))).map jnat)
  | _ => .error s!"unknown op {op}"

def main : IO Unit := run handle
