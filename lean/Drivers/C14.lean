import SV.Wire
import SV.Model.C14
open SV SV.Wire SV.Model.C14

def decDict (j : Json) : Except String Dict := asPairs asChars asStr j
def encDict (d : Dict) : Json := .arr (d.map fun (k, v) => .arr [jstr k, .str v])
def decOptDict (j : Json) : Except String (Option Dict) := asOpt decDict j

def handle : Handler := fun op a => do
  match op with
  | "prepare_headers" =>
    let r := prepareHeaders (← decOptDict (optField a "case")) (← decOptDict (optField a "user"))
      (← asStr (← field a "ua")) (← asStr (← field a "cid"))
    return encDict r
  | "strategy_headers" => return encDict (strategyHeaders (← decDict (← field a "config")))
  | "merge_explicit" =>
    return encDict (mergeExplicit (← decDict (← field a "explicit")) (← decOptDict (optField a "generated")))
  | "apply_override" =>
    return encDict (applyOverride (← decOptDict (optField a "container")) (← decDict (← field a "override")))
  | "seq_get" =>
    let calls ← asPairs asNat asNat (← field a "calls")
    let r := seqGet (← asNat (← field a "interval")) 0 none calls
    return .arr (r.map fun (d, f) => .arr [jnat d, .bool f])
  | "first_with_data" =>
    let ps ← asList (asOpt asNat) (← field a "providers")
    match firstWithData ps with
    | some (i, d) => return .arr [jnat i, jnat d]
    | none => return .null
  | "choose_storage" =>
    let t ← asOpt (asList (asOpt asNat)) (optField a "test")
    let s ← asList (asOpt asNat) (← field a "schema")
    let g ← asList (asOpt asNat) (← field a "global")
    match chooseStorage t s g with
    | some st => return .arr (st.map fun x => match x with | some d => jnat d | none => .null)
    | none => return .str "none"
  | _ => .error s!"unknown op {op}"

def main : IO Unit := run handle
