import SV.Wire
import SV.Spec.C15
open SV SV.Wire SV.Model.C15 SV.Spec.C15

/-! wire forms
  Str      : JSON string
  Val      : string = leaf | array = list | {"D": [[k, v], …]} = dict
  Config   : {"keys": [..], "markers": [..], "replacement": ".."}
  Url      : {"scheme", "netloc", "path", "query": [[k, v], …], "fragment"}
  multi    : [[k, [v, …]], …]
-/

partial def decVal : Json → Except String Val
  | .str s => .ok (.leaf s.toList)
  | .arr xs => do return .list (← xs.mapM decVal)
  | j@(.obj _) => do
    let d ← asArr (← field j "D")
    let kvs ← d.mapM fun p => match p with
      | .arr [k, v] => do return ((← asChars k), (← decVal v))
      | _ => .error "expected pair"
    return .dict kvs
  | _ => .error "expected Val"

partial def encVal : Val → Json
  | .leaf s => jstr s
  | .list xs => .arr (xs.map encVal)
  | .dict kvs => jobj [("D", .arr (kvs.map fun (k, v) => .arr [jstr k, encVal v]))]

def decConfig (j : Json) : Except String Config := do
  return ⟨← asList asChars (← field j "keys"), ← asList asChars (← field j "markers"), ← asChars (← field j "replacement")⟩

def encConfig (c : Config) : Json :=
  jobj [("keys", .arr (c.keys.map jstr)), ("markers", .arr (c.markers.map jstr)), ("replacement", jstr c.replacement)]

def decUrl (j : Json) : Except String Url := do
  return ⟨← asChars (← field j "scheme"), ← asChars (← field j "netloc"), ← asChars (← field j "path"),
          ← asPairs asChars asChars (← field j "query"), ← asChars (← field j "fragment")⟩

def encPairs (ps : List (Str × Str)) : Json := .arr (ps.map fun (k, v) => .arr [jstr k, jstr v])

def encUrl (u : Url) : Json :=
  jobj [("scheme", jstr u.scheme), ("netloc", jstr u.netloc), ("path", jstr u.path), ("query", encPairs u.query),
        ("fragment", jstr u.fragment)]

def decMulti (j : Json) : Except String (List (Str × List Str)) := asPairs asChars (asList asChars) j
def encMulti (d : List (Str × List Str)) : Json := .arr (d.map fun (k, vs) => .arr [jstr k, .arr (vs.map jstr)])
def encOpt (f : α → Json) : Option α → Json | none => .null | some a => f a

def decDict (j : Json) : Except String (List (Str × Val)) := do
  match ← decVal j with
  | .dict kvs => return kvs
  | _ => .error "expected dict"

def decKwargs (j : Json) : Except String Kwargs := do
  let auth ← asOpt (fun a => match a with
    | .arr [u, p] => do return ((← asChars u), (← asChars p))
    | _ => .error "expected [user, pass]") (optField j "auth")
  return ⟨← decUrl (← field j "url"), ← asPairs asChars asChars (← field j "headers"),
          ← asOpt decDict (optField j "cookies"), ← asOpt decDict (optField j "params"), auth⟩

def encHVal : HVal → Json
  | .text s => jstr s
  | .cookies kvs => jobj [("cookies", encVal (.dict kvs))]
  | .basic u p => jobj [("basic", .arr [jstr u, jstr p])]

def encPrepared (p : Prepared) : Json :=
  jobj [("url", encUrl p.url), ("params", encVal (.dict p.params)),
        ("headers", .arr (p.headers.map fun (k, v) => .arr [jstr k, encHVal v]))]

def decInteraction (j : Json) : Except String Interaction := do
  return ⟨← decUrl (← field j "uri"), ← decMulti (← field j "req"), ← asOpt decMulti (optField j "resp")⟩

def decEntry (j : Json) : Except String Entry := do
  return ⟨← decUrl (← field j "uri"), ← decMulti (← field j "req"), ← asOpt decMulti (optField j "resp")⟩

def encEntry (e : Entry) : Json :=
  jobj [("uri", encUrl e.uri), ("req", encMulti e.reqHeaders), ("resp", encOpt encMulti e.respHeaders)]

def encHar (e : HarEntry) : Json :=
  jobj [("url", encUrl e.url), ("queryString", encPairs e.queryString), ("req", encPairs e.reqHeaders),
        ("resp", encOpt encPairs e.respHeaders)]

def decArg (j : Json) : Except String Arg := do
  match j with
  | .str s => return .word s.toList
  | _ => return .url (← asChars (← field j "raw")) (← decUrl (← field j "url"))

def encArgOut : ArgOut → Json
  | .word s => jstr s
  | .url u => jobj [("url", encUrl u)]

def encCommand : Command → Json
  | .unknown => .null
  | .st args => .arr (args.map encArgOut)

def bothVariants (f : Variant → Json) : List (String × Json) := [("asFound", f .asFound), ("repaired", f .repaired)]

def handle : Handler := fun op a => do
  match op with
  | "sens" =>
    let cfg ← decConfig (← field a "cfg")
    let names ← asList asChars (← field a "names")
    return .arr (names.map fun n => .arr [.bool (isSensitive cfg n), .bool (sensitiveB cfg n)])
  | "config" =>
    let base ← decConfig (← field a "base")
    let keys ← asOpt (asList asChars) (optField a "keys")
    let markers ← asOpt (asList asChars) (optField a "markers")
    let repl ← asOpt asChars (optField a "replacement")
    match ← asStr (← field a "how") with
    | "from_config" => return encConfig (base.fromConfig repl keys markers)
    | "extend" => return encConfig (base.extend keys markers)
    | h => .error s!"unknown how {h}"
  | "config_history" =>
    let base ← decConfig (← field a "base")
    let calls ← (← asArr (← field a "calls")).mapM fun c => do
      let keys ← asOpt (asList asChars) (optField c "keys")
      let markers ← asOpt (asList asChars) (optField c "markers")
      let repl ← asOpt asChars (optField c "replacement")
      match ← asStr (← field c "how") with
      | "configure" => pure (CfgCall.configure repl keys markers)
      | "extend" => pure (CfgCall.extend keys markers)
      | h => throw s!"unknown how {h}"
    return encConfig (runCalls base calls)
  | "value" =>
    let cfg ← decConfig (← field a "cfg")
    let v ← decVal (← field a "v")
    let out ← asOpt decVal (optField a "out")
    return jobj [("model", encVal (sanV cfg v)), ("spec", encOpt (fun o => .bool (okV cfg v o)) out)]
  | "url" =>
    let cfg ← decConfig (← field a "cfg")
    let u ← decUrl (← field a "u")
    let out ← asOpt decUrl (optField a "out")
    return jobj [("model", encUrl (sanitizeUrl cfg u)), ("spec", encOpt (fun o => .bool (okUrl cfg u o)) out)]
  | "prepare" =>
    let cfg ← decConfig (← field a "cfg")
    let kw ← decKwargs (← field a "kw")
    let sanitize ← asBool (← field a "sanitize")
    let out := bothVariants fun v => encPrepared (prepareRequest v cfg sanitize kw)
    return jobj out
  | "prepared_ok" =>
    -- headers of a prepared request as the real code produced them: [[name, text]]
    let cfg ← decConfig (← field a "cfg")
    let hs ← asPairs asChars asChars (← field a "headers")
    return .bool (okPreparedHeaders cfg (hs.map fun (k, v) => (k, .text v)))
  | "entry" =>
    let cfg ← decConfig (← field a "cfg")
    let i ← decInteraction (← field a "i")
    let sanitize ← asBool (← field a "sanitize")
    let out ← asOpt decEntry (optField a "out")
    return jobj [("vcr", encEntry (vcrEntry cfg sanitize i)), ("har", encHar (harEntry cfg sanitize i)),
                 ("spec", encOpt (fun o => .bool (okEntry cfg i o)) out)]
  | "command" =>
    let cfg ← decConfig (← field a "cfg")
    let sanitize ← asBool (← field a "sanitize")
    let argv0 ← asChars (← field a "argv0")
    let args ← asList decArg (← field a "args")
    return jobj (bothVariants fun v => encCommand (commandRepr v cfg sanitize argv0 args))
  | "console" =>
    let cfg ← decConfig (← field a "cfg")
    let sanitize ← asBool (← field a "sanitize")
    let loc ← decUrl (← field a "location")
    let base ← decUrl (← field a "base_url")
    return jobj (bothVariants fun v =>
      let (l, b) := consoleIntro v cfg sanitize loc base
      .arr [encUrl l, encUrl b])
  | _ => .error s!"unknown op {op}"

def main : IO Unit := run handle
