import SV.Wire
import SV.Spec.C16
import SV.Spec.C16Exit
open SV SV.Wire SV.Model.C16 SV.Spec.C16

def encStr (s : Str) : Json := .arr (s.map jnat)
def decStr (j : Json) : Except String Str := asList asNat j
def encOptPair : Option (Str × Str) → Json
  | none => .null
  | some (s, r) => jobj [("s", encStr s), ("rest", encStr r)]

def decVariant (j : Json) : Except String Variant := do
  match ← asStr j with
  | "asFound" => return .asFound
  | "repaired" => return .repaired
  | s => .error s!"bad variant {s}"

def decHeaders (j : Json) : Except String (List (Str × List Str)) := asPairs decStr (asList decStr) j

def decCheck (j : Json) : Except String CheckRec := do
  return ⟨← decStr (← field j "name"), ← asBool (← field j "failed"), ← asOpt decStr (optField j "title")⟩

def decMeta (j : Json) : Except String Meta := do
  let d := optField j "data"
  let data ← match d with
    | .null => pure PhaseData.other
    | d => do pure (PhaseData.coverage (← decStr (← field d "description")) (← asOpt decStr (optField d "location"))
                (← asOpt decStr (optField d "parameter")) (← asOpt decStr (optField d "parameter_location")))
  return ⟨← decStr (← field j "time"), ← decStr (← field j "mode"), ← asPairs decStr decStr (← field j "components"),
          ← decStr (← field j "phase"), data⟩

def decResp (j : Json) : Except String Resp := do
  return ⟨← decStr (← field j "code"), ← decStr (← field j "message"), ← decStr (← field j "elapsed"),
          ← decHeaders (← field j "headers"), ← decStr (← field j "content"), ← decStr (← field j "decoded"),
          ← asOpt decStr (optField j "encoding"), ← asBool (← field j "codec_known"), ← decStr (← field j "http_version")⟩

def decEntry (j : Json) : Except String Entry := do
  return ⟨← decStr (← field j "id"), ← asOpt decMeta (optField j "meta"), ← decStr (← field j "recorded_at"),
          ← asOpt (asList decCheck) (optField j "checks"), ← decStr (← field j "uri"), ← decStr (← field j "method"),
          ← decHeaders (← field j "headers"), ← asOpt decStr (optField j "body"), ← decStr (← field j "body_decoded"),
          ← asOpt decResp (optField j "response")⟩

def encVal : Val → Json
  | .str s => jobj [("str", encStr s)]
  | .plain s => jobj [("plain", encStr s)]
  | .emptyMap => .str "{}"
  | .emptySeq => .str "[]"

def encTok (t : Tok) : Json :=
  .arr [jnat t.indent, .bool t.dash, (match t.key with | some k => encStr k | none => .null),
        (match t.val with | some v => encVal v | none => .null)]

def encToks : Option (List Tok) → Json
  | none => .null
  | some ts => .arr (ts.map encTok)

def decCase (j : Json) : Except String CaseRec := do
  return ⟨← asNat (← field j "id"), ← asList (asOpt asNat) (← field j "checks")⟩

def decRecorder (j : Json) : Except String Recorder := do
  return ⟨← asNat (← field j "label"), ← asList decCase (← field j "cases")⟩

def decStatus (j : Json) : Except String Status := do
  match ← asStr j with
  | "success" => return .success | "failure" => return .failure | "error" => return .error
  | "interrupted" => return .interrupted | "skip" => return .skip
  | s => .error s!"bad status {s}"

def decEvent (j : Json) : Except String Event := do
  match ← asStr (← field j "kind") with
  | "scenario" => return .scenarioFinished (← decStatus (← field j "status")) (← asBool (← field j "skip_reason"))
                    (← decRecorder (← field j "recorder"))
  | "error" => return .nonFatalError (← asNat (← field j "label"))
  | "finished" => return .engineFinished
  | _ => return .other

def encSub : Sub → Json
  | .failure gs => jobj [("failure", .arr (gs.map fun g => .arr [jnat g.1, .arr (g.2.map jnat)]))]
  | .skipped => .str "skipped"
  | .error => .str "error"

def encSuite (tcs : List (Nat × List Sub)) : Json := .arr (tcs.map fun (l, subs) => .arr [jnat l, .arr (subs.map encSub)])

def encStat (st : Stat) : Json :=
  jobj [("failures", .arr (st.failures.map fun (l, gs) => .arr [jnat l, .arr (gs.map fun (c, g) => .arr [jnat c, .arr (g.2.map jnat)])])),
        ("unique", .arr (st.unique.map fun (f, c) => .arr [jnat f, jnat c]))]

/-- run the history; report the index of the event at which the handler raised -/
def runTrace (v : Variant) : Stat → JUnit → List Event → Nat → Json
  | st, j, [], _ => jobj [("crash_at", .null), ("stat", encStat st), ("cases", encSuite j.testCases),
                          ("written", match j.written with | some w => encSuite w | none => .null)]
  | st, j, ev :: rest, i =>
    let st' := ctxStep st ev
    match junitStep v st' j ev with
    | none => jobj [("crash_at", jnat i), ("stat", encStat st'), ("cases", encSuite j.testCases), ("written", .null)]
    | some j' => runTrace v st' j' rest (i + 1)

def decFmt (j : Json) : Except String Fmt := do
  match ← asStr j with
  | "vcr" => return .vcr
  | "har" => return .har
  | s => .error s!"bad format {s}"

def encChunk : Chunk → Json
  | .preamble s => jobj [("preamble", match s with | some n => jnat n | none => .null)]
  | .entry i => jnat i

def decChunk (j : Json) : Except String Chunk :=
  match j with
  | .num _ _ => do return .entry (← asNat j)
  | j => do return .preamble (← asOpt asNat (optField j "preamble"))

def decEv (j : Json) : Except String Ev := asOpt (asList asNat) j

def decAct (j : Json) : Except String Act :=
  match j with
  | .str _ => pure .main
  | j => do return .work (← asNat j)

def decPAct (j : Json) : Except String PAct :=
  match j with
  | .str _ => pure (.base .main)
  | .num _ _ => do return .base (.work (← asNat j))
  | j =>
    match optField j "join" with
    | .null => do return .exit (← asList asNat (← field j "exit"))
    | w => do return .join (← asBool w)

def encDisk (d : Disk) : Json :=
  jobj [("chunks", .arr (d.chunks.map encChunk)), ("torn", .bool d.torn), ("closedDoc", .bool d.closedDoc)]

def decCrash (j : Json) : Except String (Option (Nat × Nat)) :=
  match j with
  | .null => pure none
  | j => do
    match ← asList asNat j with
    | [k, p] => return some (k, p)
    | _ => .error "bad crash"

def handle : Handler := fun op a => do
  match op with
  | "multi" =>
    let fs ← asList decFmt (← field a "fmts")
    let qs ← asOpt (asList asNat) (optField a "queues")
    let cfg : Nat → HCfg := match qs with
      | none => cfgOf fs
      | some qs => fun i => ⟨fs.getD i .vcr, qs.getD i i⟩
    let n := fs.length
    let seed ← asOpt asNat (optField a "seed")
    let evs ← asList decEv (← field a "events")
    let crash ← decCrash (optField a "crash")
    let sched ← asList decAct (← field a "sched")
    let s := run cfg n sched (Sys.init (mainProgram n seed evs crash))
    let idx := List.range n
    return jobj [("writers", .arr (idx.map fun i => jobj [("out", .arr ((s.ws i).out.map encChunk)), ("done", .bool (s.ws i).done),
                                                           ("queued", jnat (s.queues (cfg i).queue).length)])),
                 ("pc_left", jnat s.pc.length),
                 ("expected", .arr (idx.map fun i => .arr ((expectedFile (cfg i).fmt seed (deliveredTo i evs crash)).map encChunk))),
                 ("own_queues", .bool (idx.all fun i => idx.all fun j => i == j || (cfg i).queue != (cfg j).queue))]
  | "exit_run" =>
    -- the process model: puts / writer steps / joins / exit, under the given ordering (`variant`)
    let v ← decVariant (← field a "variant")
    let fs ← asList decFmt (← field a "fmts")
    let custom ← asList asBool (← field a "custom")
    let cfg := cfgOf fs
    let owner : Nat → Owner := fun i => if custom.getD i false then .option else .reportDir
    let n := fs.length
    let seed ← asOpt asNat (optField a "seed")
    let evs ← asList decEv (← field a "events")
    let crash ← decCrash (optField a "crash")
    let sched ← asList decPAct (← field a "sched")
    let p := prun v cfg owner n sched (PSys.init (mainProgram n seed evs crash))
    let idx := List.range n
    return jobj [("exited", .bool p.exited), ("joined", jnat p.joined), ("pc_left", jnat p.sys.pc.length),
                 ("terminated", .bool (p.exited && idx.all fun i => (p.sys.ws i).done || p.dead i)),
                 ("writers", .arr (idx.map fun i =>
                    jobj [("disk", encDisk (diskOf cfg p i)), ("done", .bool (p.sys.ws i).done), ("dead", .bool (p.dead i)),
                          ("closed", .bool (p.closed i)),
                          ("ok", .bool (finalReportOK (cfg i).fmt seed (deliveredTo i evs crash) (diskOf cfg p i)))]))]
  | "judge_final" =>
    let f ← decFmt (← field a "fmt")
    let seed ← asOpt asNat (optField a "seed")
    let delivered ← asList decEv (← field a "delivered")
    let chunks ← asList decChunk (← field a "chunks")
    return .bool (finalReportOK f seed delivered ⟨chunks, ← asBool (← field a "torn"), ← asBool (← field a "closedDoc")⟩)
  | "judge_report" =>
    let f ← decFmt (← field a "fmt")
    let seed ← asOpt asNat (optField a "seed")
    let delivered ← asList decEv (← field a "delivered")
    let observed ← asList decChunk (← field a "observed")
    return .bool (reportOK f seed delivered observed)
  | "init_handlers" =>
    let fmts ← asList asStr (← field a "formats")
    let rs := fmts.filterMap fun s => if s == "junit" then some Report.junit else if s == "vcr" then some Report.vcr
                                      else if s == "har" then some Report.har else none
    return .arr ((initCassettes rs).map fun f => .str (match f with | .vcr => "vcr" | .har => "har"))
  | "command" => return encStr (commandRepr (← asList decStr (← field a "argv")))
  | "table" => return .arr (escapeTable.map fun (c, r) => .arr [jnat c, jnat r])
  | "dq" =>
    let s ← asOpt decStr (optField a "s")
    let out := writeDQOpt s
    return jobj [("out", encStr out), ("spec", encOptPair (decodeDQ out)),
                 ("inline", .bool (out.all inlineCh))]
  | "undq" => return encOptPair (decodeDQ (← decStr (← field a "t")))
  | "unsq" => return encOptPair (decodeSQ (← decStr (← field a "t")))
  | "json" => return jobj [("out", encStr (jsonDumps (← decStr (← field a "s"))))]
  | "repr" => return jobj [("out", encStr (pyRepr (← decStr (← field a "s"))))]
  | "b64" =>
    let out := b64encode (← decStr (← field a "b"))
    return jobj [("out", encStr out), ("spec", match b64decode out with | some bs => encStr bs | none => .null)]
  | "unb64" => return (match b64decode (← decStr (← field a "t")) with | some bs => encStr bs | none => .null)
  | "lower" => return encStr (lower (← decStr (← field a "s")))
  | "vcr_entry" =>
    let v ← decVariant (← field a "variant")
    let p ← asBool (← field a "preserve")
    let e ← decEntry (← field a "entry")
    let text := renderEntry v p e
    return jobj [("text", encStr text), ("toks", encToks (decodeDoc (text.drop 1))), ("raises", .bool (writerRaises v p e))]
  | "vcr_doc" =>
    let v ← decVariant (← field a "variant")
    let p ← asBool (← field a "preserve")
    let recs ← asList (asList decEntry) (← field a "recorders")
    let command ← match optField a "argv" with
      | .null => decStr (← field a "command")
      | j => do pure (commandRepr (← asList decStr j))
    let text := renderCassette v p command (← decStr (← field a "version"))
      (← decStr (← field a "seed")) recs
    return jobj [("text", encStr text), ("raises", .bool (recs.any fun r => r.any (writerRaises v p)))]
  | "parse_doc" =>
    let t ← decStr (← field a "t")
    return jobj [("toks", encToks (decodeDoc t)),
                 ("lines", .arr ((splitLines t []).map fun l => match parseLine l with | some t => encTok t | none => .null))]
  | "parse_line" => return (match parseLine (← decStr (← field a "t")) with | some t => encTok t | none => .null)
  | "junit" =>
    let v ← decVariant (← field a "variant")
    let evs ← asList decEvent (← field a "events")
    return runTrace v Stat.init JUnit.init evs 0
  | "har" =>
    let hs ← decHeaders (← field a "headers")
    let stored := lowerHeaders hs []
    let name ← decStr (← field a "name")
    return jobj [("stored", .arr (stored.map fun (k, vs) => .arr [encStr k, .arr (vs.map encStr)])),
                 ("asFound", encStr (harFirst .asFound name stored)), ("repaired", encStr (harFirst .repaired name stored))]
  | _ => .error s!"unknown op {op}"

def main : IO Unit := run handle
