import SV.Wire
import SV.Spec.C17
open SV SV.Wire SV.Model.C17 SV.Spec.C17

/-- order-preserving wire form: arrays are `["a", …]`, objects `["o", [k, v], …]` -/
partial def ofOrd : Json → Except String Json
  | .arr (.str "a" :: xs) => do return .arr (← xs.mapM ofOrd)
  | .arr (.str "o" :: kvs) => do
    return .obj (← kvs.mapM fun p => match p with
      | .arr [.str k, v] => do return (k, ← ofOrd v)
      | _ => .error "bad pair")
  | .arr _ => .error "untagged array"
  | .obj _ => .error "raw object in ordered value"
  | j => .ok j

partial def toOrd : Json → Json
  | .arr xs => .arr (.str "a" :: xs.map toOrd)
  | .obj kvs => .arr (.str "o" :: kvs.map fun (k, v) => .arr [.str k, toOrd v])
  | j => j

def decExample : Json → Except String Example
  | .arr [.str "p", .str c, .str n, v] => do return .param c n (← ofOrd v)
  | .arr [.str "b", v, .str mt] => do return .body (← ofOrd v) mt
  | _ => .error "bad example"

def encExample : Example → Json
  | .param c n v => .arr [.str "p", .str c, .str n, toOrd v]
  | .body v mt => .arr [.str "b", toOrd v, .str mt]

def encContainer (c : Container) : Json := .arr (c.map fun (n, v) => .arr [.str n, toOrd v])
def encContainers (cs : Containers) : Json := .arr (cs.map fun (c, kv) => .arr [.str c, encContainer kv])
def encBody : Option (String × Json) → Json
  | some (mt, v) => .arr [.str mt, toOrd v]
  | none => .null
def encCombo (c : Combo) : Json := jobj [("params", encContainers c.params), ("body", encBody c.body)]

def decContainer (j : Json) : Except String Container := asPairs asStr ofOrd j
def decContainers (j : Json) : Except String Containers := asPairs asStr decContainer j
def decBody : Json → Except String (Option (String × Json))
  | .null => .ok none
  | .arr [.str mt, v] => do return some (mt, ← ofOrd v)
  | _ => .error "bad body"

def decSource (j : Json) : Except String Source := do
  return {
    isBody := ← asBool (← field j "isBody"),
    container := ← asStr (← field j "container"),
    name := ← asStr (← field j "name"),
    definition := ← ofOrd (← field j "definition"),
    exampleFields := ← asList asStr (← field j "exampleFields"),
    examplesField := ← asStr (← field j "examplesField"),
    unresolved := ← ofOrd (optField j "unresolved"),
    respValues := ← asList ofOrd (← field j "respValues"),
    jsonSchema := ← ofOrd (← field j "jsonSchema"),
    schemaFields := ← asPairs asStr asStr (← field j "schemaFields") }

def decVariant : Json → Except String Variant
  | .str "asFound" => .ok .asFound
  | .str "repaired" => .ok .repaired
  | _ => .error "bad variant"

def decExc : String → Except String Exc
  | "InvalidSchema" => .ok .invalidSchema
  | "HypothesisRefResolutionError" => .ok .refResolution
  | "Unsatisfiable" => .ok .unsatisfiable
  | "SerializationNotPossible" => .ok .serializationNotPossible
  | "SchemaError" => .ok .schemaError
  | "other" => .ok .other
  | s => .error s!"bad exception {s}"

def encMark : Mark → Json
  | .unsatisfiable => .str "unsatisfiable_example"
  | .nonSerializable => .str "non_serializable"
  | .invalidRegex => .str "invalid_regex"
  | .invalidHeaders => .str "invalid_example_header"
  | .examplesNotBuilt => .str "examples_not_built"

def encStatus : Status → Json
  | .success => .str "success" | .skip => .str "skip" | .error => .str "error"

def decECase (j : Json) : Except String ECase := do
  return ⟨← decContainers (← field j "params"), ← decBody (optField j "body"),
          ← asList asStr (← field j "invalidHeaders")⟩

def encECase (c : ECase) : Json := jobj [("params", encContainers c.params), ("body", encBody c.body)]

def decSeg : Json → Except String Seg
  | .str n => .ok (.prop n)
  | .num 0 0 => .ok .item
  | _ => .error "bad path segment"

def decExpect (j : Json) : Except String Expect := do
  return ⟨← asBool (← field j "isBody"), ← asStr (← field j "container"), ← asStr (← field j "name"),
          ← asList decSeg (← field j "path"), ← ofOrd (← field j "value")⟩

def genMarker : Json → Json := fun _ => .str "<GEN>"

def handle : Handler := fun op a => do
  match op with
  | "combos" =>
    let exs ← asList decExample (← field a "examples")
    return .arr ((produceCombinations exs).map encCombo)
  | "cycle" =>
    let xs ← asArr (← field a "xs"); let idx ← asNat (← field a "idx")
    return match cycleGet xs idx with | some x => .arr [x] | none => .null
  | "expand" =>
    return .arr ((expandSubschemas (← ofOrd (← field a "schema"))).map toOrd)
  | "extract" =>
    let params ← asList decSource (← field a "params")
    let bodies ← asList decSource (← field a "bodies")
    let fuel ← asNat (← field a "fuel")
    let top := extractTopLevel (params ++ bodies)
    let sch := extractFromSchemas genMarker fuel (params ++ bodies)
    let combos := produceCombinations (top ++ sch)
    let merged ← match optField a "user" with
      | .null => pure combos
      | u => do
        let user ← decContainers u
        let v ← decVariant (← field a "variant")
        pure (combos.map fun c => ⟨mergeKwargs v c.params user, c.body⟩)
    return jobj [("top", .arr (top.map encExample)), ("schemas", .arr (sch.map encExample)),
                 ("combos", .arr (combos.map encCombo)), ("merged", .arr (merged.map encCombo))]
  | "merge" =>
    let v ← decVariant (← field a "variant")
    return encContainers (mergeKwargs v (← decContainers (← field a "combo")) (← decContainers (← field a "user")))
  | "fill" =>
    let value ← asOpt decContainer (optField a "value")
    let new ← asOpt decContainer (optField a "new")
    return match fillIn value new with | some c => encContainer c | none => .null
  | "add" =>
    let vExc ← decVariant (← field a "vexc"); let vHdr ← decVariant (← field a "vhdr")
    let r : Except Exc (List ECase) ← match optField a "error" with
      | .str e => do pure (.error (← decExc e))
      | _ => do pure (.ok (← asList decECase (← field a "cases")))
    let out := addExamples vExc vHdr r
    return jobj [("sent", .arr (out.sent.map encECase)), ("marks", .arr (out.marks.map encMark)),
                 ("raised", .bool out.raised), ("status", encStatus (runStatus out))]
  | "meets" =>
    -- for every expectation: does any of the given cases meet it?  (the specification judging real output)
    let cases ← asList decECase (← field a "cases")
    let exps ← asList decExpect (← field a "expect")
    return .arr (exps.map fun e => .bool (cases.any fun c => meetsB c.params c.body e))
  | "carries" =>
    -- does any of the given cases carry the example?
    let e ← decExample (← field a "example")
    let cases ← asList decECase (← field a "cases")
    return .bool (cases.any fun c => carriesB c.params c.body e)
  | _ => .error s!"unknown op {op}"

def main : IO Unit := run handle
