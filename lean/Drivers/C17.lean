import SV.Wire
import SV.Spec.C17
open SV SV.Wire SV.Model.C17 SV.Spec.C17

/-- order-preserving wire form: arrays are `["a", …]`, objects `["o", [k, v], …]` -/
partial def ofOrd : Json → Except String Json
  | .arr (.str "a" :: xs) => do return .arr (← xs.mapM ofOrd)
  | .arr (.str "o" :: kvs) => do
    return .obj (← kvs.mapM fun p => match p with
      | .arr [.str k, v] => do return (k, ← ofOrd v)
      | _ => .error "bad pair")
  | .arr _ => .error "untagged array"
  | .obj _ => .error "raw object in ordered value"
  | j => .ok j

partial def toOrd : Json → Json
  | .arr xs => .arr (.str "a" :: xs.map toOrd)
  | .obj kvs => .arr (.str "o" :: kvs.map fun (k, v) => .arr [.str k, toOrd v])
  | j => j

def decExample : Json → Except String Example
  | .arr [.str "p", .str c, .str n, v] => do return .param c n (← ofOrd v)
  | .arr [.str "b", v, .str mt] => do return .body (← ofOrd v) mt
  | _ => .error "bad example"

def encExample : Example → Json
  | .param c n v => .arr [.str "p", .str c, .str n, toOrd v]
  | .body v mt => .arr [.str "b", toOrd v, .str mt]

def encContainer (c : Container) : Json := .arr (c.map fun (n, v) => .arr [.str n, toOrd v])
def encContainers (cs : Containers) : Json := .arr (cs.map fun (c, kv) => .arr [.str c, encContainer kv])
def encBody : Option (String × Json) → Json
  | some (mt, v) => .arr [.str mt, toOrd v]
  | none => .null
def encCombo (c : Combo) : Json := jobj [("params", encContainers c.params), ("body", encBody c.body)]

def decContainer (j : Json) : Except String Container := asPairs asStr ofOrd j
def decContainers (j : Json) : Except String Containers := asPairs asStr decContainer j
def decBody : Json → Except String (Option (String × Json))
  | .null => .ok none
  | .arr [.str mt, v] => do return some (mt, ← ofOrd v)
  | _ => .error "bad body"

def decSource (j : Json) : Except String Source := do
  return {
    isBody := ← asBool (← field j "isBody"),
    container := ← asStr (← field j "container"),
    name := ← asStr (← field j "name"),
    definition := ← ofOrd (← field j "definition"),
    exampleFields := ← asList asStr (← field j "exampleFields"),
    examplesField := ← asStr (← field j "examplesField"),
    unresolved := ← ofOrd (optField j "unresolved"),
    respValues := ← asList ofOrd (← field j "respValues"),
    jsonSchema := ← ofOrd (← field j "jsonSchema"),
    schemaFields := ← asPairs asStr asStr (← field j "schemaFields") }

def decVariant : Json → Except String Variant
  | .str "asFound" => .ok .asFound
  | .str "repaired" => .ok .repaired
  | _ => .error "bad variant"

def decExc : String → Except String Exc
  | "InvalidSchema" => .ok .invalidSchema
  | "HypothesisRefResolutionError" => .ok .refResolution
  | "Unsatisfiable" => .ok .unsatisfiable
  | "SerializationNotPossible" => .ok .serializationNotPossible
  | "SchemaError" => .ok .schemaError
  | "other" => .ok .other
  | s => .error s!"bad exception {s}"

def encMark : Mark → Json
  | .unsatisfiable => .str "unsatisfiable_example"
  | .nonSerializable => .str "non_serializable"
  | .invalidRegex => .str "invalid_regex"
  | .invalidHeaders => .str "invalid_example_header"
  | .examplesNotBuilt => .str "examples_not_built"

def encStatus : Status → Json
  | .success => .str "success" | .skip => .str "skip" | .failure => .str "failure" | .error => .str "error"

def decECase (j : Json) : Except String ECase := do
  return ⟨← decContainers (← field j "params"), ← decBody (optField j "body"),
          ← asList asStr (← field j "invalidHeaders")⟩

def encECase (c : ECase) : Json := jobj [("params", encContainers c.params), ("body", encBody c.body)]

def decSeg : Json → Except String Seg
  | .str n => .ok (.prop n)
  | .num 0 0 => .ok .item
  | _ => .error "bad path segment"

def decExpect (j : Json) : Except String Expect := do
  return ⟨← asBool (← field j "isBody"), ← asStr (← field j "container"), ← asStr (← field j "name"),
          ← asList decSeg (← field j "path"), ← ofOrd (← field j "value")⟩

def decPhase : Json → Except String HPhase
  | .str "explicit" => .ok .explicit | .str "reuse" => .ok .reuse | .str "generate" => .ok .generate
  | .str "target" => .ok .target | .str "shrink" => .ok .shrink | .str "explain" => .ok .explain
  | _ => .error "bad phase"

def encPhase : HPhase → Json
  | .explicit => .str "explicit" | .reuse => .str "reuse" | .generate => .str "generate"
  | .target => .str "target" | .shrink => .str "shrink" | .explain => .str "explain"

def decMode : Json → Except String Mode
  | .str "examples" => .ok .examples | .str "coverage" => .ok .coverage | .str "fuzzing" => .ok .fuzzing
  | _ => .error "bad mode"

def decVerdict : Json → Except String Verdict
  | .str "pass" => .ok .pass | .str "fail" => .ok .fail | .str "error" => .ok .error
  | _ => .error "bad verdict"

def decRaised : Json → Except String Raised
  | .str "returned" => .ok .returned | .str "skipTest" => .ok .skipTest | .str "failure" => .ok .failure
  | .str "unexpectedError" => .ok .unexpectedError | .str "exceptionGroup" => .ok .exceptionGroup
  | .str "unsatisfiable" => .ok .unsatisfiable | .str "refResolution" => .ok .refResolution
  | .str "invalidArgument" => .ok .invalidArgument | .str "deadlineExceeded" => .ok .deadlineExceeded
  | .str "jsonSchemaError" => .ok .jsonSchemaError | .str "other" => .ok .other
  | _ => .error "bad raised"

def decMark : Json → Except String Mark
  | .str "unsatisfiable_example" => .ok .unsatisfiable | .str "non_serializable" => .ok .nonSerializable
  | .str "invalid_regex" => .ok .invalidRegex | .str "invalid_example_header" => .ok .invalidHeaders
  | .str "examples_not_built" => .ok .examplesNotBuilt
  | _ => .error "bad mark"

def encReport : Report → Json
  | .unsatisfiable => .str "Unsatisfiable"
  | .nonSerializable => .str "SerializationNotPossible"
  | .invalidRegex => .str "InvalidRegexPattern"
  | .invalidHeaders names => .arr (.str "InvalidHeadersExample" :: names.map .str)
  | .schemaProblem => .str "SchemaProblem"
  | .deadline => .str "DeadlineExceeded"
  | .testError => .str "TestError"

def decReport : Json → Except String Report
  | .str "Unsatisfiable" => .ok .unsatisfiable
  | .str "SerializationNotPossible" => .ok .nonSerializable
  | .str "InvalidRegexPattern" => .ok .invalidRegex
  | .arr (.str "InvalidHeadersExample" :: names) => do return .invalidHeaders (← names.mapM asStr)
  | .str "SchemaProblem" => .ok .schemaProblem
  | .str "DeadlineExceeded" => .ok .deadline
  | .str "TestError" => .ok .testError
  | _ => .error "bad report"

def decStatus : Json → Except String Status
  | .str "success" => .ok .success | .str "skip" => .ok .skip | .str "failure" => .ok .failure
  | .str "error" => .ok .error
  | _ => .error "bad status"

/-- `{"rules": [[expectation, verdict], …], "default": verdict}`: the first expectation the case meets decides -/
def decVerdictFn (j : Json) : Except String (ECase → Verdict) := do
  let rules ← asList (fun p => match p with
    | .arr [e, v] => do return (← decExpect e, ← decVerdict v)
    | _ => .error "bad verdict rule") (← field j "rules")
  let dflt ← decVerdict (← field j "default")
  return fun c => match rules.find? (fun r => meetsB c.params c.body r.1) with
    | some r => r.2
    | none => dflt

def decRun (j : Json) : Except String RunCfg := do
  return { mode := ← decMode (← field j "mode"), phases := ← asList decPhase (← field j "phases"),
           rmb := ← asBool (← field j "rmb"), cof := ← asBool (← field j "cof"),
           unique := ← asBool (← field j "unique"), sensitive := ← asPairs asStr asStr (← field j "sensitive"), useDb := ← asBool (← field j "useDb"),
           gen := ← asList decECase (← field j "gen"), verdict := ← decVerdictFn (← field j "verdict") }

def encECaseFull (c : ECase) : Json :=
  jobj [("params", encContainers c.params), ("body", encBody c.body), ("invalidHeaders", .arr (c.invalidHeaders.map .str))]

def genMarker : Json → Json := fun _ => .str "<GEN>"

def handle : Handler := fun op a => do
  match op with
  | "combos" =>
    let exs ← asList decExample (← field a "examples")
    return .arr ((produceCombinations exs).map encCombo)
  | "cycle" =>
    let xs ← asArr (← field a "xs"); let idx ← asNat (← field a "idx")
    return match cycleGet xs idx with | some x => .arr [x] | none => .null
  | "expand" =>
    return .arr ((expandSubschemas (← ofOrd (← field a "schema"))).map toOrd)
  | "extract" =>
    let params ← asList decSource (← field a "params")
    let bodies ← asList decSource (← field a "bodies")
    let fuel ← asNat (← field a "fuel")
    let vRef ← match optField a "vref" with
      | .null => pure Variant.asFound
      | j => decVariant j
    let top := extractTopLevel vRef (params ++ bodies)
    let sch := extractFromSchemas genMarker fuel (params ++ bodies)
    let combos := produceCombinations (top ++ sch)
    let merged ← match optField a "user" with
      | .null => pure combos
      | u => do
        let user ← decContainers u
        let v ← decVariant (← field a "variant")
        pure (combos.map fun c => ⟨mergeKwargs v c.params user, c.body⟩)
    return jobj [("top", .arr (top.map encExample)), ("schemas", .arr (sch.map encExample)),
                 ("combos", .arr (combos.map encCombo)), ("merged", .arr (merged.map encCombo))]
  | "merge" =>
    let v ← decVariant (← field a "variant")
    return encContainers (mergeKwargs v (← decContainers (← field a "combo")) (← decContainers (← field a "user")))
  | "fill" =>
    let value ← asOpt decContainer (optField a "value")
    let new ← asOpt decContainer (optField a "new")
    return match fillIn value new with | some c => encContainer c | none => .null
  | "add" =>
    let vExc ← decVariant (← field a "vexc"); let vHdr ← decVariant (← field a "vhdr")
    let r : Except Exc (List ECase) ← match optField a "error" with
      | .str e => do pure (.error (← decExc e))
      | _ => do pure (.ok (← asList decECase (← field a "cases")))
    let out := addExamples vExc vHdr r
    return jobj [("sent", .arr (out.sent.map encECase)), ("marks", .arr (out.marks.map encMark)),
                 ("raised", .bool out.raised), ("status", encStatus (runStatus out))]
  | "meets" =>
    -- for every expectation: does any of the given cases meet it?  (the specification judging real output)
    let cases ← asList decECase (← field a "cases")
    let exps ← asList decExpect (← field a "expect")
    return .arr (exps.map fun e => .bool (cases.any fun c => meetsB c.params c.body e))
  | "carries" =>
    -- does any of the given cases carry the example?
    let e ← decExample (← field a "example")
    let cases ← asList decECase (← field a "cases")
    return .bool (cases.any fun c => carriesB c.params c.body e)
  | "createPhases" =>
    let modes ← asList decMode (← field a "modes")
    let phases ← asList decPhase (← field a "phases")
    let final := createPhases modes phases
    return jobj [("final", .arr (final.map encPhase)),
                 ("registers", .bool (registersExamples modes final (← asBool (← field a "supports"))))]
  | "runTest" =>
    let r := runTest (← decRaised (← field a "raised")) (← asBool (← field a "cof")) (← asNat (← field a "nErrors"))
      (← asList decMark (← field a "marks")) (← asList asStr (← field a "bad"))
    return jobj [("status", encStatus r.1), ("reports", .arr (r.2.map encReport))]
  | "history" =>
    let vExc ← decVariant (← field a "vexc"); let vHdr ← decVariant (← field a "vhdr")
    let vMark ← decVariant (← field a "vmark")
    let vHash ← decVariant (← field a "vhash")
    let built : Except Exc (List ECase) ← match optField a "error" with
      | .str e => do pure (.error (← decExc e))
      | _ => do pure (.ok (← asList decECase (← field a "cases")))
    let db ← asList decECase (← field a "db")
    let runs ← asList decRun (← field a "runs")
    return .arr ((runHistory vExc vHdr vMark vHash built db runs).map fun p =>
      jobj [("executed", .arr (p.2.executed.map encECase)), ("engineRan", .num p.2.engineRan.length 0),
            ("status", encStatus p.2.status), ("reports", .arr (p.2.reports.map encReport))])
  | "judge" =>
    let o : Observed := ⟨← asList decECase (← field a "cases"), ← decStatus (← field a "status"),
                         ← asList decReport (← field a "reports")⟩
    return .arr ((judge (← asList decExpect (← field a "sendable")) (← asList decExpect (← field a "unsendable"))
      (← asBool (← field a "judgeSendable")) o).map .str)
  | _ => .error s!"unknown op {op}"

def main : IO Unit := run handle
