import SV.Wire
import SV.Spec.C18
open SV SV.Wire SV.Model.C18 SV.Spec.C18

def decRPath (j : Json) : Except String RPath := do
  return ⟨← asChars (← field j "path"), ← asPairs asChars asChars (← field j "vars")⟩

def decNode (j : Json) : Except String Node := do
  return ⟨← asNat (← field j "id"), ← asOpt asNat (optField j "parent"), ← asChars (← field j "method"),
          ← decRPath j, ← asOpt asNat (optField j "status")⟩

def decComponent (j : Json) : Except String Component := do
  return ⟨← asOpt (asPairs asStr asStr) (optField j "stored"), ← asBool (← field j "generated"),
          ← asOpt (asPairs asStr asStr) (optField j "current")⟩

def encOut : Out → Json
  | .pass => .str "pass"
  | .fail i => jobj [("fail", jnat i)]
  | .keyError => .str "KeyError"

def encVerdict : Verdict → Json
  | .yes => .bool true | .no => .bool false | .keyError => .str "KeyError"

def handle : Handler := fun op a => do
  match op with
  | "prefix" =>
    let l ← decRPath (← field a "l"); let r ← decRPath (← field a "r")
    return jobj [("model", encVerdict (isPrefixOp l r)), ("bound", .bool (bound l r)),
                 ("spec", .bool (sameResource l r))]
  | "tree" =>
    -- {nodes, cur, status, overrides:{path,headers,cookies,query}, params:[[loc,name]]}
    let t ← asList decNode (← field a "nodes")
    let curId ← asNat (← field a "cur")
    let status ← asNat (← field a "status")
    let some cur := findNode t curId | .error "cur not in tree"
    let o ← field a "overrides"
    let ov : Overrides := ⟨← decComponent (← field o "path"), ← decComponent (← field o "headers"),
                           ← decComponent (← field o "cookies"), ← decComponent (← field o "query")⟩
    let params ← asPairs asStr asStr (← field a "params")
    let rels := findRelated t curId
    return jobj [
      ("related", .arr (rels.map fun n => jnat n.id)),
      ("uaf_asFound", encOut (useAfterFree .asFound t cur status)),
      ("uaf_repaired", encOut (useAfterFree .repaired t cur status)),
      ("uaf_spec", .bool (specUAF rels cur status)),
      ("rels_bound", .bool (relsBound rels cur)),
      ("era", encOut (ensureResourceAvailability t cur status ov params)),
      ("era_spec", .bool (specERA t rels cur status ov params)),
      ("all_overridden", .bool (allOverridden ov params))]
  | _ => .error s!"unknown op {op}"

def main : IO Unit := run handle
