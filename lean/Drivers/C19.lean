import SV.Wire
import SV.Spec.C19
import SV.Spec.C19Pipeline
open SV SV.Wire SV.Model.C19 SV.Spec.C19

def actionStr : Action → String
  | .beforeGenerate => "before_generate" | .filter => "filter" | .map => "map" | .flatmap => "flatmap"

def targetStr : Target → String
  | .pathParameters => "path_parameters" | .query => "query" | .headers => "headers" | .cookies => "cookies"
  | .body => "body" | .case => "case"

def allTargets : List Target := [.pathParameters, .query, .headers, .cookies, .body, .case]

def nameStr : HookName → String
  | .gen a t => actionStr a ++ "_" ++ targetStr t
  | .beforeProcessPath => "before_process_path" | .beforeLoadSchema => "before_load_schema"
  | .afterLoadSchema => "after_load_schema" | .beforeAddExamples => "before_add_examples"
  | .beforeInitOperation => "before_init_operation" | .beforeCall => "before_call" | .afterCall => "after_call"

def allNames : List HookName :=
  (actions.flatMap fun a => allTargets.map fun t => HookName.gen a t) ++
  [.beforeProcessPath, .beforeLoadSchema, .afterLoadSchema, .beforeAddExamples, .beforeInitOperation, .beforeCall, .afterCall]

def decName (j : Json) : Except String HookName := do
  let s ← asStr j
  match allNames.find? (fun n => nameStr n == s) with
  | some n => return n
  | none => .error s!"unknown hook name {s}"

def decTarget (j : Json) : Except String Target := do
  let s ← asStr j
  match allTargets.find? (fun t => targetStr t == s) with
  | some t => return t
  | none => .error s!"unknown target {s}"

def decOp (j : Json) : Except String Op := do
  match j with
  | .arr [.str "regApply", m, i, f] => return .regApply (← asNat m) (← asBool i) (← asNat f)
  | .arr [.str "registerFn", m, h, n] => return .registerFn (← asNat m) (← asNat h) (← decName n)
  | .arr [.str "registerName", m, n] => return .registerName (← asNat m) (← decName n)
  | .arr [.str "decoApply", d, i, f] => return .decoApply (← asNat d) (← asBool i) (← asNat f)
  | .arr [.str "decorate", d, h] => return .decorate (← asNat d) (← asNat h)
  | .arr [.str "applyHook", d, h, n] => return .applyHook (← asNat d) (← asNat h) (← decName n)
  | .arr [.str "unregister", d, h] => return .unregister (← asNat d) (← asNat h)
  | .arr [.str "unregisterAll", d] => return .unregisterAll (← asNat d)
  | _ => .error "bad op"

def decAuthOp (j : Json) : Except String AuthOp := do
  match j with
  | .arr [.str "register", s] => return .register (← asNat s)
  | .arr [.str "apply", s, c] => return .apply (← asNat s) (← asNat c)
  | .arr [.str "setFromRequests", s, c] => return .setFromRequests (← asNat s) (← asNat c)
  | .arr [.str "handleApply", h, i, f] => return .handleApply (← asNat h) (← asBool i) (← asNat f)
  | .arr [.str "decorate", h, x] => return .decorate (← asNat h) (← asNat x)
  | .arr [.str "unregister", s] => return .unregister (← asNat s)
  | _ => .error "bad auth op"

def encOut : Out → Json
  | .ok => .str "ok" | .okDeco d => jobj [("deco", jnat d)] | .valueError => .str "ValueError"
  | .filterExists => .str "FilterExists" | .badRef => .str "badRef"

def encAuthOut : AuthOut → Json
  | .ok => .str "ok" | .okHandle h => jobj [("handle", jnat h)] | .filterExists => .str "FilterExists"
  | .alreadyApplied => .str "AlreadyApplied" | .notCallable => .str "notCallable" | .badRef => .str "badRef"

def encFS (s : FS) : Json := jobj [("inc", .arr (s.inc.map jnat)), ("exc", .arr (s.exc.map jnat))]

def encOptFS : Option FS → Json
  | none => .null
  | some s => encFS s

def decV25 (j : Json) : Except String V25 := do
  match ← asStr j with
  | "asFound" => return .asFound | "nonlocalOnly" => return .nonlocalOnly | "repaired" => return .repaired
  | s => .error s!"bad v25 {s}"

def decV26 (j : Json) : Except String Variant := do
  match ← asStr j with
  | "asFound" => return .asFound | "repaired" => return .repaired
  | s => .error s!"bad v26 {s}"

def mkMt (rows : List (List Bool)) : Nat → Nat → Bool := fun f o => ((rows.getD f []).getD o false)

def encApplied (xs : List (Nat × Action × Nat)) : Json :=
  .arr (xs.map fun (d, a, h) => .arr [jnat d, .str (actionStr a), jnat h])

def encCtx : Option Nat → Json
  | none => .null
  | some o => jnat o

def encStages (xs : List (Nat × Action × Nat × Option Nat)) : Json :=
  .arr (xs.map fun (d, a, h, c) => .arr [jnat d, .str (actionStr a), jnat h, encCtx c])

/-- what drawing through the harness hooks does: the `before_generate` calls of build time, the calls of draw time
    (kind, hook, operation of the context, value received) and the value drawn -/
def encDraw (xs : List (Nat × Action × Nat × Option Nat)) : Json :=
  let r := denote probe (untag xs) (sPure []) []
  jobj [
    ("build", .arr ((untag xs).filterMap fun (a, h, c) =>
        if a = .beforeGenerate then some (.arr [.str (actionStr a), jnat h, encCtx c]) else none)),
    ("calls", .arr (r.1.map fun c => .arr [.str (actionStr c.act), jnat c.hook, encCtx c.ctx, .arr (c.arg.map jnat)])),
    ("value", match r.2 with | none => .null | some (v, _) => .arr (v.map jnat))]

def handle : Handler := fun op a => do
  match op with
  | "hist" =>
    -- {v25, v26, disp:[…], ops:[…], mt:[[bool]], nOps, nHooks, withTest, targets:[…], dispatch:[name…]}
    let v25 ← decV25 (← field a "v25")
    let v26 ← decV26 (← field a "v26")
    let disp ← asList asNat (← field a "disp")
    let ops ← asList decOp (← field a "ops")
    let mt := mkMt (← asList (asList asBool) (← field a "mt"))
    let nOps ← asNat (← field a "nOps")
    let nHooks ← asNat (← field a "nHooks")
    let withTest ← asBool (← field a "withTest")
    let targets ← asList decTarget (← field a "targets")
    let dnames ← asList decName (← field a "dispatch")
    let dispF : Nat → Nat := fun m => disp.getD m 0
    let s0 := init disp.length dispF
    let s := run v25 s0 ops
    let as := arun (ainit disp.length dispF) ops
    let hs := List.range nHooks
    let os := List.range nOps
    return jobj [
      ("outs", .arr ((outs v25 s0 ops).map encOut)),
      ("attr", .arr (hs.map fun h => match s.attr h with
          | none => .null
          | some x => jobj [("addr", jnat x), ("fs", encFS (s.heap x))])),
      ("hooks", .arr ((List.range 3).map fun d => .arr ((s.hooks d).map fun (n, h) => .arr [.str (nameStr n), jnat h]))),
      ("applied", .arr (targets.map fun t => .arr (os.map fun o =>
          if t = .case then encApplied (applyAllCase v26 mt s withTest o) else encApplied (applyAll mt s withTest t o)))),
      -- the closures of the application loops resolved, and a draw through the harness hooks
      ("stages", .arr (targets.map fun t => .arr (os.map fun o => encStages (stagesOf .byValue v26 mt s withTest t o)))),
      ("draw", .arr (targets.map fun t => .arr (os.map fun o => encDraw (stagesOf .byValue v26 mt s withTest t o)))),
      ("spec_stages", .arr (targets.map fun t => .arr (os.map fun o =>
          encStages (specStages mt (afilterOf as) as.hooks withTest t o)))),
      ("dispatch", .arr (dnames.map fun n => .arr ((List.range 3).map fun d =>
          jobj [("none", .arr ((dispatch mt s d n none).map jnat)),
                ("ops", .arr (os.map fun o => .arr ((dispatch mt s d n (some o)).map jnat)))]))),
      ("dispatch_all", .arr (dnames.map fun n =>
          jobj [("none", .arr ((dispatchAll mt s withTest n none).map fun p => jnat p.2)),
                ("ops", .arr (os.map fun o => .arr ((dispatchAll mt s withTest n (some o)).map fun p => jnat p.2)))])),
      -- reference machine (specification)
      ("spec_outs", .arr ((aouts (ainit disp.length dispF) ops).map encOut)),
      ("spec_hooks", .arr ((List.range 3).map fun d => .arr ((as.hooks d).map fun (n, h) => .arr [.str (nameStr n), jnat h]))),
      ("spec_filter", .arr (hs.map fun h => encOptFS (afilterOf as h))),
      ("spec_applies", .arr (hs.map fun h => .arr (os.map fun o => .bool (specApplies mt (afilterOf as h) o))))]
  | "fsmatch" =>
    -- {inc:[…], exc:[…], mt, nOps}
    let fs : FS := ⟨← asList asNat (← field a "inc"), ← asList asNat (← field a "exc")⟩
    let mt := mkMt (← asList (asList asBool) (← field a "mt"))
    let nOps ← asNat (← field a "nOps")
    return .arr ((List.range nOps).map fun o => .bool (fs.matches mt o))
  | "auth" =>
    -- {ops:[…], mt, nOps, nStores, nTests}
    let ops ← asList decAuthOp (← field a "ops")
    let mt := mkMt (← asList (asList asBool) (← field a "mt"))
    let nOps ← asNat (← field a "nOps")
    let nStores ← asNat (← field a "nStores")
    let nTests ← asNat (← field a "nTests")
    let s := authRun authInit ops
    let encP (p : Provider) : Json :=
      jobj [("cls", jnat p.cls), ("filt", match p.filt with | none => .null | some x => jobj [("addr", jnat x), ("fs", encFS (s.heap x))])]
    return jobj [
      ("outs", .arr ((authOuts authInit ops).map encAuthOut)),
      ("providers", .arr ((List.range nStores).map fun st => .arr ((s.providers st).map encP))),
      ("tests", .arr ((List.range nTests).map fun t => match s.testStore t with | none => .null | some p => encP p)),
      ("handles", .arr ((List.range s.nH).map fun h => encFS (s.heap (s.hSet h)))),
      ("set_on_case", .arr ((none :: (List.range nTests).map some).map fun t => .arr ((List.range nOps).map fun o =>
          match (setOnCase mt s t o : Option Provider) with | none => .null | some p => jnat (Provider.cls p)))),
      ("set", .arr ((List.range nStores).map fun st => .arr ((List.range nOps).map fun o =>
          match authSet mt s st o with | none => .null | some p => jnat p.cls)))]
  | _ => .error s!"unknown op {op}"

def main : IO Unit := run handle
