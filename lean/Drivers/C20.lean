import SV.Wire
import SV.Model.C20Derive
import SV.Spec.C20
import SV.Spec.C20Scalars
open SV SV.Wire SV.Model.C20 SV.Spec.C20

def decTypeDef (j : Json) : Except String TypeDef := do
  match j with
  | .arr [n, fs] => return ⟨← asChars n, ← asList asChars fs⟩
  | _ => .error "expected [name, [fields]]"

def decRaw (j : Json) : Except String Raw := do
  return ⟨← asOpt asChars (optField j "query"), ← asOpt asChars (optField j "mutation"),
          ← asList decTypeDef (← field j "types")⟩

def decAttr (j : Json) : Except String Attr := do
  match ← asStr j with
  | "label" => return .label
  | "method" => return .method
  | "path" => return .path
  | "tag" => return .tag
  | a => .error s!"unknown attribute {a}"

def decMatcher (j : Json) : Except String Matcher := do
  match ← asStr (← field j "k") with
  | "value" => return .value (← decAttr (← field j "a")) (← asChars (← field j "e"))
  | "list" => return .valueList (← decAttr (← field j "a")) (← asList asChars (← field j "e"))
  | "regex" => return .regex (← decAttr (← field j "a")) (← asBool (← field j "pre")) (← asBool (← field j "post"))
                 (← asChars (← field j "lit"))
  | "table" =>
    let on ← asList asChars (← field j "on")
    return .func fun v => on.contains v.label
  | k => .error s!"unknown matcher kind {k}"

def decFilterSet (j : Json) : Except String FilterSet := do
  return ⟨← asList (asList decMatcher) (← field j "includes"), ← asList (asList decMatcher) (← field j "excludes")⟩

def encRoot : Root → Json
  | .query => .str "QUERY"
  | .mutation => .str "MUTATION"

def decRoot (j : Json) : Except String Root := do
  match ← asStr j with
  | "QUERY" => return .query
  | "MUTATION" => return .mutation
  | r => .error s!"unknown root {r}"

def encOp (o : Op) : Json := .arr [encRoot o.root, jstr o.typeName, jstr o.field]

def decOp (j : Json) : Except String Op := do
  match j with
  | .arr [r, t, f] => return ⟨← decRoot r, ← asChars t, ← asChars f⟩
  | _ => .error "expected [root, type, field]"

def encResult : Result → Json
  | .ok o => .arr [.str "ok", encRoot o.root, jstr o.typeName, jstr o.field]
  | .typeNotFound => .str "typeNotFound"
  | .fieldNotFound => .str "fieldNotFound"

def decQuery (j : Json) : Except String (Name × Name) := do
  match j with
  | .arr [t, f] => return (← asChars t, ← asChars f)
  | _ => .error "expected [type, field]"

def encOptName : Option Name → Json
  | none => .null
  | some n => jstr n

def decSel (j : Json) : Except String (Option Root × List (Option Name)) := do
  match j with
  | .arr [k, sels] =>
    let kind ← match k with
      | .str "QUERY" => pure (some Root.query)
      | .str "MUTATION" => pure (some Root.mutation)
      | _ => pure none
    return (kind, ← asList (asOpt asChars) sels)
  | _ => .error "expected [kind, [selections]]"

def decNode (j : Json) : Except String ValueNode := do
  match ← asStr (← field j "k") with
  | "int" => return .int (← asChars (← field j "t"))
  | "str" => return .str (← asChars (← field j "t"))
  | "null" => return .null
  | _ => return .other

def encNode : ValueNode → Json
  | .int t => jobj [("k", .str "int"), ("t", jstr t)]
  | .str t => jobj [("k", .str "str"), ("t", jstr t)]
  | .null => jobj [("k", .str "null")]
  | .other => jobj [("k", .str "other")]

/-- integers travel as decimal text -/
def decIntText (j : Json) : Except String Int := do
  let t ← asChars j
  if isIntLiteral t then return intValue t else .error s!"not an integer literal: {String.ofList t}"

def decOptInt (j : Json) : Except String (Option Int) := asOpt decIntText j

def encDrawn : Drawn → Json
  | .int n => .arr [.str "int", jstr (intText n)]
  | .date y m d => .arr [.str "date", jnat y, jnat m, jnat d]
  | .time h mi s us => .arr [.str "time", jnat h, jnat mi, jnat s, jnat us]
  | .dateTime y m d h mi s us => .arr [.str "dateTime", jnat y, jnat m, jnat d, jnat h, jnat mi, jnat s, jnat us]
  | .ip4 n => .arr [.str "ip4", jstr (natText n)]
  | .ip6 n => .arr [.str "ip6", jstr (natText n)]
  | .uuid n => .arr [.str "uuid", jstr (natText n)]

def decDrawn (j : Json) : Except String Drawn := do
  match j with
  | .arr [.str "int", n] => return .int (← decIntText n)
  | .arr [.str "date", y, m, d] => return .date (← asNat y) (← asNat m) (← asNat d)
  | .arr [.str "time", h, mi, s, us] => return .time (← asNat h) (← asNat mi) (← asNat s) (← asNat us)
  | .arr [.str "dateTime", y, m, d, h, mi, s, us] =>
    return .dateTime (← asNat y) (← asNat m) (← asNat d) (← asNat h) (← asNat mi) (← asNat s) (← asNat us)
  | .arr [.str "ip4", n] => return .ip4 (← decIntText n).toNat
  | .arr [.str "ip6", n] => return .ip6 (← decIntText n).toNat
  | .arr [.str "uuid", n] => return .uuid (← decIntText n).toNat
  | _ => .error "unknown draw"

def encOptNode : Option ValueNode → Json
  | none => .null
  | some v => encNode v

def handle : Handler := fun op a => do
  match op with
  | "derive_tree" =>
    -- steps: [[parentIndex, isInclude, filterId]]; schema 0 is the root (no filters); schema i+1 is made by step i
    let steps ← (← asArr (← field a "steps")).mapM fun st => do
      match ← asArr st with
      | [pi, inc, f] => pure ((← asNat pi), (← asBool inc), (← asNat f))
      | _ => throw "step"
    let mode := match (← asStr (← field a "clone")) with | "share" => SV.Model.C20Derive.CloneMode.shareIncludes | _ => .copyBoth
    let init : SV.Model.C20Derive.Heap := [[], []]
    let (h, schemas) := steps.foldl (fun (acc : SV.Model.C20Derive.Heap × List SV.Model.C20Derive.FS) st =>
      let parent := (acc.2[st.1]?).getD ⟨0, 1⟩
      let r := SV.Model.C20Derive.derive mode acc.1 ⟨parent, st.2.1, st.2.2⟩
      (r.1, acc.2 ++ [r.2])) (init, [⟨0, 1⟩])
    return .arr (schemas.map fun fs =>
      let v := SV.Model.C20Derive.view h fs
      .arr [.arr (v.1.map jnat), .arr (v.2.map jnat)])
  | "select" =>
    let raw ← decRaw (← field a "raw")
    let F ← decFilterSet (← field a "filters")
    let bp ← asChars (← field a "basePath")
    let c := client raw
    let st := measureStatistic raw F bp
    return jobj [
      ("offered", .arr ((getAllOperations c F bp).map encOp)),
      ("stat", .arr [jnat st.total, jnat st.selected]),
      ("iter", .arr ((iterSchema c).map jstr)),
      ("spec_root_fields", .arr ((rootFields c).map encOp)),
      ("spec_offered", .arr (((rootFields c).filter (selected F bp)).map encOp))]
  | "lookups" =>
    let raw ← decRaw (← field a "raw")
    let qs ← asList decQuery (← field a "history")
    let c := client raw
    return jobj [
      ("asFound", .arr ((runLookups .asFound c Cache.empty qs).map encResult)),
      ("repaired", .arr ((runLookups .repaired c Cache.empty qs).map encResult)),
      ("spec", .arr ((qs.map (specLookup c)).map encResult))]
  | "call" =>
    let o ← decOp (← field a "op")
    let cfg : GenConfig := ⟨← asBool (← field a "x00"), ← asBool (← field a "null"),
                            ← asOpt asChars (optField a "codec")⟩
    let extra ← asList asChars (← field a "extra")
    let custom ← asList asChars (← field a "custom")
    let call := strategyCall o cfg (extra.map fun n => (n, "extra")) (custom.map fun n => (n, "custom"))
    return jobj [
      ("factory", encRoot call.factory),
      ("fields", .arr (call.fields.map jstr)),
      ("scalars", .arr (call.scalars.map fun (n, src) => .arr [jstr n, .str src])),
      ("x00", .bool call.allowX00), ("null", .bool call.allowNull), ("codec", encOptName call.codec)]
  | "body" =>
    let b : Body ← match ← asStr (← field a "kind") with
      | "notset" => pure Body.notSet
      | "bytes" => pure (Body.bytes (← asList asNat (← field a "v")))
      | "text" => pure (Body.text (← asChars (← field a "v")))
      | _ => pure (Body.other (← field a "v"))
    return match prepareBody b with
      | .notSet => jobj [("kind", .str "notset")]
      | .bytes bs => jobj [("kind", .str "bytes"), ("v", .arr (bs.map jnat))]
      | .json j => jobj [("kind", .str "json"), ("v", j)]
  | "targets" =>
    let o ← decOp (← field a "op")
    let d ← asList decSel (← field a "doc")
    return .bool (targets o d)
  | "scalar_table" =>
    -- the model's `get_extra_scalar_strategies`: names in order, whether the spec knows the scalar, extreme draws + nodes
    return .arr (extraScalars.map fun (n, g) => jobj [
      ("name", jstr n),
      ("spec", .bool (Scalar.ofName n).isSome),
      ("boundary", .arr ((boundaryDraws g).map fun d => .arr [encDrawn d, encOptNode (render g d)]))])
  | "scalar_judge" =>
    -- spec: is the node an acceptable literal of the scalar; model: can the built-in strategy of that name yield it
    let n ← asChars (← field a "name")
    let v ← decNode (← field a "node")
    let acc : Json := match Scalar.ofName n with
      | some sc => .bool (acceptable sc v)
      | none => .null
    let inModel : Json := match assocGet n extraScalars with
      | some g => .bool (inSupport g v)
      | none => .null
    return jobj [("acceptable", acc), ("inModel", inModel)]
  | "scalar_render" =>
    -- model: the node the built-in strategy `name` yields when its base strategy draws `draw`
    let n ← asChars (← field a "name")
    let d ← decDrawn (← field a "draw")
    match assocGet n extraScalars with
    | some g => return encOptNode (render g d)
    | none => .error "no such built-in scalar"
  | "ints" =>
    -- the family st.integers(lo, hi).map(nodes.Int): node for draw n; is the family member safe for Long; witness
    let lo ← decOptInt (optField a "lo")
    let hi ← decOptInt (optField a "hi")
    let within := intsWithinLong lo hi
    let node : Json ← match optField a "n" with
      | .null => pure Json.null
      | j => do pure (encOptNode (renderInts lo hi (← decIntText j)))
    return jobj [("node", node), ("safeForLong", .bool within),
                 ("witness", if within then .null else jstr (intText (longWitness lo hi)))]
  | "register" =>
    -- a history of scalar(name, strategy) calls on an empty registry: [[name | null, isStrategy, label]]
    let calls ← asList (fun j => match j with
      | .arr [n, ok, l] => do pure ((← asOpt asChars n), (← asBool ok), (← asStr l))
      | _ => .error "expected [name, isStrategy, label]") (← field a "calls")
    let final := registerAll ([] : List (Name × String)) calls
    let results := (calls.foldl (fun (acc : List (Name × String) × List Bool) (c : Option Name × Bool × String) =>
      match registerScalar acc.1 c.1 c.2.1 c.2.2 with
      | some r => (r, acc.2 ++ [true])
      | none => (acc.1, acc.2 ++ [false])) (([] : List (Name × String)), ([] : List Bool))).2
    return jobj [("registry", .arr (final.map fun (n, l) => .arr [jstr n, .str l])),
                 ("accepted", .arr (results.map .bool))]
  | _ => .error s!"unknown op {op}"

def main : IO Unit := run handle
