import SV.Wire
import SV.Spec.C20
open SV SV.Wire SV.Model.C20 SV.Spec.C20

def decTypeDef (j : Json) : Except String TypeDef := do
  match j with
  | .arr [n, fs] => return ⟨← asChars n, ← asList asChars fs⟩
  | _ => .error "expected [name, [fields]]"

def decRaw (j : Json) : Except String Raw := do
  return ⟨← asOpt asChars (optField j "query"), ← asOpt asChars (optField j "mutation"),
          ← asList decTypeDef (← field j "types")⟩

def decAttr (j : Json) : Except String Attr := do
  match ← asStr j with
  | "label" => return .label
  | "method" => return .method
  | "path" => return .path
  | "tag" => return .tag
  | a => .error s!"unknown attribute {a}"

def decMatcher (j : Json) : Except String Matcher := do
  match ← asStr (← field j "k") with
  | "value" => return .value (← decAttr (← field j "a")) (← asChars (← field j "e"))
  | "list" => return .valueList (← decAttr (← field j "a")) (← asList asChars (← field j "e"))
  | "regex" => return .regex (← decAttr (← field j "a")) (← asBool (← field j "pre")) (← asBool (← field j "post"))
                 (← asChars (← field j "lit"))
  | "table" =>
    let on ← asList asChars (← field j "on")
    return .func fun v => on.contains v.label
  | k => .error s!"unknown matcher kind {k}"

def decFilterSet (j : Json) : Except String FilterSet := do
  return ⟨← asList (asList decMatcher) (← field j "includes"), ← asList (asList decMatcher) (← field j "excludes")⟩

def encRoot : Root → Json
  | .query => .str "QUERY"
  | .mutation => .str "MUTATION"

def decRoot (j : Json) : Except String Root := do
  match ← asStr j with
  | "QUERY" => return .query
  | "MUTATION" => return .mutation
  | r => .error s!"unknown root {r}"

def encOp (o : Op) : Json := .arr [encRoot o.root, jstr o.typeName, jstr o.field]

def decOp (j : Json) : Except String Op := do
  match j with
  | .arr [r, t, f] => return ⟨← decRoot r, ← asChars t, ← asChars f⟩
  | _ => .error "expected [root, type, field]"

def encResult : Result → Json
  | .ok o => .arr [.str "ok", encRoot o.root, jstr o.typeName, jstr o.field]
  | .typeNotFound => .str "typeNotFound"
  | .fieldNotFound => .str "fieldNotFound"

def decQuery (j : Json) : Except String (Name × Name) := do
  match j with
  | .arr [t, f] => return (← asChars t, ← asChars f)
  | _ => .error "expected [type, field]"

def encOptName : Option Name → Json
  | none => .null
  | some n => jstr n

def decSel (j : Json) : Except String (Option Root × List (Option Name)) := do
  match j with
  | .arr [k, sels] =>
    let kind ← match k with
      | .str "QUERY" => pure (some Root.query)
      | .str "MUTATION" => pure (some Root.mutation)
      | _ => pure none
    return (kind, ← asList (asOpt asChars) sels)
  | _ => .error "expected [kind, [selections]]"

def handle : Handler := fun op a => do
  match op with
  | "select" =>
    let raw ← decRaw (← field a "raw")
    let F ← decFilterSet (← field a "filters")
    let bp ← asChars (← field a "basePath")
    let c := client raw
    let st := measureStatistic raw F bp
    return jobj [
      ("offered", .arr ((getAllOperations c F bp).map encOp)),
      ("stat", .arr [jnat st.total, jnat st.selected]),
      ("iter", .arr ((iterSchema c).map jstr)),
      ("spec_root_fields", .arr ((rootFields c).map encOp)),
      ("spec_offered", .arr (((rootFields c).filter (selected F bp)).map encOp))]
  | "lookups" =>
    let raw ← decRaw (← field a "raw")
    let qs ← asList decQuery (← field a "history")
    let c := client raw
    return jobj [
      ("asFound", .arr ((runLookups .asFound c Cache.empty qs).map encResult)),
      ("repaired", .arr ((runLookups .repaired c Cache.empty qs).map encResult)),
      ("spec", .arr ((qs.map (specLookup c)).map encResult))]
  | "call" =>
    let o ← decOp (← field a "op")
    let cfg : GenConfig := ⟨← asBool (← field a "x00"), ← asBool (← field a "null"),
                            ← asOpt asChars (optField a "codec")⟩
    let extra ← asList asChars (← field a "extra")
    let custom ← asList asChars (← field a "custom")
    let call := strategyCall o cfg (extra.map fun n => (n, "extra")) (custom.map fun n => (n, "custom"))
    return jobj [
      ("factory", encRoot call.factory),
      ("fields", .arr (call.fields.map jstr)),
      ("scalars", .arr (call.scalars.map fun (n, src) => .arr [jstr n, .str src])),
      ("x00", .bool call.allowX00), ("null", .bool call.allowNull), ("codec", encOptName call.codec)]
  | "body" =>
    let b : Body ← match ← asStr (← field a "kind") with
      | "notset" => pure Body.notSet
      | "bytes" => pure (Body.bytes (← asList asNat (← field a "v")))
      | "text" => pure (Body.text (← asChars (← field a "v")))
      | _ => pure (Body.other (← field a "v"))
    return match prepareBody b with
      | .notSet => jobj [("kind", .str "notset")]
      | .bytes bs => jobj [("kind", .str "bytes"), ("v", .arr (bs.map jnat))]
      | .json j => jobj [("kind", .str "json"), ("v", j)]
  | "targets" =>
    let o ← decOp (← field a "op")
    let d ← asList decSel (← field a "doc")
    return .bool (targets o d)
  | _ => .error s!"unknown op {op}"

def main : IO Unit := run handle
