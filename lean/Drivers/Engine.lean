import SV.Wire
import SV.Model.Plan
import SV.Model.Stateful
import SV.Model.StatefulMachine
import SV.Model.C12Settings
open SV SV.Wire SV.Model.Engine SV.Model.Plan

def decStatus : Json → Except String Status
  | .str "success" => pure .success | .str "failure" => pure .failure | .str "error" => pure .error
  | .str "interrupted" => pure .interrupted | .str "skip" => pure .skip
  | _ => .error "bad status"

def encStatus : Status → Json
  | .success => .str "success" | .failure => .str "failure" | .error => .str "error"
  | .interrupted => .str "interrupted" | .skip => .str "skip"

def decEv (j : Json) : Except String Ev := do
  match ← asStr (← field j "k") with
  | "scenStarted" => return .scenStarted (← asNat (← field j "id"))
  | "scenFinished" => return .scenFinished (← asNat (← field j "id")) (← decStatus (← field j "st"))
  | "nonFatal" => return .nonFatal (← asNat (← field j "id"))
  | "interrupted" => return .interrupted false
  | k => .error s!"bad event kind {k}"

def encEv : Ev → Json
  | .scenStarted i => jobj [("k", .str "scenStarted"), ("id", jnat i)]
  | .scenFinished i st => jobj [("k", .str "scenFinished"), ("id", jnat i), ("st", encStatus st)]
  | .nonFatal i => jobj [("k", .str "nonFatal"), ("id", jnat i)]
  | .interrupted _ => jobj [("k", .str "interrupted")]
  | .suiteStarted => jobj [("k", .str "suiteStarted")]
  | .suiteFinished st => jobj [("k", .str "suiteFinished"), ("st", encStatus st)]
  | .phaseFinished st ntt => jobj [("k", .str "phaseFinished"), ("st", encStatus st), ("ntt", .bool ntt)]

def decVariant : Json → Except String Variant
  | .str "asFound" => pure .asFound | .str "repaired" => pure .repaired | _ => .error "bad variant"

def encCtl (c : Ctl) : Json :=
  jobj [("stop", .bool c.stop), ("failures", jnat c.failures), ("limit", .bool c.limit)]

def encPc : CPc → Json
  | .preSuite => .str "preSuite" | .loop => .str "loop" | .sawEmpty => .str "sawEmpty"
  | .closing => .str "closing" | .done => .str "done"

def encCSt (c : CSt) : Json :=
  jobj [("pc", encPc c.pc), ("status", match c.status with | some s => encStatus s | none => .null),
        ("executed", .bool c.executed), ("ctl", encCtl c.ctl), ("out", .arr (c.out.map encEv))]

/-- consumer inputs: {"k":"got","e":ev,"sdy":b} | {"k":"empty","alive":b,"qempty":b} | {"k":"ki"} ; start/joined implicit -/
def decIns (j : Json) : Except String (List CIn) := do
  match ← asStr (← field j "k") with
  | "got" => return [.got (← decEv (← field j "e")) (← asBool (← field j "sdy"))]
  | "empty" => return [.empty, .alive (← asBool (← field j "alive")) (← asBool (← field j "qempty"))]
  | "ki" => return [.ki]
  | k => .error s!"bad input {k}"

/-- run the consumer until it reaches `closing`; inputs after that are ignored (the real generator stops asking) -/
def cRunUntilClosing (v : Variant) : CSt → List CIn → CSt × Nat
  | c, [] => (c, 0)
  | c, i :: is =>
    if c.pc == .closing || c.pc == .done then (c, 0) else
    match cStep v c i with
    | some c' => let (r, n) := cRunUntilClosing v c' is; (r, n + 1)
    | none => (c, 0)

def decScript (j : Json) : Except String Script := do
  return ⟨← asNat (← field j "id"), ← asNat (← field j "sends"), ← asNat (← field j "errs"),
          ← decStatus (← field j "final"), ← asBool (j.getD "bare" (.bool false))⟩

/-- run one worker alone: step until dead; the stop flag is raised right after the `stopAfterSends`-th send -/
def workerRun : Nat → Ctl → Option Nat → Nat → W → List Script → List Ev → List Ev × Nat × List Script
  | 0, _, _, sent, _, ops, acc => (acc, sent, ops)
  | fuel + 1, ctl, stopAfter, sent, w, ops, acc =>
    match wStep ctl w ops with
    | none => (acc, sent, ops)
    | some (w', ops', evs) =>
      let didSend := match w.st with | .run _ (.cases (_ + 1) true) => true | _ => false
      let sent' := if didSend then sent + 1 else sent
      let ctl' := match stopAfter with
        | some k => if didSend && sent' == k then { ctl with stop := true } else ctl
        | none => ctl
      workerRun fuel ctl' stopAfter sent' w' ops' (acc ++ evs)

def decLabel (j : Json) : Except String Label := do
  match j with
  | .arr [.str "w", i] => return .worker (← asNat i)
  | .str "cStart" => return .cStart
  | .arr [.str "cGot", b] => return .cGot (← asBool b)
  | .str "cEmpty" => return .cEmpty
  | .str "cAlive" => return .cAlive
  | .str "cKi" => return .cKi
  | .str "cJoined" => return .cJoined
  | .str "envStop" => return .envStop
  | _ => .error "bad label"

def decReason : Json → Except String (Option Reason)
  | .null => pure none
  | .str "disabled" => pure (some .disabled) | .str "not supported" => pure (some .notSupported)
  | .str "not applicable" => pure (some .notApplicable) | .str "failure limit reached" => pure (some .failureLimit)
  | .str "nothing to test" => pure (some .nothingToTest)
  | _ => .error "bad reason"

def encReason : Option Reason → Json
  | none => .null
  | some .disabled => .str "disabled" | some .notSupported => .str "not supported"
  | some .notApplicable => .str "not applicable" | some .failureLimit => .str "failure limit reached"
  | some .nothingToTest => .str "nothing to test"

def encPEv : PEv → Json
  | .engineStarted => jobj [("k", .str "EngineStarted")]
  | .phaseStarted i => jobj [("k", .str "PhaseStarted"), ("i", jnat i)]
  | .phaseFinished i st r => jobj [("k", .str "PhaseFinished"), ("i", jnat i), ("st", encStatus st), ("reason", encReason r)]
  | .inner i e => jobj [("k", .str "inner"), ("i", jnat i), ("e", encEv e)]
  | .interrupted => jobj [("k", .str "Interrupted")]
  | .engineFinished => jobj [("k", .str "EngineFinished")]

open SV.Model.Stateful in
def decSEv (j : Json) : Except String SEv := do
  match ← asStr (← field j "k") with
  | "suiteStarted" => return .suiteStarted (← asNat (j.getD "n" (jnat 0)))
  | "suiteFinished" => return .suiteFinished (← asNat (j.getD "n" (jnat 0))) (← decStatus (← field j "st"))
  | "scenStarted" => return .scenStarted (← asNat (← field j "id"))
  | "scenFinished" => return .scenFinished (← asNat (← field j "id")) (← decStatus (← field j "st"))
  | "nonFatal" => return .nonFatal
  | "interrupted" => return .interrupted
  | k => .error s!"bad stateful event {k}"

open SV.Model.Stateful in
def encSEv : SEv → Json
  | .suiteStarted n => jobj [("k", .str "suiteStarted"), ("n", jnat n)]
  | .suiteFinished n st => jobj [("k", .str "suiteFinished"), ("n", jnat n), ("st", encStatus st)]
  | .scenStarted i => jobj [("k", .str "scenStarted"), ("id", jnat i)]
  | .scenFinished i st => jobj [("k", .str "scenFinished"), ("id", jnat i), ("st", encStatus st)]
  | .nonFatal => jobj [("k", .str "nonFatal")]
  | .interrupted => jobj [("k", .str "interrupted")]
  | .phaseFinished st ntt => jobj [("k", .str "phaseFinished"), ("st", encStatus st), ("ntt", .bool ntt)]

open SV.Model.Stateful in
def decEnding : Json → Except String RunEnd
  | .str "ok" => pure .ok | .str "keyboardInterrupt" => pure .keyboardInterrupt | .str "skipTest" => pure .skipTest
  | .str "failureGroup" => pure .failureGroup | .str "flaky" => pure .flaky | .str "flakyNoFailure" => pure .flakyNoFailure
  | .str "unsatisfiableRetry" => pure .unsatisfiableRetry | .str "unsatisfiableGiveUp" => pure .unsatisfiableGiveUp
  | .str "otherException" => pure .otherException
  | _ => .error "bad ending"


/-! ### the instrumented state machine (SV.Model.StatefulMachine) -/
namespace SMD
open SV.Model.SM

def decCheck (j : Json) : Except String CheckOut := do
  match j with
  | .str "pass" => return .pass
  | .str "crash" => return .crash
  | .arr fs => return .fail (← fs.mapM asNat)
  | _ => .error "bad check outcome"

def decCall (j : Json) : Except String Call := do
  match j with
  | .str "raises" => return .raises
  | .str "interrupted" => return .interrupted
  | .str "baseExc" => return .baseExc
  | .arr cs => return .responds (← cs.mapM decCheck)
  | _ => .error "bad call"

def decStep (j : Json) : Except String Step := do
  return ⟨← asNat (← field j "case"), ← asBool (j.getD "stopBefore" (.bool false)), ← decCall (← field j "call")⟩

def decScenario (j : Json) : Except String Scenario := do
  return ⟨← asBool (j.getD "setupFails" (.bool false)), ← asList decStep (← field j "steps"),
          ← asBool (j.getD "teardownFails" (.bool false))⟩

def decHyp (j : Json) : Except String HypEnd := do
  match j with
  | .str "ok" => return .ok | .str "skipTest" => return .skipTest | .str "flaky" => return .flaky
  | .str "unsatisfiable" => return .unsatisfiable | .str "otherException" => return .otherException
  | .arr fs => return .failureGroup (← fs.mapM asNat)
  | _ => .error "bad hyp ending"

def decRun (j : Json) : Except String Run := do
  return ⟨← asList decScenario (← field j "scens"), ← decHyp (← field j "hyp"), ← asBool (j.getD "stopBeforeSuite" (.bool false))⟩

def decSMVariant : Json → Except String SV.Model.SM.Variant
  | .str "asFound" => pure .asFound | .str "repaired" => pure .repaired | _ => .error "bad variant"

def encCached : Cached → Json
  | .none_ => .str "none" | .failure => .str "failure" | .exception => .str "exception" | .baseExc => .str "baseExc"

def encRes : StepRes → Json
  | .returned => .str "returned" | .returnedNone => .str "returnedNone" | .failureGroup fs => .arr (fs.map jnat)
  | .exception => .str "exception" | .ki => .str "ki" | .baseExc => .str "baseExc"

def encEnd : ScenEnd → Json
  | .clean => .str "clean" | .failureGroup fs => .arr (fs.map jnat) | .exception => .str "exception"
  | .ki => .str "ki" | .baseExc => .str "baseExc"

def encMSt (m : MSt) : Json :=
  jobj [("ctl", encCtl m.ctl), ("seenRun", .arr (m.seenRun.map jnat)), ("seenSuite", .arr (m.seenSuite.map jnat)),
        ("stepStatus", match m.stepStatus with | some s => encStatus s | none => .null),
        ("completed", jnat m.completed), ("outcomes", .arr (m.outcomes.map fun (c, o) => .arr [jnat c, encCached o])),
        ("out", .arr (m.out.map encSEv)), ("recorded", .arr (m.recorded.map fun (i, f) => .arr [jnat i, jnat f])),
        ("calls", jnat m.calls)]

def initSt (a : Json) : Except String MSt := do
  let mf ← asOpt asNat (optField a "maxFailures")
  return { ctl := { maxFailures := mf }, unique := ← asBool (a.getD "unique" (.bool false)),
           maxExamples := ← asNat (a.getD "maxExamples" (jnat 100)) }

/-- raw machine operations on one context: {"op":"setup","fails":b} | {"op":"step",...} | {"op":"teardown"} -/
def applyOps : MSt → List Json → Except String (MSt × List Json)
  | m, [] => pure (m, [])
  | m, j :: rest => do
    match ← asStr (← field j "op") with
    | "setup" =>
      let r := setup m (← asBool (j.getD "fails" (.bool false)))
      let (m', outs) ← applyOps r.1 rest
      return (m', Json.bool r.2 :: outs)
    | "step" =>
      let r := step m (← decStep j)
      let (m', outs) ← applyOps r.1 rest
      return (m', encRes r.2 :: outs)
    | "teardown" =>
      let fails ← asBool (j.getD "fails" (.bool false))
      let (m', outs) ← applyOps (if fails then teardownFailing m else teardown m) rest
      return (m', (if fails then Json.str "raised" else Json.null) :: outs)
    | o => .error s!"bad machine op {o}"

end SMD

namespace SetD
open SV.Model.C12Settings
def decPhase : Json → Except String Phase
  | .str "explicit" => pure .explicit | .str "reuse" => pure .reuse | .str "generate" => pure .generate
  | .str "target" => pure .target | .str "shrink" => pure .shrink | .str "explain" => pure .explain
  | _ => .error "bad phase"
def encPhase : Phase → Json
  | .explicit => .str "explicit" | .reuse => .str "reuse" | .generate => .str "generate"
  | .target => .str "target" | .shrink => .str "shrink" | .explain => .str "explain"
def decS (j : Json) : Except String S := do
  return ⟨← asNat (← field j "max_examples"), ← asNat (← field j "stateful_step_count"), ← asOpt asNat (optField j "deadline"),
          ← asBool (← field j "derandomize"), ← asList decPhase (← field j "phases")⟩
def encS (s : S) : Json :=
  jobj [("max_examples", jnat s.maxExamples), ("stateful_step_count", jnat s.stepCount),
        ("deadline", match s.deadline with | some d => jnat d | none => .null), ("derandomize", .bool s.derandomize),
        ("phases", .arr (s.phases.map encPhase))]
end SetD

def handle : Handler := fun op a => do
  match op with
  | "configure" =>
    -- {"calls": [{"base_url": v?, "location": v?, "rate_limit": v?, "generation": v?, "output": v?, "app": v?}]}, v: nat | null; absent = NOT_SET
    let dec : Json → String → Except String (Option (Option Nat)) := fun j k =>
      match j with
      | .obj kvs => (match kvs.find? (·.1 == k) with
        | none => pure none
        | some (_, .null) => pure (some none)
        | some (_, v) => do return some (some (← asNat v)))
      | _ => .error "call"
    let calls ← asList (fun j => do
      return ({ baseUrl := ← dec j "base_url", location := ← dec j "location", rate := ← dec j "rate_limit",
                generation := ← dec j "generation", output := ← dec j "output", app := ← dec j "app" } :
              SV.Model.C12Settings.ConfigureCall)) (← field a "calls")
    let s := calls.foldl SV.Model.C12Settings.configure ⟨none, none, none, some 0, some 0, none⟩
    let enc : Option Nat → Json := fun o => match o with | some n => jnat n | none => .null
    return jobj [("base_url", enc s.baseUrl), ("location", enc s.location), ("rate_limit", enc s.rate),
                 ("generation", enc s.generation), ("output", enc s.output), ("app", enc s.app)]
  | "settings" =>
    let ag ← (match ← asStr (a.getD "against" (.str "active")) with
      | "active" => pure SV.Model.C12Settings.Against.active | "stock" => pure SV.Model.C12Settings.Against.stock
      | o => .error s!"against {o}")
    let conf ← asOpt SetD.decS (optField a "configured")
    return SetD.encS (SV.Model.C12Settings.effective ag (← SetD.decS (← field a "active")) (← SetD.decS (← field a "stock")) conf
      (← asBool (← field a "fuzzing")))
  | "sm_ops" =>
    let (m, outs) ← SMD.applyOps (← SMD.initSt a) (← asArr (← field a "ops"))
    return jobj [("state", SMD.encMSt m), ("results", .arr outs)]
  | "sm_thread" =>
    let v ← SMD.decSMVariant (← field a "variant")
    let runs ← asList SMD.decRun (← field a "runs")
    let m0 ← SMD.initSt a
    let m := SV.Model.SM.thread v 0 m0 runs
    return jobj [("state", SMD.encMSt m), ("suites", jnat (SV.Model.SM.suitesRun v 0 m0 runs))]
  | "stateful_thread" =>
    let suites ← (← asArr (← field a "suites")).mapM fun s => do
      return (⟨← asList decSEv (← field s "scen"), ← decEnding (← field s "ending"),
              ← asBool (s.getD "interruptedAtStart" (.bool false)), ← asBool (s.getD "limitReached" (.bool false))⟩ :
              SV.Model.Stateful.Suite)
    return .arr ((SV.Model.Stateful.threadEvents 0 suites).map encSEv)
  | "stateful_consume" =>
    let gets ← asList decSEv (← field a "gets")
    let c := SV.Model.Stateful.consume gets (← asBool (← field a "ki"))
    return .arr (c.out.map encSEv)
  | "consumer" =>
    let v ← decVariant (← field a "variant")
    let mf ← asOpt asNat (optField a "maxFailures")
    let ins := (← (← asArr (← field a "inputs")).mapM decIns).flatten
    let c0 : CSt := { ctl := { maxFailures := mf } }
    let (c, used) := cRunUntilClosing v c0 (.start :: ins)
    let c := match cStep v c .joined with | some c' => c' | none => c
    return jobj [("state", encCSt c), ("consumed", jnat used)]
  | "worker" =>
    let ops ← asList decScript (← field a "ops")
    let stopAfter ← asOpt asNat (optField a "stopAfterSends")
    let limit ← asBool (a.getD "limitAtStart" (.bool false))
    let (evs, sent, rest) := workerRun 100000 { limit := limit } stopAfter 0 {} ops []
    return jobj [("events", .arr (evs.map encEv)), ("sends", jnat sent), ("left", jnat rest.length)]
  | "fire" =>
    let v ← decVariant (← field a "variant")
    let ops ← asList decScript (← field a "ops")
    let n ← asNat (← field a "workers")
    let mf ← asOpt asNat (optField a "maxFailures")
    let ls ← asList decLabel (← field a "labels")
    match fireAll v (init ops n mf) ls with
    | none => return jobj [("ok", .bool false)]
    | some s => return jobj [("ok", .bool true), ("c", encCSt s.c), ("queue", .arr (s.queue.map encEv)),
                             ("hist", .arr (s.hist.map encEv)), ("late", .arr (s.ws.map fun w => jnat w.late))]
  | "plan" =>
    -- phases: [{idx, enabled, reason, run: {evs, status, ntt, stop, limit, failures, ki}}]; ctl: {stop, limit}
    let ps ← asArr (← field a "phases")
    let cfgs ← ps.mapM fun p => do
      return (⟨← asNat (← field p "idx"), ← asBool (← field p "enabled"), ← decReason (optField p "reason")⟩ : PhaseCfg)
    let runs ← ps.mapM fun p => do
      let r := optField p "run"
      match r with
      | .null => return ((← asNat (← field p "idx")), (none : Option PhaseRun))
      | _ =>
        let evs ← asList decEv (← field r "evs")
        let pr : PhaseRun := ⟨evs, ← decStatus (← field r "status"), ← asBool (← field r "ntt"),
          { stop := ← asBool (← field r "stop"), limit := ← asBool (← field r "limit") }, ← asBool (r.getD "ki" (.bool false))⟩
        return ((← asNat (← field p "idx")), some pr)
    let run : Nat → Ctl → PhaseRun := fun i c =>
      match runs.find? (·.1 == i) with
      | some (_, some r) => r
      | _ => ⟨[], .skip, true, c, false⟩
    let c0 ← field a "ctl"
    let ctl : Ctl := { stop := ← asBool (← field c0 "stop"), limit := ← asBool (← field c0 "limit") }
    let evs := execute run ctl cfgs
    let enabled : Nat → Bool := fun i => match cfgs.find? (·.idx == i) with | some p => p.enabled | none => false
    return jobj [("events", .arr (evs.map encPEv)), ("exit", jnat (exitCode enabled evs))]
  | _ => .error s!"unknown op {op}"

def main : IO Unit := run handle
