import SV.Spec.JsonSchemaWire
open SV SV.Wire SV.Spec.JsonSchema
def handle : Handler := fun op a =>
  match op with
  | "valid" => handleValid a
  | _ => .error s!"unknown op {op}"
def main : IO Unit := run handle
