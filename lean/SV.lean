-- Root of the SV library: models, specifications, proofs and property theorems.
import SV.Json
import SV.Wire
import SV.Audit
