/-
  SV.Audit — `#audit Ns` lists every theorem whose name starts with namespace `Ns`, together with the axioms it
  depends on, one per line:  AUDIT <name> :: <axiom> <axiom> …
  The harness counts these lines (obligations) and rejects any axiom outside {propext, Classical.choice, Quot.sound}.
-/
import Lean
open Lean Elab Command

elab "#audit " ns:ident : command => do
  let env ← getEnv
  let nsName := ns.getId
  let mut names : Array Name := #[]
  for (n, ci) in env.constants.toList do
    if nsName.isPrefixOf n && !n.isInternal then
      match ci with
      | .thmInfo _ => names := names.push n
      | _ => pure ()
  let sorted := names.qsort (fun a b => a.toString < b.toString)
  for n in sorted do
    let axs ← Lean.collectAxioms n
    let axs := axs.qsort (fun a b => a.toString < b.toString)
    logInfo m!"AUDIT {n} :: {" ".intercalate (axs.toList.map toString)}"
