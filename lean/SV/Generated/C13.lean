/- GENERATED from /repo by harness/gen_c13_tables.py on every run — do not edit. -/
namespace SV.Generated.C13

/-- (file, enclosing function, callee, first argument, class, phase) -/
def sites : List (String × String × String × String × String × String) := [
  ("generation/hypothesis/builder.py", "create_base_test", "hypothesis.given", "", "seededByCaller", "any"),
  ("generation/hypothesis/builder.py", "create_test", "hypothesis.seed", "config.seed", "seeded", "unit"),
  ("generation/hypothesis/builder.py", "add_examples", "examples.generate_one", "", "derandomized", "examples"),
  ("generation/hypothesis/examples.py", "example_generating_inner_function", "given", "", "derandomized", "any"),
  ("generation/hypothesis/examples.py", "add_single_example", "seed", "SCHEMATHESIS_BENCHMARK_SEED", "envSeed", "examples"),
  ("generation/coverage.py", "cached_draw", "examples.generate_one", "", "derandomized", "coverage"),
  ("generation/coverage.py", "generate_from", "cached_draw", "", "derandomized", "coverage"),
  ("generation/coverage.py", "generate_from_schema", "cached_draw", "", "derandomized", "coverage"),
  ("generation/coverage.py", "generate_from_schema", "cached_draw", "", "derandomized", "coverage"),
  ("generation/coverage.py", "generate_from_schema", "cached_draw", "", "derandomized", "coverage"),
  ("generation/coverage.py", "generate_from_schema", "cached_draw", "", "derandomized", "coverage"),
  ("generation/coverage.py", "generate_from_schema", "cached_draw", "", "derandomized", "coverage"),
  ("generation/coverage.py", "generate_from_schema", "cached_draw", "", "derandomized", "coverage"),
  ("generation/coverage.py", "generate_from_schema", "cached_draw", "", "derandomized", "coverage"),
  ("generation/coverage.py", "generate_from_schema", "cached_draw", "", "derandomized", "coverage"),
  ("generation/coverage.py", "generate_from_schema", "cached_draw", "", "derandomized", "coverage"),
  ("generation/coverage.py", "generate_from_schema", "cached_draw", "", "derandomized", "coverage"),
  ("generation/__init__.py", "<module>", "random.Random", "", "excludedById", "any"),
  ("engine/phases/stateful/_executor.py", "execute_state_machine_loop", "hypothesis.seed", "seed", "seededDerived", "stateful"),
  ("engine/phases/stateful/_executor.py", "execute_state_machine_loop", "InstrumentedStateMachine.run", "", "seededByCaller", "stateful"),
  ("specs/openapi/examples.py", "_generate_single_example", "examples.generate_one", "", "derandomized", "examples")
]

/-- `generate_one` runs under `settings(derandomize=True)` -/
def generateOneDerandomized : Bool := true

end SV.Generated.C13
