/- GENERATED from /repo by harness/gen_c13_tables.py on every run — do not edit. -/
namespace SV.Generated.C13Shared

/-- lazily initialised members of the schema object, shared by the worker threads:
    (file, class.method, member, kind, the assignment to `self.<member>` is the last statement of the guarded block that
    touches the object, lock held around the guarded block) -/
def lazyMembers : List (String × String × String × String × Bool × String) := [
  ("specs/openapi/schemas.py", "BaseOpenAPISchema.resolver", "_resolver", "hasattr-guard", true, ""),
  ("specs/openapi/schemas.py", "BaseOpenAPISchema.rewritten_components", "_rewritten_components", "hasattr-guard", true, ""),
  ("schemas.py", "BaseSchema.statistic", "statistic", "cached_property", true, ""),
  ("schemas.py", "APIOperation.__post_init__", "label", "hasattr-guard", true, "")
]

/-- accesses to the schema's single resolver (its scope stack) in specs/openapi/schemas.py: (method, what, lock held) -/
def resolverSites : List (String × String × String) := [
  ("_measure_statistic", "resolve", ""),
  ("_operation_iter", "resolve", ""),
  ("_populate_operation_id_cache", "resolve", ""),
  ("_populate_operation_id_cache", "resolution_scope", ""),
  ("in_scope", "push_scope", ""),
  ("_resolve_shared_parameters", "resolve_all", ""),
  ("_resolve_operation", "resolve_all", ""),
  ("_resolve_path_item", "resolution_scope", ""),
  ("get_operation_by_id", "in_scope", ""),
  ("get_operation_by_reference", "resolve", ""),
  ("get_operation_by_reference", "resolution_scope", ""),
  ("get_operation_by_reference", "in_scope", ""),
  ("get_operation_by_reference", "resolve", ""),
  ("_validating_response", "in_scopes", ""),
  ("in_scope", "pop_scope", ""),
  ("get_response_schema", "resolve_in_scope", ""),
  ("get_response_schema", "resolve_in_scope", ""),
  ("_resolve_until_no_references", "resolve", ""),
  ("_resolve_path_item", "resolve", ""),
  ("_get_response_definitions", "resolve_in_scope", ""),
  ("_rewrite_references", "_scopes_stack", ""),
  ("in_scopes", "in_scope", ""),
  ("prepare_multipart", "resolve_all", ""),
  ("_measure_statistic", "push_scope", ""),
  ("get_all_operations", "in_scope", ""),
  ("_get_payload_schema", "resolve", ""),
  ("_get_payload_schema", "resolve_all", ""),
  ("_measure_statistic", "pop_scope", ""),
  ("_rewrite_references", "resolving", "self._inline_reference_cache_lock")
]

/-- the lock under which `_rewrite_references` resolves references -/
def inliningLock : String := "self._inline_reference_cache_lock"

/-- the cache key is computed from `resolver._scopes_stack` while that lock is held -/
def keyReadUnderLock : Bool := false

/-- the other users of the resolver (iteration over operations, …) take that lock too -/
def otherSitesUnderLock : Bool := false

end SV.Generated.C13Shared
