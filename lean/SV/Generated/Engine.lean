/- GENERATED from /repo by harness/gen_engine_tables.py on every run — do not edit. -/
namespace SV.Generated.Engine

/-- `_STATUS_ORDER` of engine/__init__.py -/
def statusOrder : List (String × Nat) := [("SUCCESS", 0), ("FAILURE", 1), ("ERROR", 2), ("INTERRUPTED", 3), ("SKIP", 4)]

/-- the `except` arms of `run_test`, in source order: (exception classes, statuses the arm assigns, returns early) -/
def ladder : List (List String × List String × Bool) := [
  (["SkipTest", "SkipTest"], ["SKIP"], false),
  (["FailureGroup", "Failure"], ["FAILURE"], false),
  (["UnexpectedError"], ["ERROR"], false),
  (["Flaky"], ["ERROR", "FAILURE"], false),
  (["BaseExceptionGroup"], ["ERROR"], false),
  (["Unsatisfiable"], ["ERROR"], false),
  (["KeyboardInterrupt"], ["yield:INTERRUPTED"], true),
  (["AssertionError"], ["ERROR"], false),
  (["HypothesisRefResolutionError"], ["ERROR"], false),
  (["InvalidArgument"], ["ERROR"], false),
  (["DeadlineExceeded"], ["ERROR"], false),
  (["JsonSchemaError"], ["ERROR"], false),
  (["Exception"], ["ERROR"], false)
]

/-- status assigned when the test function returns normally -/
def ladderBody : List String := ["SUCCESS"]

/-- phases in the order `_create_execution_plan` lists them -/
def phaseOrder : List String := ["PROBING", "EXAMPLES", "COVERAGE", "FUZZING", "STATEFUL_TESTING"]

/-- `ExecutionContext.on_event`: statuses of an enabled PhaseFinished that set exit_code = 1 -/
def exitStatuses : List String := ["ERROR", "FAILURE"]
def exitOnNonFatal : Bool := true
def exitNeedsEnabled : Bool := true

end SV.Generated.Engine
