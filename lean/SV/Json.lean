/-
  SV.Json — the shared JSON value type of all models and specifications.
  Core Lean only.  Numbers are exact decimals `m · 10^(-e)`; integers are `num m 0`.
  Equality is hand-written (`Json.beq`) because the derived `BEq` of a nested inductive
  does not reduce under `decide`/`rfl`.
-/
namespace SV

inductive Json where
  | null
  | bool (b : Bool)
  | num (m : Int) (e : Nat)
  | str (s : String)
  | arr (xs : List Json)
  | obj (kvs : List (String × Json))
  deriving Repr, Inhabited

namespace Json

def int (n : Int) : Json := .num n 0

mutual
  def beq : Json → Json → Bool
    | .null, .null => true
    | .bool a, .bool b => a == b
    | .num m e, .num m' e' => m == m' && e == e'
    | .str a, .str b => a == b
    | .arr xs, .arr ys => beqList xs ys
    | .obj xs, .obj ys => beqKvs xs ys
    | _, _ => false
  def beqList : List Json → List Json → Bool
    | [], [] => true
    | x :: xs, y :: ys => beq x y && beqList xs ys
    | _, _ => false
  def beqKvs : List (String × Json) → List (String × Json) → Bool
    | [], [] => true
    | (k, x) :: xs, (k', y) :: ys => k == k' && beq x y && beqKvs xs ys
    | _, _ => false
end

instance : BEq Json := ⟨beq⟩

def isNull : Json → Bool | .null => true | _ => false
def isObj : Json → Bool | .obj _ => true | _ => false
def isArr : Json → Bool | .arr _ => true | _ => false
def isStr : Json → Bool | .str _ => true | _ => false
def isNum : Json → Bool | .num _ _ => true | _ => false
def isBool : Json → Bool | .bool _ => true | _ => false

def lookup (k : String) : List (String × Json) → Option Json
  | [] => none
  | (k', v) :: rest => if k == k' then some v else lookup k rest

def get? (j : Json) (k : String) : Option Json :=
  match j with
  | .obj kvs => lookup k kvs
  | _ => none

def getD (j : Json) (k : String) (d : Json) : Json := (j.get? k).getD d

def str? : Json → Option String | .str s => some s | _ => none
def int? : Json → Option Int | .num m 0 => some m | _ => none
def nat? : Json → Option Nat | .num m 0 => if m ≥ 0 then some m.toNat else none | _ => none
def bool? : Json → Option Bool | .bool b => some b | _ => none
def arr? : Json → Option (List Json) | .arr xs => some xs | _ => none
def obj? : Json → Option (List (String × Json)) | .obj kvs => some kvs | _ => none

def keys : Json → List String
  | .obj kvs => kvs.map (·.1)
  | _ => []

end Json
end SV
