/-
  Model of the OpenAPI -> JSON Schema conversion that positive data generation relies on (C01), part A.
  Python anchors (src/schemathesis):
    core/transforms.py            : transform
    specs/openapi/converter.py    : to_json_schema, update_pattern_in_schema, rewrite_properties, forbid_properties,
                                    is_read_only, is_write_only, to_json_schema_recursive
    specs/openapi/parameters.py   : OpenAPIParameter.transform_keywords (header `type: string` default),
                                    OpenAPI30Body.transform_keywords (form `type: object` default),
                                    from_open_api_to_json_schema (keyword filter), parameters_to_json_schema
    specs/openapi/_hypothesis.py  : get_schema_for_location (path: all required, minLength default),
                                    make_positive_strategy (header format injection), _can_skip_header_filter
  Schemas are raw `SV.Json` objects exactly as the Python code sees them (dicts); the regex rewriting
  (`patterns.update_quantifier`) is a parameter here (`Cfg.upd`) and is modelled on a regex AST in SV.Model.C01Regex.
  Core Lean only.
-/
import SV.Json

namespace SV.Model.C01
open SV

inductive Variant where
  | asFound | repaired
  deriving DecidableEq, Repr

abbrev Kvs := List (String × Json)

/-! ## Python dict operations on association lists (keys are unique in everything that comes from Python) -/

/-- `d[k] = v` (keeps the position of an existing key, appends otherwise) -/
def setKey (k : String) (v : Json) : Kvs → Kvs
  | [] => [(k, v)]
  | (k', v') :: rest => if k == k' then (k, v) :: rest else (k', v') :: setKey k v rest

/-- `d.pop(k, None)` -/
def eraseKey (k : String) : Kvs → Kvs
  | [] => []
  | (k', v') :: rest => if k == k' then eraseKey k rest else (k', v') :: eraseKey k rest

def mapVals (g : Json → Json) (kvs : Kvs) : Kvs := kvs.map fun (k, v) => (k, g v)

def hasKey (k : String) (kvs : Kvs) : Bool := (Json.lookup k kvs).isSome

/-- Python truthiness of a JSON value -/
def truthy : Json → Bool
  | .null => false
  | .bool b => b
  | .num m _ => m != 0
  | .str s => s != ""
  | .arr xs => !xs.isEmpty
  | .obj kvs => !kvs.isEmpty

def truthyOpt : Option Json → Bool
  | some j => truthy j
  | none => false

/-- `list.remove(x)` guarded by `x in list`: removes the first element equal to `x` -/
def eraseFirst (x : Json) : List Json → List Json
  | [] => []
  | y :: ys => if Json.beq x y then ys else y :: eraseFirst x ys

/-- order-preserving de-duplication (`list(set(…))` up to order) -/
def dedup : List Json → List Json
  | [] => []
  | x :: xs => if (dedup xs).any (Json.beq x) then dedup xs else x :: dedup xs

/-! ## configuration of one conversion run -/

structure Cfg where
  /-- defect site F4 (`forbid_properties` through `rewrite_properties`) -/
  vForbid : Variant := .asFound
  /-- defect site F5 (`update_pattern_in_schema` drops the length keywords whatever the anchoring) -/
  vLen : Variant := .asFound
  /-- `nullable_name` -/
  nn : String := "nullable"
  /-- `is_response_schema` -/
  resp : Bool := false
  /-- `update_quantifiers` -/
  updQ : Bool := true
  /-- `patterns.update_quantifier` (pattern text, minLength, maxLength) -/
  upd : String → Option Nat → Option Nat → String := fun p _ _ => p
  /-- "the pattern is anchored at both ends" (only consulted by the repaired variant of F5) -/
  anch : String → Bool := fun _ => false

/-! ## converter.py -/

/-- `is_read_only` / `is_write_only` -/
def isReadOnly : Json → Bool
  | .obj kvs => truthyOpt (Json.lookup "readOnly" kvs)
  | _ => false

def isWriteOnly : Json → Bool
  | .obj kvs => truthyOpt (Json.lookup "writeOnly" kvs) || truthyOpt (Json.lookup "x-writeOnly" kvs)
  | _ => false

def forbiddenPred (cfg : Cfg) : Json → Bool := if cfg.resp then isWriteOnly else isReadOnly

def propsMap (kvs : Kvs) : Kvs :=
  match Json.lookup "properties" kvs with
  | some (.obj ps) => ps
  | _ => []

def forbiddenNames (cfg : Cfg) (kvs : Kvs) : List String :=
  ((propsMap kvs).filter fun (_, s) => forbiddenPred cfg s).map (·.1)

/-- `forbid_properties(schema, forbidden)` -/
def forbidAsFound (kvs : Kvs) (names : List String) : Kvs :=
  let notS : Kvs := match Json.lookup "not" kvs with | some (.obj n) => n | _ => []
  let already : List Json := match Json.lookup "required" notS with | some (.arr xs) => xs | _ => []
  let all := already ++ names.map Json.str ++ names.map Json.str
  setKey "not" (.obj (setKey "required" (.arr (dedup all)) notS)) kvs

/-- the proposed repair (proposed_fixes/F4.diff): one name and no earlier `not` keeps the pinned form, otherwise every
    name gets its own alternative: `not: {anyOf: [<earlier not>, {required:[a]}, {required:[b]}, …]}` -/
def forbidRepaired (kvs : Kvs) (names : List String) : Kvs :=
  match Json.lookup "not" kvs, names with
  | none, [_] => forbidAsFound kvs names
  | prior, _ =>
    let alts := names.map fun n => Json.obj [("required", .arr [.str n])]
    let alts := match prior with | some p => p :: alts | none => alts
    setKey "not" (.obj [("anyOf", .arr alts)]) kvs

def forbid (cfg : Cfg) (kvs : Kvs) (names : List String) : Kvs :=
  match cfg.vForbid with
  | .asFound => forbidAsFound kvs names
  | .repaired => forbidRepaired kvs names

/-- `required.remove(name)` for every forbidden name, on the list object stored in the schema (if there is one) -/
def rpRequired (names : List String) (kvs : Kvs) : Kvs :=
  match Json.lookup "required" kvs with
  | some (.arr req) => setKey "required" (.arr (names.foldl (fun r n => eraseFirst (.str n) r) req)) kvs
  | _ => kvs

/-- `del schema["properties"][name]` for every forbidden name -/
def rpProps (cfg : Cfg) (kvs : Kvs) : Kvs :=
  match Json.lookup "properties" kvs with
  | some (.obj ps) => setKey "properties" (.obj (ps.filter fun (_, s) => !forbiddenPred cfg s)) kvs
  | _ => kvs

/-- `if not schema.get(k): schema.pop(k, None)` -/
def popFalsy (k : String) (kvs : Kvs) : Kvs := if truthyOpt (Json.lookup k kvs) then kvs else eraseKey k kvs

/-- `rewrite_properties(schema, predicate)` -/
def rewriteProps (cfg : Cfg) (kvs : Kvs) : Kvs :=
  let names := forbiddenNames cfg kvs
  let kvs2 := rpProps cfg (rpRequired names kvs)
  let kvs3 := if names.isEmpty then kvs2 else forbid cfg kvs2 names
  popFalsy "properties" (popFalsy "required" kvs3)

/-- a length keyword as `update_quantifier` receives it: absent, or a non-negative integer;
    `none` = some other JSON value (outside the model: the harness does not generate it) -/
def decLen : Option Json → Option (Option Nat)
  | none => some none
  | some (.num m 0) => if m ≥ 0 then some (some m.toNat) else none
  | some .null => some none
  | _ => none

/-- `update_pattern_in_schema(schema)` -/
def updatePattern (cfg : Cfg) (kvs : Kvs) : Kvs :=
  match Json.lookup "pattern" kvs with
  | some (.str p) =>
    let lo := Json.lookup "minLength" kvs
    let hi := Json.lookup "maxLength" kvs
    if p != "" && (truthyOpt lo || truthyOpt hi) then
      match decLen lo, decLen hi with
      | some lo', some hi' =>
        let np := cfg.upd p lo' hi'
        if np != p then
          let keepLengths := cfg.vLen == .repaired && !cfg.anch p
          let kvs1 := if keepLengths then kvs else eraseKey "maxLength" (eraseKey "minLength" kvs)
          setKey "pattern" (.str np) kvs1
        else kvs
      | _, _ => kvs
    else kvs
  | _ => kvs

def isFileType : Option Json → Bool
  | some (.str "file") => true
  | _ => false

def isObjectType : Option Json → Bool
  | some (.str "object") => true
  | _ => false

/-- `to_json_schema` after the nullable test: `type: file`, pattern/length merging, readOnly/writeOnly rewriting -/
def callbackBody (cfg : Cfg) (kvs : Kvs) : Kvs :=
  let ty := Json.lookup "type" kvs
  let isFile := isFileType ty
  let isObject := isObjectType ty
  let kvs1 := if isFile then setKey "format" (.str "binary") (setKey "type" (.str "string") kvs) else kvs
  let kvs2 := if cfg.updQ then updatePattern cfg kvs1 else kvs1
  if isObject then rewriteProps cfg kvs2 else kvs2

/-- `to_json_schema(schema, nullable_name=…, is_response_schema=…, update_quantifiers=…)`: the callback applied to
    every dict of the schema. A nullable schema is wrapped and nothing else happens at this level (the wrapper has no
    `type`/`pattern`); the wrapped dict is visited again by `transform`. -/
def callback (cfg : Cfg) (kvs : Kvs) : Kvs :=
  match Json.lookup cfg.nn kvs with
  | some (.bool true) =>
    [("anyOf", .arr [.obj (eraseKey cfg.nn kvs), .obj [("type", .str "null")]])]
  | _ => callbackBody cfg kvs

/-- `transform(schema, to_json_schema, …)`: callback on a dict, then recursion into every value of the result.
    The fuel bounds the nesting depth (the Python recursion is on the finite value itself). -/
def transform (cfg : Cfg) : Nat → Json → Json
  | 0, j => j
  | f + 1, .obj kvs => .obj (mapVals (transform cfg f) (callback cfg kvs))
  | f + 1, .arr xs => .arr (xs.map (transform cfg f))
  | _ + 1, j => j

/-! ## parameters.py / _hypothesis.py : per-location object schema -/

structure Param where
  name : String
  required : Bool
  /-- the keyword-filtered definition (`from_open_api_to_json_schema`), done on the Python side of the wire for the
      keyword tuple of the parameter class; `filterKeywords` below models it -/
  schema : Kvs

/-- `from_open_api_to_json_schema`: keep supported keywords, vendor extensions and the nullable field -/
def filterKeywords (supported : List String) (nn : String) (kvs : Kvs) : Kvs :=
  kvs.filter fun (k, _) => supported.contains k || k.startsWith "x-" || k == nn

/-- `OpenAPIParameter.transform_keywords`: recursive conversion, then `setdefault("type", "string")` for header and
    cookie parameters -/
def transformKeywords (cfg : Cfg) (fuel : Nat) (isHeader : Bool) (schema : Kvs) : Kvs :=
  match transform cfg fuel (.obj schema) with
  | .obj d => if isHeader && !hasKey "type" d then d ++ [("type", .str "string")] else d
  | _ => schema

/-- the `properties` dict of `parameters_to_json_schema`: a later parameter of the same name overwrites the earlier one -/
def paramsProps (cfg : Cfg) (fuel : Nat) (isHeader : Bool) (ps : List Param) : Kvs :=
  ps.foldl (fun acc p => setKey p.name (.obj (transformKeywords cfg fuel isHeader p.schema)) acc) ([] : Kvs)

/-- the `required` list of `parameters_to_json_schema` (no duplicate entries) -/
def paramsRequired (ps : List Param) : List String :=
  ps.foldl (fun (acc : List String) p => if p.required && !acc.contains p.name then acc ++ [p.name] else acc) []

/-- `parameters_to_json_schema` -/
def paramsToSchema (cfg : Cfg) (fuel : Nat) (isHeader : Bool) (ps : List Param) : Kvs :=
  [("properties", .obj (paramsProps cfg fuel isHeader ps)), ("additionalProperties", .bool false), ("type", .str "object"),
   ("required", .arr ((paramsRequired ps).map Json.str))]

/-- `get_schema_for_location` before `prepare_schema`: path parameters are all required and string-typed ones get
    `minLength: 1` unless they set it themselves -/
def schemaForLocation (cfg : Cfg) (fuel : Nat) (location : String) (ps : List Param) : Kvs :=
  let isHeader := location == "header" || location == "cookie"
  let s := paramsToSchema cfg fuel isHeader ps
  if location == "path" then
    let props := propsMap s
    let props' := props.map fun (k, v) =>
      match v with
      | .obj d =>
        (k, match Json.lookup "type" d with
            | some (.str "string") => if hasKey "minLength" d then Json.obj d else .obj (d ++ [("minLength", .num 1 0)])
            | _ => Json.obj d)
      | other => (k, other)
    setKey "required" (.arr (props.map fun (k, _) => Json.str k)) (setKey "properties" (.obj props') s)
  else s

/-- `make_positive_strategy` for header/cookie locations: a property schema that is exactly `{"type": "string"}` gets
    `format: _header_value` -/
def injectHeaderFormat (location : String) (s : Kvs) : Kvs :=
  if location == "header" || location == "cookie" then
    match Json.lookup "properties" s with
    | some (.obj props) =>
      setKey "properties" (.obj (props.map fun (k, v) =>
        match v with
        | .obj [("type", .str "string")] => (k, Json.obj [("type", .str "string"), ("format", .str "_header_value")])
        | other => (k, other))) s
    | _ => s
  else s

end SV.Model.C01
