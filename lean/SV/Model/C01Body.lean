/-
  Model of the choice of a request-body strategy in positive/negative generation (C01, part C).
  Python anchors (src/schemathesis):
    specs/openapi/_hypothesis.py  : _get_body_strategy + _BODY_STRATEGIES_CACHE (keyed by the body alternative and the
                                    strategy factory), get_parameters_strategy's _PARAMETER_STRATEGIES_CACHE key
                                    (operation; factory, location, sorted exclude), the `| just(NOT_SET)` branch for an
                                    optional body, the MEDIA_TYPES short cut
    specs/openapi/parameters.py   : OpenAPI30Body.as_json_schema / transform_keywords (form `type: object` default),
                                    OpenAPI20Body.as_json_schema, OpenAPI20CompositeBody.as_json_schema / is_required
    specs/openapi/schemas.py      : collect_parameters (one alternative per media type of `requestBody.content`; per
                                    `consumes` entry for a Swagger `body` parameter / the `formData` parameters)
  A *history* is the sequence of strategy requests one loaded operation receives (every drawn case asks for the
  strategy of the alternative it sampled; positive and negative generation interleave). The caches are part of the
  state. Strategies are abstract: what matters is which schema a strategy was built from.
  Core Lean only.
-/
import SV.Model.C01

namespace SV.Model.C01Body
open SV SV.Model.C01

/-- `make_positive_strategy` / `make_negative_strategy` -/
inductive Factory where
  | positive | negative
  deriving DecidableEq, Repr

/-! ## a memo table keyed by `key r` (both caches of `_hypothesis.py` have this shape) -/

section Cache
variable {R K S : Type} [DecidableEq K]

def lookupK (k : K) : List (K × S) → Option S
  | [] => none
  | (k', s) :: rest => if k = k' then some s else lookupK k rest

/-- `if key in CACHE: return CACHE[key]` … `CACHE[key] = strategy; return strategy` -/
def getOrBuild (key : R → K) (build : R → S) (c : List (K × S)) (r : R) : S × List (K × S) :=
  match lookupK (key r) c with
  | some s => (s, c)
  | none => (build r, (key r, build r) :: c)

/-- the answers a history of requests gets, starting from the table `c` -/
def runCache (key : R → K) (build : R → S) : List (K × S) → List R → List S
  | _, [] => []
  | c, r :: rs => (getOrBuild key build c r).1 :: runCache key build (getOrBuild key build c r).2 rs

end Cache

/-! ## body alternatives -/

inductive AltKind where
  /-- OpenAPI 3.x: one entry of `requestBody.content` -/
  | v3
  /-- Swagger 2.0 `in: body` parameter, once per `consumes` entry -/
  | v2body
  /-- Swagger 2.0 `formData` parameters joined into one composite body, once per `consumes` entry -/
  | v2form
  deriving DecidableEq, Repr

/-- one element of `operation.body.items` -/
structure Alt where
  kind : AltKind
  mediaType : String
  /-- v3: `requestBody.required`; v2body: the parameter's `required` -/
  required : Bool
  /-- v3: `content[media_type].schema` (`{}` when absent); v2body: the parameter's `schema` -/
  schema : Kvs
  /-- v2form: the `formData` parameters (keyword-filtered definitions) -/
  formParams : List Param := []

def formMediaTypes : List String := ["multipart/form-data", "application/x-www-form-urlencoded"]

/-- `OpenAPI30Body.is_form` -/
def Alt.isForm (a : Alt) : Bool := a.kind == .v3 && formMediaTypes.contains a.mediaType

/-- `parameter.is_required` -/
def Alt.isRequired (a : Alt) : Bool :=
  match a.kind with
  | .v2form => !a.formParams.isEmpty
  | _ => a.required

/-- `parameter.as_json_schema(operation)`: the recursive conversion of the alternative's *own* schema (no keyword
    filtering for bodies), `type: object` default for OpenAPI 3 forms; the composite Swagger form is the object schema
    of its parameters -/
def bodySchema (cfg : Cfg) (fuel : Nat) (a : Alt) : Json :=
  match a.kind with
  | .v2form => .obj (paramsToSchema cfg fuel false a.formParams)
  | _ =>
    match transform cfg fuel (.obj a.schema) with
    | .obj d => if a.isForm && !hasKey "type" d then .obj (d ++ [("type", .str "object")]) else .obj d
    | other => other

/-- a strategy, as far as the property can tell strategies apart -/
inductive Strat where
  /-- `MEDIA_TYPES[media_type]`: a user-registered strategy for the media type -/
  | custom (mediaType : String)
  /-- `strategy_factory(schema, label, "body", media_type, config)`, `| just(NOT_SET)` when `orNotSet` -/
  | built (schema : Json) (mediaType : String) (factory : Factory) (orNotSet : Bool)

/-- a request for a body strategy: alternative number `idx` of the operation (which is `alt`) with a factory -/
structure BodyReq where
  idx : Nat
  alt : Alt
  factory : Factory

/-- the cache key: `_BODY_STRATEGIES_CACHE[parameter][strategy_factory]` — the alternative itself (object identity,
    here its position in `operation.body.items`) and the factory -/
def bodyKey (r : BodyReq) : Nat × Factory := (r.idx, r.factory)

/-- the strategy `_get_body_strategy` builds on a cache miss -/
def buildBody (cfg : Cfg) (fuel : Nat) (r : BodyReq) : Strat :=
  .built (bodySchema cfg fuel r.alt) r.alt.mediaType r.factory (!r.alt.isRequired && r.factory != .negative)

/-- what a request gets when nothing is cached -/
def freshBody (cfg : Cfg) (fuel : Nat) (custom : String → Bool) (r : BodyReq) : Strat :=
  if custom r.alt.mediaType then .custom r.alt.mediaType else buildBody cfg fuel r

/-- `_get_body_strategy(parameter, strategy_factory, operation, generation_config)` with the cache as state -/
def getBodyStrategy (cfg : Cfg) (fuel : Nat) (custom : String → Bool) (c : List ((Nat × Factory) × Strat)) (r : BodyReq) :
    Strat × List ((Nat × Factory) × Strat) :=
  if custom r.alt.mediaType then (.custom r.alt.mediaType, c)
  else getOrBuild bodyKey (buildBody cfg fuel) c r

/-- the strategies a history of requests is answered with -/
def runBody (cfg : Cfg) (fuel : Nat) (custom : String → Bool) :
    List ((Nat × Factory) × Strat) → List BodyReq → List Strat
  | _, [] => []
  | c, r :: rs => (getBodyStrategy cfg fuel custom c r).1 :: runBody cfg fuel custom (getBodyStrategy cfg fuel custom c r).2 rs

/-- the requests of a history all belong to one operation whose alternatives are `alts` -/
def FromOperation (alts : List Alt) (rs : List BodyReq) : Prop :=
  ∀ r ∈ rs, alts[r.idx]? = some r.alt

/-! ## the parameter-strategy cache key -/

/-- a request for the strategy of one parameter location: factory, location, names given explicitly (`exclude`) -/
structure ParamReq where
  factory : Factory
  location : String
  exclude : List String

/-- insertion sort, `tuple(sorted(exclude))` -/
def insertSorted (x : String) : List String → List String
  | [] => [x]
  | y :: ys => if x ≤ y then x :: y :: ys else y :: insertSorted x ys

def sortNames : List String → List String
  | [] => []
  | x :: xs => insertSorted x (sortNames xs)

/-- `nested_cache_key = (strategy_factory, location, tuple(sorted(exclude)))` -/
def paramKey (r : ParamReq) : Factory × String × List String := (r.factory, r.location, sortNames r.exclude)

/-- drop the properties and `required` entries whose name satisfies `ex` -/
def excludeBy (ex : String → Bool) (s : Kvs) : Kvs :=
  let props := (propsMap s).filter fun (k, _) => !ex k
  let req := match Json.lookup "required" s with
    | some (.arr xs) => xs.filter fun j => match j with | .str n => !ex n | _ => true
    | _ => []
  setKey "required" (.arr req) (setKey "properties" (.obj props) s)

/-- `schema["properties"].pop(name, None)` / `schema["required"].remove(name)` for every excluded name -/
def excludeNames (names : List String) (s : Kvs) : Kvs := excludeBy (fun n => names.contains n) s

/-! ## the generation settings a cached strategy is built from -/

/-- what `make_positive_strategy` / `make_negative_strategy` read off the `GenerationConfig`: `allow_x00`, `codec`, the
    custom header strategy (an object, by identity) -/
structure GenSettings where
  allowX00 : Bool
  codec : Option String
  headerStrategy : Option Nat
  deriving DecidableEq, Repr

inductive KeyVariant where
  | asFound     -- the settings are not part of the cache keys
  | repaired    -- `(…, allow_x00, codec, headers.strategy)` (fix in /repo)
  deriving DecidableEq, Repr

/-- a request for a parameter-location strategy under given settings -/
structure GenParamReq where
  req : ParamReq
  gen : GenSettings

def genParamKey : KeyVariant → GenParamReq → (Factory × String × List String) × Option GenSettings
  | .asFound, r => (paramKey r.req, none)
  | .repaired, r => (paramKey r.req, some r.gen)

/-- the strategy built on a miss, as far as the settings are concerned: for which key parts, under which settings -/
def buildGenParam (r : GenParamReq) : (Factory × String × List String) × GenSettings := (paramKey r.req, r.gen)

/-- the same for body alternatives -/
structure GenBodyReq where
  idx : Nat
  factory : Factory
  gen : GenSettings

def genBodyKey : KeyVariant → GenBodyReq → (Nat × Factory) × Option GenSettings
  | .asFound, r => ((r.idx, r.factory), none)
  | .repaired, r => ((r.idx, r.factory), some r.gen)

def buildGenBody (r : GenBodyReq) : (Nat × Factory) × GenSettings := ((r.idx, r.factory), r.gen)

end SV.Model.C01Body
