/-
  SV.Model.C01Prune — `remove_optional_references.clean_properties` (specs/openapi/references.py), one object level.
  A component reached at the reference-depth limit of `resolve_all` is pruned: a property whose definition still contains a
  reference is taken out if it is optional.  What "taken out" means decides whether positive data can violate the schema.
  Core Lean only.
-/
namespace SV.Model.C01Prune

inductive Variant where
  | asFound     -- the definition is deleted from `properties`
  | repaired    -- the definition is replaced by `{"not": {}}` (fix e327b662)
  deriving DecidableEq, Repr

/-- a property of the object schema, by what `clean_properties` looks at -/
structure PropIn where
  name : String
  hasRef : Bool        -- `contains_ref(value)`: `$ref`, `items: {$ref}`, `items: [.., {$ref}, ..]`
  singleComb : Bool    -- `on_single_item_combinators(value)`: allOf/anyOf/oneOf whose only non-elidable member is a reference
  deriving DecidableEq, Repr

/-- what the pruned `properties` says about a name -/
inductive PDef where
  | keep      -- definition unchanged (and pushed on the stack for the next level)
  | never     -- `{"not": {}}`
  deriving DecidableEq, Repr

/-- `clean_properties` for one entry; `none`: the name is no longer in `properties` -/
def cleanOne (v : Variant) (required : List String) (p : PropIn) : Option PDef :=
  if !required.contains p.name && p.hasRef then
    (match v with | .asFound => none | .repaired => some .never)
  else if p.singleComb then
    (if required.contains p.name then none else match v with | .asFound => none | .repaired => some .never)
  else some .keep

structure ObjSchema where
  props : List PropIn
  required : List String
  additional : Bool           -- are undeclared names allowed (`additionalProperties` absent / true)?
  deriving Repr

/-- an instance, by what matters: the names it carries and whether the value under each conforms to the definition the
    *original* schema gives that name (for an undeclared name the flag is ignored) -/
abbrev Inst := List (String × Bool)

def lookup (name : String) : List PropIn → Option PropIn
  | [] => none
  | p :: r => if p.name == name then some p else lookup name r

def requiredPresent (required : List String) (o : Inst) : Bool := required.all fun k => o.any (·.1 == k)

/-- validity against the original object schema -/
def validOrig (s : ObjSchema) (o : Inst) : Bool :=
  requiredPresent s.required o && o.all fun (k, ok) =>
    match lookup k s.props with
    | some _ => ok
    | none => s.additional

/-- validity against the pruned one -/
def validPruned (v : Variant) (s : ObjSchema) (o : Inst) : Bool :=
  requiredPresent s.required o && o.all fun (k, ok) =>
    match lookup k s.props with
    | some p =>
      (match cleanOne v s.required p with
       | some .keep => ok
       | some .never => false
       | none => s.additional)
    | none => s.additional

end SV.Model.C01Prune
