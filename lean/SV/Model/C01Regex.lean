/-
  Model of `patterns.update_quantifier` (C01, part B) on the parse tree that `sre_parse.parse` returns.
  Python anchors (src/schemathesis/specs/openapi/patterns.py):
    update_quantifier, _handle_parsed_pattern, _handle_anchored_pattern, _distribute_length_constraints (both
    branches), _update_quantifier, _handle_repeat_quantifier, _handle_literal_or_in_quantifier, _build_size,
    _build_quantifier (through the parse of its output).
  The Python code edits the pattern *text*; the model edits the parse tree. The harness parses the text the real code
  returns and compares trees (groups erased, greedy/lazy/possessive not distinguished — they do not change the
  language). One-character atoms (LITERAL, NOT_LITERAL, IN, ANY, CATEGORY) are abstract: `α` is their identity.
  Core Lean only.
-/
namespace SV.Model.C01Regex

/-- `sre_constants.MAXREPEAT`: the "no upper bound" sentinel of repeat nodes -/
def MAXREPEAT : Nat := 4294967295

inductive Variant where
  | asFound | repaired
  deriving DecidableEq, Repr

/-- the two defect sites of this file: F36 (`max_length or MAXREPEAT`) and F35 (no `min <= max` test for a bare atom) -/
structure RxV where
  zeroMax : Variant := .asFound
  atom : Variant := .asFound
  deriving DecidableEq, Repr

/-- regular expressions below the top level -/
inductive Re (α : Type) where
  | eps
  | atom (a : α)
  | cat (r s : Re α)
  | alt (r s : Re α)
  | rep (r : Re α) (lo hi : Nat)
  | opaque (a : α)
  deriving Repr, DecidableEq

/-- positional assertions: `^`, `\A`, `$`, `\Z`, the word-boundary assertions `\b` / `\B`, anything else -/
inductive AtKind where
  | bos | bosA | eos | eosZ | wordB | nonWordB | other
  deriving DecidableEq, Repr

/-- top-level items of a parsed pattern, with the distinctions `_handle_parsed_pattern` makes -/
inductive Item (α : Type) where
  | at (k : AtKind)
  | lit (a : α)
  | cls (a : α)
  | rep (lo hi : Nat) (body : Re α)
  | other (r : Re α)
  deriving Repr, DecidableEq

inductive Res (α : Type) where
  /-- `rewrote`: the text was re-rendered (`(inner){a,b}`), which is what makes `new_pattern != pattern` in
      `update_pattern_in_schema` — also when the new bounds happen to equal the old ones -/
  | ok (items : List (Item α)) (rewrote : Bool)
  /-- `InternalError`: the rewritten text is not a valid regex -/
  | internalError
  deriving Repr, DecidableEq

def Item.isAt : Item α → Bool
  | .at _ => true
  | _ => false

def Item.isLit : Item α → Bool
  | .lit _ => true
  | _ => false

def Item.isRep : Item α → Bool
  | .rep _ _ _ => true
  | _ => false

/-- `_build_size` -/
def buildSize (rlo rhi : Nat) (lo hi : Option Nat) : Nat × Nat :=
  let a := match lo with | some l => max rlo l | none => rlo
  let b := match hi with | some h => if rhi == MAXREPEAT then h else min rhi h | none => rhi
  (a, b)

/-- `_update_quantifier(op, value, …)` for one item (and whether its text was re-rendered); `none` = InternalError -/
def updateItem (v : RxV) (x : Item α) (lo hi : Option Nat) : Option (Item α × Bool) :=
  match x with
  | .rep rlo rhi body =>
    if (buildSize rlo rhi lo hi).1 > (buildSize rlo rhi lo hi).2 then some (x, false)
    else some (.rep (buildSize rlo rhi lo hi).1 (buildSize rlo rhi lo hi).2 body, true)
  | .lit a | .cls a =>
    if hi == some 0 then some (x, false)
    else
      let a' := match lo with | none => 1 | some l => max l 1
      match hi with
      | none => some (.rep a' MAXREPEAT (.atom a), true)
      | some h =>
        if h < a' then (match v.atom with | .asFound => none | .repaired => some (x, false))
        else some (.rep a' h (.atom a), true)
  | _ => some (x, false)

/-- the inner loop of `find_valid_combination`: try `len, len+1, …` (`count` candidates), `k` = the search for the rest -/
def tryLens (k : Nat → Option (List Nat)) (rem : Nat) : Nat → Nat → Option (List Nat)
  | _, 0 => none
  | len, count + 1 =>
    if len > rem then none
    else match k (rem - len) with
      | some r => some (len :: r)
      | none => tryLens k rem (len + 1) count

/-- `find_valid_combination(pos, remaining)`: the first combination in lexicographic order -/
def findComb : List (Nat × Nat) → Nat → Option (List Nat)
  | [], rem => if rem == 0 then some [] else none
  | (mn, mx) :: rest, rem =>
    let top := if mx == MAXREPEAT then rem else mx
    tryLens (findComb rest) rem mn (top + 1 - mn)

def partMinOf (remMin mn mx : Nat) : Nat := if remMin > 0 then min mx (max mn remMin) else mn
def partMaxOf (remMax mx : Nat) : Nat := if remMax < MAXREPEAT then min mx remMax else mx
def nextMax (remMax partMax : Nat) : Nat := remMax - (if partMax != MAXREPEAT then partMax else 0)

/-- the range branch of `_distribute_length_constraints` -/
def distRange : List (Nat × Nat) → Nat → Nat → Option (List (Nat × Nat))
  | [], remMin, _ => if remMin > 0 then none else some []
  | (mn, mx) :: rest, remMin, remMax =>
    if partMinOf remMin mn mx > partMaxOf remMax mx then none
    else match distRange rest (remMin - partMinOf remMin mn mx) (nextMax remMax (partMaxOf remMax mx)) with
      | some r => some ((partMinOf remMin mn mx, partMaxOf remMax mx) :: r)
      | none => none

/-- `min_length == max_length` (both present at this point) -/
def isExact : Option Nat → Option Nat → Bool
  | some a, some b => a == b
  | _, _ => false

/-- `remaining_max = max_length or MAXREPEAT` (as found) / `MAXREPEAT if max_length is None else max_length` (repaired) -/
def remMaxOf (v : RxV) : Option Nat → Nat
  | none => MAXREPEAT
  | some h => if h == 0 && v.zeroMax == .asFound then MAXREPEAT else h

/-- `_distribute_length_constraints(bounds, min_length, max_length)`.
    Defect site F36: `remaining_max = max_length or MAXREPEAT` reads a maximum of 0 as "none". -/
def distribute (v : RxV) (bounds : List (Nat × Nat)) (lo hi : Option Nat) : Option (List (Nat × Nat)) :=
  if isExact lo hi then
    match findComb bounds (lo.getD 0) with
    | some d => some (d.map fun l => (l, l))
    | none => none
  else distRange bounds (lo.getD 0) (remMaxOf v hi)

/-- rebuild the middle part: literals stay, the i-th repeat gets the i-th distributed bounds -/
def rebuild : List (Item α) → List (Nat × Nat) → List (Item α)
  | [], _ => []
  | .rep _ _ body :: rest, (a, b) :: ds => .rep a b body :: rebuild rest ds
  | x :: rest, ds => x :: rebuild rest ds

def repBounds : List (Item α) → List (Nat × Nat)
  | [] => []
  | .rep lo hi _ :: rest => (lo, hi) :: repBounds rest
  | _ :: rest => repBounds rest

def countLits : List (Item α) → Nat
  | [] => 0
  | .lit _ :: rest => 1 + countLits rest
  | _ :: rest => countLits rest

/-- `length -= fixed_length; if length < 0: return pattern` — outer `none` = "return the pattern unchanged" -/
def subLen (x : Option Nat) (fixed : Nat) : Option (Option Nat) :=
  match x with
  | none => some none
  | some l => if l < fixed then none else some (some (l - fixed))

/-- `_handle_anchored_pattern` on `first :: middle ++ [last]` -/
def handleAnchored (v : RxV) (first : Item α) (middle : List (Item α)) (last : Item α) (lo hi : Option Nat) :
    List (Item α) × Bool :=
  match subLen lo (countLits middle), subLen hi (countLits middle) with
  | some lo', some hi' =>
    if (repBounds middle).isEmpty then (first :: middle ++ [last], false)
    else match distribute v (repBounds middle) lo' hi' with
      | none => (first :: middle ++ [last], false)
      | some d => (first :: rebuild middle d ++ [last], true)
  | _, _ => (first :: middle ++ [last], false)

/-- `_handle_parsed_pattern` -/
def handleParsed (v : RxV) (items : List (Item α)) (lo hi : Option Nat) : Res α :=
  match items with
  | [x] => match updateItem v x lo hi with | some (y, w) => .ok [y] w | none => .internalError
  | [a, x] =>
    if a.isAt then match updateItem v x lo hi with | some (y, w) => .ok [a, y] w | none => .internalError
    else if x.isAt then match updateItem v a lo hi with | some (y, w) => .ok [y, x] w | none => .internalError
    else .ok items false
  | [a, x, b] =>
    if a.isAt && b.isAt then match updateItem v x lo hi with | some (y, w) => .ok [a, y, b] w | none => .internalError
    else .ok items false
  | a :: x :: y :: z :: rest =>
    -- len > 3
    match (x :: y :: z :: rest).getLast? with
    | some last =>
      if a.isAt && last.isAt && (x :: y :: z :: rest).dropLast.all (fun i => i.isLit || i.isRep) then
        .ok (handleAnchored v a (x :: y :: z :: rest).dropLast last lo hi).1
            (handleAnchored v a (x :: y :: z :: rest).dropLast last lo hi).2
      else .ok items false
    | none => .ok items false
  | [] => .ok items false

/-- `update_quantifier(pattern, min_length, max_length)` on the parse tree of a valid, non-empty pattern -/
def updateQuantifier (v : RxV) (items : List (Item α)) (lo hi : Option Nat) : Res α :=
  if (lo == none || lo == some 0) && hi == none then .ok items false
  else handleParsed v items lo hi

/-! ## `patterns.is_anchored` and the length-keyword bookkeeping of `converter.update_pattern_in_schema` -/

/-- `(ANCHOR, AT_BEGINNING)` / `(ANCHOR, AT_BEGINNING_STRING)` -/
def Item.isBeginAt : Item α → Bool
  | .at .bos => true
  | .at .bosA => true
  | _ => false

/-- `(ANCHOR, AT_END)` / `(ANCHOR, AT_END_STRING)` -/
def Item.isEndAt : Item α → Bool
  | .at .eos => true
  | .at .eosZ => true
  | _ => false

/-- `is_anchored(pattern)`: at least two items, the first a begin-of-string anchor and the last an end-of-string
    anchor — `re.search` then has to match the whole string. Word boundaries and other assertions do not count. -/
def isAnchored (items : List (Item α)) : Bool :=
  match items with
  | a :: x :: rest => a.isBeginAt && (match (x :: rest).getLast? with | some l => l.isEndAt | none => false)
  | _ => false

/-- Python truthiness of a length keyword that is absent or a non-negative integer (`min_length or max_length`) -/
def lenTruthy : Option Nat → Bool
  | some (_ + 1) => true
  | _ => false

/-- what `update_pattern_in_schema` leaves in the schema: the pattern and whether `minLength`/`maxLength` stay -/
structure Merged (α : Type) where
  items : List (Item α)
  keepLengths : Bool
  deriving Repr, DecidableEq

inductive MergeRes (α : Type) where
  | ok (m : Merged α)
  | internalError
  deriving Repr, DecidableEq

/-- `update_pattern_in_schema(schema)` on the parse tree of a valid, non-empty pattern.
    `sameText`: the re-rendered text coincides with the original text (`^(ab){2}$` stays `^(ab){2}$`) — then
    `new_pattern != pattern` is false and the schema is left alone; the tree cannot see this, it is an input.
    Defect site F5 (`vLen`): as found the length keywords are popped whenever the pattern text changed; repaired they
    are popped only when `is_anchored(pattern)`. -/
def mergeLengths (v : RxV) (vLen : Variant) (sameText : Bool) (items : List (Item α)) (lo hi : Option Nat) : MergeRes α :=
  if lenTruthy lo || lenTruthy hi then
    match updateQuantifier v items lo hi with
    | .internalError => .internalError
    | .ok out rewrote =>
      if rewrote && !sameText then .ok ⟨out, vLen == .repaired && !isAnchored items⟩
      else .ok ⟨items, true⟩
  else .ok ⟨items, true⟩

end SV.Model.C01Regex
