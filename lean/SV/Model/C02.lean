/-
  Model of negative-mode data generation and labelling (C02).
  Python anchors (src/schemathesis):
    specs/openapi/_hypothesis.py       : openapi_cases (labelling part), generate_parameter, can_negate_path_parameters,
                                         can_negate_headers, ValueContainer.is_generated, any_negated_values,
                                         _get_body_strategy (the `| just(NOT_SET)` alternative, as a draw relation)
    specs/openapi/negative/__init__.py : negative_schema (final filter), CacheKey / get_validator (lru_cache)
    specs/openapi/negative/mutations.py: remove_required_property, change_type (+ _get_type_candidates,
                                         prevent_unsatisfiable_schema, drop_not_type_specific_keywords),
                                         negate_constraints, change_properties / change_items (wrapper logic relative
                                         to the results of the nested mutations), the tail of MutationContext.mutate
    specs/openapi/utils.py             : get_type, is_header_location
  Third-party code is a parameter: `can_negate` (= hypothesis_jsonschema.canonicalish(s) != {}) enters as a Boolean
  oracle attached to each schema, Hypothesis draws enter as an explicit choice record.
  Schemas are raw `SV.Json` objects (association lists in Python dict order).  Core Lean only.
-/
import SV.Json

namespace SV.Model.C02
open SV

inductive Variant where
  | asFound | repaired
  deriving DecidableEq, Repr

/-- `GenerationMode` -/
inductive Mode where
  | positive | negative
  deriving DecidableEq, Repr

/-- `ComponentKind` / the `location` strings of `openapi_cases` -/
inductive Loc where
  | query | path | header | cookie | body
  deriving DecidableEq, Repr

def isHeaderLoc : Loc → Bool
  | .header | .cookie => true
  | _ => false

/-! ## the operation as `openapi_cases` sees it -/

/-- one property of `parameters_to_json_schema(...)["properties"]` with the `can_negate` oracle's answer -/
structure Param where
  name : String
  schema : Json
  canNeg : Bool
  deriving Repr

/-- one `operation.body.items` entry -/
structure BodyItem where
  canNeg : Bool        -- can_negate(item.as_json_schema(operation))
  required : Bool      -- parameter.is_required
  deriving Repr, DecidableEq

structure Op where
  path : List Param
  header : List Param
  cookie : List Param
  query : List Param
  body : List BodyItem
  deriving Repr

def Op.params (op : Op) : Loc → List Param
  | .path => op.path
  | .header => op.header
  | .cookie => op.cookie
  | .query => op.query
  | .body => []

/-- `can_negate_path_parameters` -/
def canNegatePath (ps : List Param) : Bool := ps.isEmpty || ps.any (·.canNeg)

/-- `header != {"type": "string"}` -/
def isStringOnly : Json → Bool
  | .obj [("type", .str "string")] => true
  | _ => false

/-- `can_negate_headers` -/
def canNegateHeaders (ps : List Param) : Bool := ps.isEmpty || ps.any (fun p => !(isStringOnly p.schema))

/-- the generator `generate_parameter` ends up with for a location (fallback to positive when nothing can be negated) -/
def generatorFor (op : Op) (mode : Mode) (loc : Loc) : Mode :=
  if mode == .negative &&
      ((loc == .path && !(canNegatePath op.path)) ||
       (isHeaderLoc loc && !(canNegateHeaders (op.params loc)))) then .positive
  else mode

/-- body candidate selection of `openapi_cases`: (candidates, body_generator) -/
def bodyCandidates (mode : Mode) (items : List BodyItem) : List BodyItem × Mode :=
  if mode == .negative then
    let c := items.filter (·.canNeg)
    if c.isEmpty then (items, .positive) else (c, .negative)
  else (items, mode)

/-- `ValueContainer`; `value = none` stands for Python `None` (parameters) or `NOT_SET` (body) -/
structure Container where
  loc : Loc
  value : Option Json
  generator : Option Mode
  deriving Repr

/-- `ValueContainer.is_generated` -/
def Container.isGenerated (c : Container) : Bool :=
  c.generator.isSome && (c.loc == .body || c.value.isSome)

/-- `any_negated_values` -/
def anyNegated (cs : List Container) : Bool :=
  cs.any fun c => c.isGenerated && c.generator == some .negative

/-- what Hypothesis drew: one value per parameter location (`none` = the `st.none()` strategy / Python `None`),
    the index of the body candidate and the body value (`none` = `NOT_SET`) -/
structure Draws where
  path : Option Json
  header : Option Json
  cookie : Option Json
  query : Option Json
  bodyIdx : Nat
  body : Option Json
  deriving Repr

def Draws.param (d : Draws) : Loc → Option Json
  | .path => d.path
  | .header => d.header
  | .cookie => d.cookie
  | .query => d.query
  | .body => none

/-- `generate_parameter` with `explicit = NOT_SET` (so `value == explicit` is never true) -/
def generateParameter (op : Op) (mode : Mode) (d : Draws) (loc : Loc) : Container :=
  ⟨loc, d.param loc, some (generatorFor op mode loc)⟩

/-- the body container of `openapi_cases` with `body = NOT_SET` -/
def bodyContainer (op : Op) (mode : Mode) (d : Draws) : Container :=
  if op.body.isEmpty then ⟨.body, none, none⟩
  else ⟨.body, d.body, some (bodyCandidates mode op.body).2⟩

structure Case where
  mode : Mode                              -- meta.generation.mode
  components : List (Loc × Mode)           -- meta.components
  values : List (Loc × Option Json)        -- the five case attributes
  deriving Repr

inductive Outcome where
  | skip                                   -- raise SkipTest("Impossible to generate negative test cases")
  | reject                                 -- hypothesis.reject()
  | case (c : Case)
  deriving Repr

def containers (op : Op) (mode : Mode) (d : Draws) : List Container :=
  [generateParameter op mode d .query, generateParameter op mode d .path, generateParameter op mode d .header,
   generateParameter op mode d .cookie, bodyContainer op mode d]

/-- which containers receive a `ComponentInfo`.
    asFound: `if value.generator is not None`; repaired: `if value.is_generated`. -/
def labelled (v : Variant) (c : Container) : Bool :=
  match v with
  | .asFound => c.generator.isSome
  | .repaired => c.isGenerated

def componentsOf (v : Variant) : List Container → List (Loc × Mode)
  | [] => []
  | c :: cs =>
    match c.generator with
    | some g => if labelled v c then (c.loc, g) :: componentsOf v cs else componentsOf v cs
    | none => componentsOf v cs

/-- `openapi_cases` (labelling part). `onlyNegative` = `generation_config.modes == [GenerationMode.NEGATIVE]`. -/
def openapiCases (v : Variant) (op : Op) (onlyNegative : Bool) (mode : Mode) (d : Draws) : Outcome :=
  let cs := containers op mode d
  if mode == .negative && !(anyNegated cs) then
    if onlyNegative then .skip else .reject
  else
    .case ⟨mode, componentsOf v cs, cs.map fun c => (c.loc, c.value)⟩

/-! ## `negative_schema`: the final filter, and the validator cache -/

/-- `negative_schema(...)`: whatever `from_schema(mutated)` yields (`cands`), filtered.
    `valid` is `validator.is_valid`, `nonEmpty` is `is_non_empty_query`. -/
def negativeSchema (valid nonEmpty : Json → Bool) (isQuery : Bool) (cands : List Json) : List Json :=
  cands.filter fun x => (!isQuery || nonEmpty x) && !(valid x)

/-- `CacheKey`: hashed on (operation_name, location) only, compared (dataclass `__eq__`) on all three fields -/
structure CacheKey where
  operation : String
  location : String
  schema : Json

def CacheKey.hash (k : CacheKey) : String × String := (k.operation, k.location)

/-- dataclass equality; asFound compares the schema too -/
def CacheKey.eq (a b : CacheKey) : Bool :=
  a.operation == b.operation && a.location == b.location && a.schema == b.schema

/-- an `lru_cache` entry: the key and the schema the stored validator was built from -/
abbrev Cache := List (CacheKey × Json)

def cacheFind (k : CacheKey) : Cache → Option Json
  | [] => none
  | (k', s) :: rest => if k'.hash == k.hash && CacheKey.eq k' k then some s else cacheFind k rest

/-- `get_validator(cache_key)`: the schema of the validator handed out, and the new cache -/
def getValidator (cache : Cache) (k : CacheKey) : Json × Cache :=
  match cacheFind k cache with
  | some s => (s, cache)
  | none => (k.schema, (k, k.schema) :: cache)

/-- run a sequence of `get_validator` calls -/
def runCache : Cache → List CacheKey → Cache
  | c, [] => c
  | c, k :: ks => runCache (getValidator c k).2 ks

/-! ## Python dict operations on schema objects -/

abbrev Dict := List (String × Json)

def dhas (k : String) (d : Dict) : Bool := (Json.lookup k d).isSome

/-- `d[k] = v` -/
def dset (k : String) (v : Json) : Dict → Dict
  | [] => [(k, v)]
  | (k', x) :: rest => if k == k' then (k', v) :: rest else (k', x) :: dset k v rest

/-- `d.pop(k, None)` / `del d[k]` -/
def ddel (k : String) (d : Dict) : Dict := d.filter fun p => !(p.1 == k)

/-- `d.setdefault(k, v)` (the dict afterwards) -/
def dsetDefault (k : String) (v : Json) (d : Dict) : Dict := if dhas k d then d else dset k v d

/-- Python truthiness of a JSON value -/
def truthy : Json → Bool
  | .null => false
  | .bool b => b
  | .num m _ => m != 0
  | .str s => s != ""
  | .arr xs => !xs.isEmpty
  | .obj kvs => !kvs.isEmpty

def allTypes : List String := ["null", "boolean", "integer", "number", "string", "array", "object"]

/-- `get_type` (well-formed `type` values only: a name or a list of names) -/
def getType (d : Dict) : List String :=
  match Json.lookup "type" d with
  | some (.str t) => [t]
  | some (.arr ts) => ts.filterMap Json.str?
  | some _ => []
  | none => allTypes

inductive MResult where
  | success | failure
  | keyError            -- the Python code raises KeyError (negate_constraints: dependency keyword missing)
  deriving DecidableEq, Repr

/-- `MutationResult.__or__` -/
def MResult.or (a b : MResult) : MResult :=
  match a with
  | .success => .success
  | _ => b

structure Ctx where
  loc : Loc
  form : Bool          -- media_type == "application/x-www-form-urlencoded"
  deriving Repr

/-! ### remove_required_property -/

def eraseStr (name : String) : List Json → List Json
  | [] => []
  | .str s :: rest => if s == name then rest else .str s :: eraseStr name rest
  | x :: rest => x :: eraseStr name rest

def hasStr (name : String) (xs : List Json) : Bool := xs.any fun x => match x with | .str s => s == name | _ => false

/-- `remove_required_property`; `name` is the drawn `property_name` (outside `required`: not a possible draw, FAILURE) -/
def removeRequired (d : Dict) (name : String) : MResult × Dict :=
  if !((getType d).contains "object") then (.failure, d) else
  match Json.lookup "required" d with
  | some (.arr req) =>
    if req.isEmpty || !(hasStr name req) then (.failure, d) else
    let req' := eraseStr name req
    let d1 := if req'.isEmpty then ddel "required" d else dset "required" (.arr req') d
    let d2 := match Json.lookup "properties" d1 with
      | some (.obj ps) =>
        let ps' := ddel name ps
        if ps'.isEmpty then ddel "properties" d1 else dset "properties" (.obj ps') d1
      | _ => d1
    (.success, dset "type" (.str "object") d2)
  | _ => (.failure, d)

/-! ### change_type -/

def anyTypeKeys : List String :=
  ["$ref", "allOf", "anyOf", "const", "else", "enum", "if", "not", "oneOf", "then", "type"]

def typeSpecificKeys : String → List String
  | "number" | "integer" => ["multipleOf", "maximum", "exclusiveMaximum", "minimum", "exclusiveMinimum"]
  | "string" => ["maxLength", "minLength", "pattern", "format", "contentEncoding", "contentMediaType"]
  | "array" => ["items", "additionalItems", "maxItems", "minItems", "uniqueItems", "contains"]
  | "object" => ["maxProperties", "minProperties", "required", "properties", "patternProperties",
                 "additionalProperties", "dependencies", "propertyNames"]
  | _ => []

/-- `drop_not_type_specific_keywords` -/
def dropNotTypeSpecific (t : String) (d : Dict) : Dict :=
  d.filter fun p => (typeSpecificKeys t).contains p.1 || anyTypeKeys.contains p.1

/-- `prevent_unsatisfiable_schema` -/
def preventUnsat (t : String) (d : Dict) : Dict :=
  let d1 := dropNotTypeSpecific t d
  match Json.lookup "not" d1 with
  | some (.obj n) =>
    let n' := dropNotTypeSpecific t n
    if n'.isEmpty then ddel "not" d1 else dset "not" (.obj n') d1
  | _ => d1

/-- `_get_type_candidates` (as a list in a fixed order; Python uses a set) -/
def typeCandidates (ctx : Ctx) (d : Dict) : List String :=
  let types := getType d
  let base := if ctx.loc == .path then ["string", "integer", "number", "boolean", "null"]
              else ["string", "integer", "number", "object", "array", "boolean", "null"]
  let c := base.filter fun t => !(types.contains t)
  if types.contains "integer" then c.filter (· != "number") else c

/-- `change_type`; `choice` is the drawn `new_type` (ignored when there is a single candidate) -/
def changeType (ctx : Ctx) (d : Dict) (choice : String) : MResult × Dict :=
  if !(dhas "type" d) then (.failure, d) else
  if ctx.form then (.failure, d) else
  if (getType d).contains "string" && (isHeaderLoc ctx.loc || ctx.loc == .path || ctx.loc == .query) then (.failure, d) else
  match typeCandidates ctx d with
  | [] => (.failure, d)
  | [t] => (.success, preventUnsat t (dset "type" (.str t) d))
  | cands =>
    if cands.contains choice then (.success, preventUnsat choice (dset "type" (.str choice) d))
    else (.failure, d)

/-! ### negate_constraints -/

def isOne : Json → Bool
  | .num 1 0 => true
  | _ => false

def isEmptyArr : Json → Bool
  | .arr [] => true
  | _ => false

/-- `is_mutation_candidate` -/
def isMutationCandidate (ctx : Ctx) (k : String) (v : Json) : Bool :=
  if k == "required" then !(isEmptyArr v)
  else if k == "example" || k == "examples" then false
  else if ctx.loc == .path && k == "minLength" && isOne v then false
  else !(k == "type" || k == "properties" || k == "items" || k == "minItems" ||
         (k == "additionalProperties" && isHeaderLoc ctx.loc))

/-- `DEPENDENCIES` -/
def dependency : String → Option String
  | "exclusiveMaximum" => some "maximum"
  | "exclusiveMinimum" => some "minimum"
  | _ => none

/-- the keys that end up under `not`: `key in candidates or enabled_keywords.is_enabled(key)` -/
def selectedKey (candidate : String) (enabled : List String) (k : String) : Bool :=
  k == candidate || dependency candidate == some k || enabled.contains k

/-- the `for key, value in copied.items()` loop, building the `not` dict; `none` = KeyError.
    asFound: `negated[dependency] = copied[dependency]` unconditionally (KeyError when the dependency keyword is
    missing); repaired: only `if dependency in copied`. -/
def negLoop (var : Variant) (ctx : Ctx) (copied : Dict) (candidate : String) (enabled : List String) :
    Dict → Dict → Option Dict
  | [], neg => some neg
  | (k, v) :: rest, neg =>
    if isMutationCandidate ctx k v && selectedKey candidate enabled k then
      let neg1 := dset k v neg
      match dependency k with
      | some dep =>
        if dhas dep neg1 then negLoop var ctx copied candidate enabled rest neg1
        else match Json.lookup dep copied with
          | some dv => negLoop var ctx copied candidate enabled rest (dset dep dv neg1)
          | none =>
            match var with
            | .asFound => none
            | .repaired => negLoop var ctx copied candidate enabled rest neg1
      | none => negLoop var ctx copied candidate enabled rest neg1
    else negLoop var ctx copied candidate enabled rest neg

/-- `negate_constraints`. `canNeg` = `can_negate(schema)`; `candidate` = the drawn keyword (must be a mutation
    candidate when there is one), `enabled` = the keywords switched on by the shared feature flags. -/
def negateConstraints (var : Variant) (ctx : Ctx) (canNeg : Bool) (d : Dict) (candidate : String)
    (enabled : List String) : MResult × Dict :=
  if !canNeg then (.failure, d) else
  let kept := d.filter fun p => !(isMutationCandidate ctx p.1 p.2)
  let cands := d.filter fun p => isMutationCandidate ctx p.1 p.2
  if cands.isEmpty then (.failure, kept) else
  if !(cands.any fun p => p.1 == candidate) then (.failure, d) else      -- not a possible draw
  match negLoop var ctx d candidate enabled d [] with
  | none => (.keyError, d)
  | some neg => if neg.isEmpty then (.failure, kept) else (.success, kept ++ [("not", .obj neg)])

/-! ### change_properties / change_items: the wrapper logic, relative to the nested mutations' results -/

/-- `required = schema.setdefault("required", []); if name not in required: required.append(name)` -/
def addRequired (name : String) (d : Dict) : Dict :=
  match Json.lookup "required" d with
  | some (.arr req) => if hasStr name req then d else dset "required" (.arr (req ++ [.str name])) d
  | _ => dset "required" (.arr [.str name]) d

/-- `change_properties` after the nested mutations ran: `props'` are the property schemas as the nested mutations
    left them (same names), `first` the name of the first property of the drawn order on which
    `apply_until_success` returned SUCCESS. -/
def changeProperties (d : Dict) (props' : Dict) (first : Option String) : MResult × Dict :=
  if !((getType d).contains "object") then (.failure, d) else
  match Json.lookup "properties" d with
  | some (.obj ps) =>
    if ps.isEmpty then (.failure, d) else
    match first with
    | none => (.failure, d)
    | some name =>
      (.success, dsetDefault "type" (.str "object") (addRequired name (dset "properties" (.obj props') d)))
  | _ => (.failure, d)

def natOf : Json → Nat
  | .num m 0 => m.toNat
  | _ => 0

/-- `change_items` with an `items` object (`_change_items_object`): `items'` after the nested mutations,
    `result` their combined result -/
def changeItemsObject (d : Dict) (items' : Json) (result : MResult) : MResult × Dict :=
  if !((getType d).contains "array") then (.failure, d) else
  match Json.lookup "items" d with
  | some (.obj is) =>
    if is.isEmpty then (.failure, d) else
    if result != .success then (.failure, d) else
    let d1 := dset "items" items' d
    let m := match Json.lookup "minItems" d1 with | some x => natOf x | none => 0
    (.success, dset "minItems" (.num (Int.ofNat (max m 1)) 0) d1)
  | _ => (.failure, d)

/-! ### the tail of `MutationContext.mutate` -/

def headerValueSchema : Json := .obj [("type", .str "string"), ("format", .str "_header_value")]
def headerNameSchema : Json := .obj [("type", .str "string"), ("format", .str "_header_name")]

/-- `new_schema.update(non_keywords)` -/
def dupdate (d : Dict) : Dict → Dict
  | [] => d
  | (k, v) :: rest => dupdate (dset k v d) rest

def headerSub : Json → Json
  | .obj sub =>
    let s1 := dset "type" (.str "string") sub
    .obj (if s1.length == 1 then dset "format" (.str "_header_value") s1 else s1)
  | x => x

def notHas (k : String) (d : Dict) : Bool :=
  match Json.lookup "not" d with
  | some (.obj n) => dhas k n
  | _ => false

def getTruthy (k : String) (d : Dict) : Bool :=
  match Json.lookup k d with
  | some v => truthy v
  | none => false

/-- the schema post-processing at the end of `mutate` (after `reject()` did not fire) -/
def tailSchema (ctx : Ctx) (d nonKeywords : Dict) (extraHeaders : Bool) : Dict :=
  let d1 := dupdate d nonKeywords
  let d2 :=
    if isHeaderLoc ctx.loc then
      let a := dset "propertyNames" headerNameSchema d1
      let b := match Json.lookup "properties" a with
        | some (.obj ps) => dset "properties" (.obj (ps.map fun p => (p.1, headerSub p.2))) a
        | _ => a
      if extraHeaders then dset "additionalProperties" headerValueSchema b else b
    else d1
  let d3 := if (getType d2).contains "array" && getTruthy "items" d2 && !(notHas "minItems" d2)
            then dsetDefault "minItems" (.num 1 0) d2 else d2
  if (getType d3).contains "object" && getTruthy "properties" d3 && !(notHas "minProperties" d3)
  then dsetDefault "minProperties" (.num 1 0) d3 else d3

/-- everything in `mutate` after the mutations were applied: `results` are the results of the applied mutations in
    order (the always-applied one first), `extraHeaders` the `draw(st.booleans())`. `none` = `reject()`. -/
def mutateTail (ctx : Ctx) (results : List MResult) (d nonKeywords : Dict) (extraHeaders : Bool) : Option Dict :=
  if results.foldl MResult.or .failure != .success then none
  else some (tailSchema ctx d nonKeywords extraHeaders)

end SV.Model.C02
