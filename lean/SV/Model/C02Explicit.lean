/-
  Model of negative-mode generation when the caller supplies explicit values (C02, second part).
  Python anchors (src/schemathesis/specs/openapi/_hypothesis.py):
    get_parameters_strategy   : the exclusion loop, the "nothing left to negate -> st.none()" test, the strategy cache key
    get_parameters_value      : `not value` -> nothing excluded; `new is None` -> the explicit dict itself; merge otherwise
    generate_parameter        : fallback to the positive factory, `value == explicit` -> `used_generator = None`
    openapi_cases             : explicit `body` -> `ValueContainer(body, "body", None)`; the rest as in `SV.Model.C02`
    _get_body_strategy        : a media type with a user-registered strategy (`MEDIA_TYPES`) bypasses the factory; the
                                `| just(NOT_SET)` alternative of optional bodies; `_BODY_STRATEGIES_CACHE` (keyed by factory)
  `NetworkConfig(headers=…)`, `--header`, overrides and `as_strategy(headers=…)` all arrive here as the `headers=` (…)
  keyword arguments of `openapi_cases`.
  Two defect sites carry a `Variant`:
    * `exclusion` — asFound: `can_negate_path_parameters` / `can_negate_headers` look at every declared parameter,
      also the ones the caller supplied; repaired: only at the parameters left to generate;
    * `unchanged` — asFound: the generator is dropped when `value == explicit` (also when a value *was* drawn and
      merely added nothing, e.g. the negative draw `{}` that omits a required header); repaired: only when nothing
      was drawn (`new is None`, the `value is explicit` identity).
  Core Lean only.
-/
import SV.Model.C02

namespace SV.Model.C02
open SV

/-- the `path_parameters=`, `headers=`, `cookies=`, `query=`, `body=` arguments; `none` = `NOT_SET` -/
structure Explicits where
  path : Option Dict
  header : Option Dict
  cookie : Option Dict
  query : Option Dict
  body : Option Json
  deriving Repr

def Explicits.none : Explicits := ⟨.none, .none, .none, .none, .none⟩

def Explicits.param (e : Explicits) : Loc → Option Dict
  | .path => e.path
  | .header => e.header
  | .cookie => e.cookie
  | .query => e.query
  | .body => .none

/-- `schema["required"]` of `get_schema_for_location`, per parameter location -/
structure Reqs where
  path : List String
  header : List String
  cookie : List String
  query : List String
  deriving Repr

def Reqs.at (r : Reqs) : Loc → List String
  | .path => r.path
  | .header => r.header
  | .cookie => r.cookie
  | .query => r.query
  | .body => []

structure Variants where
  labels : Variant       -- the components map (F10), as in `SV.Model.C02`
  exclusion : Variant
  unchanged : Variant
  deriving Repr, DecidableEq

/-- `get_parameters_value`: `exclude=value.keys()` unless `isinstance(value, NotSet) or not value` -/
def excludeNames : Option Dict → List String
  | some e => e.map (·.1)
  | .none => []

/-- `schema["properties"].pop(name, None)` for every excluded name -/
def remaining (ps : List Param) (exclude : List String) : List Param :=
  ps.filter fun p => !(exclude.contains p.name)

/-- what `get_parameters_strategy` returns -/
inductive Strat where
  | none                                                         -- `st.none()`
  | factory (m : Mode) (props : List Param) (required : List String)   -- `strategy_factory(schema, …)` (+ maps/filters)
  deriving Repr

/-- `get_parameters_strategy(operation, strategy_factory, location, config, exclude)` -/
def parametersStrategy (ps : List Param) (req : List String) (factory : Mode) (exclude : List String) : Strat :=
  if ps.isEmpty then .none                         -- "No parameters defined for this location"
  else
    let rem := remaining ps exclude
    if rem.isEmpty && factory == .negative then .none        -- "Nothing to negate - all properties were excluded"
    else .factory factory rem (req.filter fun n => !(exclude.contains n))

/-- the nested cache key of `_PARAMETER_STRATEGIES_CACHE[operation]`: `(strategy_factory, location, tuple(sorted(exclude)))` -/
structure StratKey where
  factory : Mode
  loc : Loc
  exclude : List String
  deriving DecidableEq, Repr

def stratKey (factory : Mode) (loc : Loc) (exclude : List String) : StratKey :=
  ⟨factory, loc, exclude.mergeSort (fun a b => decide (a ≤ b))⟩

/-- the parameters `can_negate_path_parameters` / `can_negate_headers` judge -/
def judged (v : Variant) (ps : List Param) (exclude : List String) : List Param :=
  match v with
  | .asFound => ps
  | .repaired => remaining ps exclude

/-- the factory `generate_parameter` picks for a location -/
def generatorForX (vx : Variant) (op : Op) (ex : Explicits) (mode : Mode) (loc : Loc) : Mode :=
  let ps := judged vx (op.params loc) (excludeNames (ex.param loc))
  if mode == .negative &&
      ((loc == .path && !(canNegatePath ps)) || (isHeaderLoc loc && !(canNegateHeaders ps))) then .positive
  else mode

/-- the strategy `get_parameters_value` draws from -/
def strategyFor (vx : Variant) (op : Op) (rq : Reqs) (ex : Explicits) (mode : Mode) (loc : Loc) : Strat :=
  parametersStrategy (op.params loc) (rq.at loc) (generatorForX vx op ex mode loc) (excludeNames (ex.param loc))

/-- the value `get_parameters_value` returns, given what was drawn (`none` = Python `None`) -/
def mergeValue (ex : Option Dict) (draw : Option Json) : Option Json :=
  match ex with
  | .none => draw
  | some [] => draw
  | some e =>
    match draw with
    | .none => some (.obj e)                          -- `return value`
    | some (.obj new) => some (.obj (dupdate e new))  -- `copied = deepclone(value); copied.update(new)`
    | some x => some x                                -- not a possible draw: the location strategies yield dicts

/-- `value == explicit` -/
def sameAsExplicit (value : Option Json) (ex : Option Dict) : Bool :=
  match ex, value with
  | some e, some v => v == .obj e
  | _, _ => false

/-- does `generate_parameter` drop the generator? -/
def generatorDropped (vu : Variant) (ex : Option Dict) (draw value : Option Json) : Bool :=
  match vu with
  | .asFound => sameAsExplicit value ex
  | .repaired =>
    match ex with
    | some (_ :: _) => draw.isNone
    | _ => false

/-- `generate_parameter` -/
def generateParameterX (vs : Variants) (op : Op) (ex : Explicits) (mode : Mode) (d : Draws) (loc : Loc) : Container :=
  let value := mergeValue (ex.param loc) (d.param loc)
  ⟨loc, value,
   if generatorDropped vs.unchanged (ex.param loc) (d.param loc) value then .none
   else some (generatorForX vs.exclusion op ex mode loc)⟩

/-- the body container: an explicit body is taken as is and is nobody's generated value -/
def bodyContainerX (op : Op) (ex : Explicits) (mode : Mode) (d : Draws) : Container :=
  match ex.body with
  | some b => ⟨.body, some b, .none⟩
  | .none => bodyContainer op mode d

def containersX (vs : Variants) (op : Op) (ex : Explicits) (mode : Mode) (d : Draws) : List Container :=
  [generateParameterX vs op ex mode d .query, generateParameterX vs op ex mode d .path,
   generateParameterX vs op ex mode d .header, generateParameterX vs op ex mode d .cookie,
   bodyContainerX op ex mode d]

/-- `openapi_cases` with explicit arguments -/
def openapiCasesX (vs : Variants) (op : Op) (ex : Explicits) (onlyNegative : Bool) (mode : Mode) (d : Draws) : Outcome :=
  let cs := containersX vs op ex mode d
  if mode == .negative && !(anyNegated cs) then
    if onlyNegative then .skip else .reject
  else
    .case ⟨mode, componentsOf vs.labels cs, cs.map fun c => (c.loc, c.value)⟩

/-! ## the body strategy, with user-registered media-type strategies (`schemathesis.openapi.media_type(...)`) -/

/-- one `operation.body.items` entry together with `item.media_type in MEDIA_TYPES` -/
structure BodyItemM where
  item : BodyItem
  custom : Bool
  deriving Repr, DecidableEq

/-- what `_get_body_strategy` returns -/
inductive BodyStrat where
  | custom                                   -- `MEDIA_TYPES[parameter.media_type]`: the user's own (positive) data
  | factory (m : Mode) (orAbsent : Bool)     -- `strategy_factory(schema, …)`, `| st.just(NOT_SET)` when `orAbsent`
  deriving Repr, DecidableEq

/-- `_get_body_strategy(parameter, strategy_factory, …)` -/
def bodyStrategyM (it : BodyItemM) (factory : Mode) : BodyStrat :=
  if it.custom then .custom
  else .factory factory (!it.item.required && factory != .negative)

/-- can the item be negated, as the candidate selection of `openapi_cases` sees it.
    asFound: `can_negate(item.as_json_schema(operation))`; repaired: … and no registered strategy takes its place. -/
def negatableItem (v : Variant) (it : BodyItemM) : Bool :=
  it.item.canNeg && (v == .asFound || !it.custom)

/-- body candidate selection of `openapi_cases`: (candidates, body_generator, strategy_factory) -/
def bodyCandidatesM (v : Variant) (mode : Mode) (items : List BodyItemM) : List BodyItemM × Mode :=
  if mode == .negative then
    let c := items.filter (negatableItem v)
    if c.isEmpty then (items, .positive) else (c, .negative)
  else (items, mode)

/-- the item as the label model `bodyCandidates` sees it -/
def BodyItemM.effective (v : Variant) (it : BodyItemM) : BodyItem := ⟨negatableItem v it, it.item.required⟩

end SV.Model.C02
