/-
  Model of the coverage-phase boundary-value generator (C03), part 1: values.
  Python anchors (src/schemathesis/generation/coverage.py):
    GeneratedValue, CoverageContext (generation_modes, location, path, with_positive/with_negative/at),
    _to_hashable_key + the `seen` sets, closest_multiple_greater_than, _positive_number,
    the numeric arms of the negative loop of cover_schema_iter (maximum / minimum / exclusiveMaximum /
    exclusiveMinimum with its operator-precedence quirk / multipleOf), _negative_type, _negative_enum (+ const),
    _positive_string, the minLength / maxLength / pattern / format arms, _positive_array, _positive_object,
    select_combinations, _get_template_schema, _get_properties, _negative_properties, _negative_items,
    _negative_required, _negative_unique_items, the additionalProperties arm, allOf / anyOf / oneOf descent,
    _cover_positive_for_type and cover_schema_iter themselves.

  The two random sources (`ctx.generate_from_schema`, `ctx.generate_from`) are an *oracle*: the list of answers the
  real run obtained, in call order (`Ans.val v` or `Ans.raise` for an exception that a `_ignore_unfixable` /
  `suppress` block swallows).  The model consumes the answers in the same order and records the request it believes
  was made next to each answer (`Call`), so that the harness can compare requests as well as results.

  Defect sites (`Variant` flags, collected in `Vs`; `.asFound` = the snapshot, `.repaired` = the repair):
    zero / excl / cross        `_positive_number`: `not maximum` (F6), exclusive bounds (F7), "Minimum value" / "Maximum
                               value" emitted without looking at the opposite bound (F6c) — all three repaired in /repo
                               (dcc81d56, a84b690b, 2d700c38)
    strCross                   `_positive_string`: the same crossing guard for lengths (F34, proposed_fixes/C03-F34.diff)
    addProps                   the `additionalProperties` arm: `not value` vs `value is False` (F35)
    tmplReq                    `_get_template_schema`: `required` = declared properties [+ undeclared required names] (F36)
    minProps                   `_positive_object`: combinations smaller than `minProperties` (F37)
    falseSchema                `cover_schema_iter(false)` covered like `true` vs nothing (F40)
  The harness decides by witness on the real code which variant of each site the tree carries.

  Schemas are raw JSON objects (`SV.Json`, key order preserved), exactly as the Python code sees them.
  Numbers: the model covers integer-valued keywords (`num m 0`) and the draft-4 booleans; anything else that Python
  would do arithmetic on makes the model answer `Status.unsupported` (the harness then only replays the property).
  Core Lean only.
-/
import SV.Json

namespace SV.Model.C03
open SV

inductive Variant where
  | asFound | repaired
  deriving DecidableEq, Repr

inductive Mode where
  | positive | negative
  deriving DecidableEq, Repr

/-- description classes (the Python f-strings, structured) -/
inductive Desc where
  | enumValue | constValue | nullValue | validBoolean
  | exampleValue | defaultValue
  | validNumber | minimumValue | nearBoundaryNumber | maximumValue
  | validString | minLengthString | nearBoundaryString | maxLengthString
  | validArray | nearBoundaryItems | maxItemsArray
  | validObject | objectRequiredAnd (name : String) | objectSubset | objectOnlyRequired
  | objectValid (name : String) (inner : Desc)
  -- negative
  | invalidEnum | incorrectType | greaterThanMaximum | smallerThanMinimum | nonMultiple
  | smallerThanMinLength | largerThanMaxLength | notMatchingPattern | notMatchingFormat
  | nonUnique | missingRequired (name : String) | unexpectedProperties
  | objectInvalid (name : String) (inner : Desc) | arrayInvalidItems (inner : Desc)
  | other (token : String)      -- a description the model does not interpret (wire only)
  deriving DecidableEq, Repr

/-- class token used on the wire (the harness maps the Python description strings to the same tokens) -/
def Desc.render : Desc → String
  | .enumValue => "enum-value" | .constValue => "const-value" | .nullValue => "null-value"
  | .validBoolean => "valid-boolean" | .exampleValue => "example-value" | .defaultValue => "default-value"
  | .validNumber => "valid-number" | .minimumValue => "minimum-value" | .nearBoundaryNumber => "near-boundary-number"
  | .maximumValue => "maximum-value" | .validString => "valid-string" | .minLengthString => "min-length-string"
  | .nearBoundaryString => "near-boundary-string" | .maxLengthString => "max-length-string"
  | .validArray => "valid-array" | .nearBoundaryItems => "near-boundary-items" | .maxItemsArray => "max-items-array"
  | .validObject => "valid-object" | .objectRequiredAnd n => "object-required-and:" ++ n
  | .objectSubset => "object-subset" | .objectOnlyRequired => "object-only-required"
  | .objectValid n i => "object-valid:" ++ n ++ ":" ++ i.render
  | .invalidEnum => "invalid-enum" | .incorrectType => "incorrect-type"
  | .greaterThanMaximum => "greater-than-maximum" | .smallerThanMinimum => "smaller-than-minimum"
  | .nonMultiple => "non-multiple" | .smallerThanMinLength => "smaller-than-min-length"
  | .largerThanMaxLength => "larger-than-max-length" | .notMatchingPattern => "not-matching-pattern"
  | .notMatchingFormat => "not-matching-format" | .nonUnique => "non-unique"
  | .missingRequired n => "missing-required:" ++ n | .unexpectedProperties => "unexpected-properties"
  | .objectInvalid n i => "object-invalid:" ++ n ++ ":" ++ i.render
  | .arrayInvalidItems i => "array-invalid-items:" ++ i.render
  | .other t => t

structure GV where
  value : Json
  mode : Mode
  desc : Desc
  loc : Option (List String)      -- `location`: the schema path of the negated keyword (negative values only)
  param : Option String           -- `parameter`
  deriving Repr

def GV.pos (v : Json) (d : Desc) : GV := ⟨v, .positive, d, none, none⟩
def GV.neg (v : Json) (d : Desc) (path : List String) (param : Option String := none) : GV :=
  ⟨v, .negative, d, some path, param⟩

/-! ## Python values -/

/-- `bool(x)` -/
def truthy : Json → Bool
  | .null => false
  | .bool b => b
  | .num m _ => m != 0
  | .str s => s != ""
  | .arr xs => !xs.isEmpty
  | .obj kvs => !kvs.isEmpty

/-- `d.get(k)`: an explicit JSON `null` reads as Python `None`, like an absent key -/
def getK (kvs : List (String × Json)) (k : String) : Option Json :=
  match Json.lookup k kvs with
  | some .null => none
  | r => r

def hasKey (kvs : List (String × Json)) (k : String) : Bool := (Json.lookup k kvs).isSome

/-- a Python `int` or `bool` used in arithmetic (`True + 1 == 2`) -/
def pyInt? : Json → Option Int
  | .num m 0 => some m
  | .bool b => some (if b then 1 else 0)
  | _ => none

/-- Python `==` on JSON-like values (`True == 1`, dicts compare without order) -/
def numOf? : Json → Option (Int × Nat)
  | .num m e => some (m, e)
  | .bool b => some (if b then 1 else 0, 0)
  | _ => none

mutual
  def pyEq : Json → Json → Bool
    | .null, .null => true
    | .str a, .str b => a == b
    | .arr xs, .arr ys => pyEqList xs ys
    | .obj xs, .obj ys => xs.length == ys.length && pyEqKvs xs ys
    | .bool a, .bool b => a == b
    | .bool a, .num m e => e == 0 && m == (if a then 1 else 0)
    | .num m e, .bool a => e == 0 && m == (if a then 1 else 0)
    | .num m e, .num m' e' => m == m' && e == e'
    | _, _ => false
  def pyEqList : List Json → List Json → Bool
    | [], [] => true
    | x :: xs, y :: ys => pyEq x y && pyEqList xs ys
    | _, _ => false
  def pyEqKvs : List (String × Json) → List (String × Json) → Bool
    | [], _ => true
    | (k, x) :: xs, ys =>
      (match Json.lookup k ys with
       | some y => pyEq x y
       | none => false) && pyEqKvs xs ys
end

/-- the Python type of a JSON-like value as `_to_hashable_key` sees it (`type(value)`); ints and floats are told
    apart by the exponent (the harness never feeds floats with an integral value) -/
inductive PyType where
  | none | bool | int | float | str | list | dict
  deriving DecidableEq, Repr

def pyType : Json → PyType
  | .null => .none
  | .bool _ => .bool
  | .num _ 0 => .int
  | .num _ _ => .float
  | .str _ => .str
  | .arr _ => .list
  | .obj _ => .dict

/-- members of the `seen` sets of cover_schema_iter: raw numbers (`seen.add(next)`) and `_to_hashable_key` tuples -/
inductive SeenKey where
  | raw (v : Json)
  | typed (v : Json)
  deriving Repr

/-! equality of `_to_hashable_key` tuples: `(type(v), v)` for scalars (same Python type, then `==`), and
    `(type(v), json-with-sorted-keys)` for dicts / lists — the serialisation tells `false` from `0`, so containers are
    compared strictly (object key order ignored) -/
mutual
  def strictEq : Json → Json → Bool
    | .null, .null => true
    | .bool a, .bool b => a == b
    | .num m e, .num m' e' => m == m' && e == e'
    | .str a, .str b => a == b
    | .arr xs, .arr ys => strictEqList xs ys
    | .obj xs, .obj ys => xs.length == ys.length && strictEqKvs xs ys
    | _, _ => false
  def strictEqList : List Json → List Json → Bool
    | [], [] => true
    | x :: xs, y :: ys => strictEq x y && strictEqList xs ys
    | _, _ => false
  def strictEqKvs : List (String × Json) → List (String × Json) → Bool
    | [], _ => true
    | (k, x) :: xs, ys =>
      (match Json.lookup k ys with
       | some y => strictEq x y
       | none => false) && strictEqKvs xs ys
end

def SeenKey.eq : SeenKey → SeenKey → Bool
  | .raw a, .raw b => pyEq a b
  | .typed a, .typed b => pyType a == pyType b && strictEq a b
  | _, _ => false

def seenHas (seen : List SeenKey) (k : SeenKey) : Bool := seen.any (SeenKey.eq k)

/-! ## the oracle and the generator plumbing -/

inductive Ans where
  | val (v : Json)
  | raise
  deriving Repr

inductive Req where
  | schema (s : Json)                         -- ctx.generate_from_schema(s)
  | strategy (tag : String) (arg : Json)      -- ctx.generate_from(<strategy>) described by a tag
  deriving Repr

structure Call where
  req : Req
  ans : Ans
  deriving Repr

inductive Status where
  | ok
  | raised        -- an exception is propagating to the nearest `_ignore_unfixable`
  | starved       -- the recorded oracle ran out: model and run are out of step
  | unsupported   -- outside the modelled fragment
  deriving DecidableEq, Repr

structure St where
  orc : List Ans
  seen : List SeenKey
  tmpl : Option Json := none     -- the `template` local of the negative loop of the innermost cover_schema_iter
  deriving Repr

structure R where
  out : List GV
  calls : List Call
  st : St
  status : Status
  deriving Repr

abbrev Gen := St → R

namespace Gen
def nil : Gen := fun st => ⟨[], [], st, .ok⟩
def emit (gvs : List GV) : Gen := fun st => ⟨gvs, [], st, .ok⟩
def fail (s : Status) : Gen := fun st => ⟨[], [], st, s⟩
def unsupported : Gen := fail .unsupported

def seq (a b : Gen) : Gen := fun st =>
  let r := a st
  match r.status with
  | .ok => let r2 := b r.st; ⟨r.out ++ r2.out, r.calls ++ r2.calls, r2.st, r2.status⟩
  | _ => r

/-- `with _ignore_unfixable(): …` / `with suppress(…): …` -/
def guard (a : Gen) : Gen := fun st =>
  let r := a st
  match r.status with
  | .raised => { r with status := .ok }
  | _ => r

/-- one oracle call; the continuation receives the answer -/
def ask (req : Req) (k : Json → Gen) : Gen := fun st =>
  match st.orc with
  | [] => ⟨[], [], st, .starved⟩
  | .raise :: rest => ⟨[], [⟨req, .raise⟩], { st with orc := rest }, .raised⟩
  | .val v :: rest =>
    let r := k v { st with orc := rest }
    ⟨r.out, ⟨req, .val v⟩ :: r.calls, r.st, r.status⟩

/-- run `a` with a fresh `seen` set (a nested `cover_schema_iter(ctx, schema)` call without `seen`) -/
def freshSeen (a : Gen) : Gen := fun st =>
  let r := a { st with seen := [] }
  { r with st := { r.st with seen := st.seen } }

/-- read the `seen` set -/
def withSeen (k : List SeenKey → Gen) : Gen := fun st => k st.seen st
def addSeen (key : SeenKey) : Gen := fun st => ⟨[], [], { st with seen := key :: st.seen }, .ok⟩

/-- `for x in xs: body(x)` -/
def forEach (xs : List α) (body : α → Gen) : Gen :=
  match xs with
  | [] => nil
  | x :: rest => seq (body x) (forEach rest body)

/-- post-process the values of `a` (e.g. wrap them into a template) -/
def mapOut (f : GV → GV) (a : Gen) : Gen := fun st =>
  let r := a st
  { r with out := r.out.map f }

/-- post-process the whole value list of `a` (filtering through a local `seen` set) -/
def post (f : List GV → List GV) (a : Gen) : Gen := fun st =>
  let r := a st
  { r with out := f r.out }

/-- the negative loop's `template = None` local: fresh on entry, the caller's restored on exit -/
def scopedTmpl (a : Gen) : Gen := fun st =>
  let r := a { st with tmpl := none }
  { r with st := { r.st with tmpl := st.tmpl } }

def setTmpl (t : Json) : Gen := fun st => ⟨[], [], { st with tmpl := some t }, .ok⟩
def withTmpl (k : Option Json → Gen) : Gen := fun st => k st.tmpl st
end Gen

/-! ## CoverageContext -/
structure Ctx where
  location : String
  pos : Bool
  neg : Bool
  path : List String
  deriving Repr

def Ctx.withPositive (c : Ctx) : Ctx := { c with pos := true, neg := false }
def Ctx.withNegative (c : Ctx) : Ctx := { c with pos := false, neg := true }
def Ctx.at (c : Ctx) (k : String) : Ctx := { c with path := c.path ++ [k] }

/-! ## numbers -/

/-- `closest_multiple_greater_than(y, x)` (Python `divmod` is floor division) -/
def closestMultiple (y x : Int) : Int :=
  if y.fmod x == 0 then y else x * (y.fdiv x + 1)

/-- the draft-4 boolean or the numeric form of an exclusive bound -/
inductive ExBound where
  | flag (b : Bool)
  | num (n : Int)
  deriving DecidableEq, Repr

structure NumKw where
  minimum : Option Int
  maximum : Option Int
  exMin : Option ExBound
  exMax : Option ExBound
  multipleOf : Option Int
  deriving DecidableEq, Repr

def intKw? (kvs : List (String × Json)) (k : String) : Option (Option Int) :=
  match getK kvs k with
  | none => some none
  | some (.num m 0) => some (some m)
  | _ => none

def exKw? (kvs : List (String × Json)) (k : String) : Option (Option ExBound) :=
  match getK kvs k with
  | none => some none
  | some (.num m 0) => some (some (.num m))
  | some (.bool b) => some (some (.flag b))
  | _ => none

/-- the numeric keywords of a schema; `none`: a keyword value outside the modelled fragment (non-integer number,
    `multipleOf: 0`, a non-number) -/
def parseNumKw (kvs : List (String × Json)) : Option NumKw :=
  match intKw? kvs "minimum", intKw? kvs "maximum", exKw? kvs "exclusiveMinimum", exKw? kvs "exclusiveMaximum",
        intKw? kvs "multipleOf" with
  | some mn, some mx, some en, some ex, some mo =>
    if mo == some 0 then none else some ⟨mn, mx, en, ex, mo⟩
  | _, _, _, _, _ => none

def ExBound.asInt : ExBound → Int
  | .flag b => if b then 1 else 0
  | .num n => n

/-- effective lower bound used by `_positive_number`.
    asFound:  `if exclusive_minimum is not None: minimum = exclusive_minimum + 1` (a boolean is used as 0/1, and an
              inclusive `minimum` next to a numeric exclusive bound is forgotten);
    repaired: boolean form tightens the inclusive bound by one, numeric form is combined with it. -/
def effMin (v : Variant) (k : NumKw) : Option Int :=
  match v with
  | .asFound => (match k.exMin with | some e => some (e.asInt + 1) | none => k.minimum)
  | .repaired =>
    match k.exMin with
    | none => k.minimum
    | some (.flag b) => if b then k.minimum.map (· + 1) else k.minimum
    | some (.num n) => (match k.minimum with | none => some (n + 1) | some m => some (max m (n + 1)))

def effMax (v : Variant) (k : NumKw) : Option Int :=
  match v with
  | .asFound => (match k.exMax with | some e => some (e.asInt - 1) | none => k.maximum)
  | .repaired =>
    match k.exMax with
    | none => k.maximum
    | some (.flag b) => if b then k.maximum.map (· - 1) else k.maximum
    | some (.num n) => (match k.maximum with | none => some (n - 1) | some m => some (min m (n - 1)))

/-- `not bound` of the snapshot (0 is falsy) vs `bound is None` of the repair -/
def isAbsent (v : Variant) (b : Option Int) : Bool :=
  match v, b with
  | _, none => true
  | .asFound, some n => n == 0
  | .repaired, some _ => false

def smallestOf (mn : Int) : Option Int → Int
  | some x => closestMultiple mn x
  | none => mn
def largerOf (mn : Int) : Option Int → Int
  | some x => closestMultiple mn x + x
  | none => mn + 1
def largestOf (mx : Int) : Option Int → Int
  | some x => mx - mx.fmod x
  | none => mx
def smallerOf (mx : Int) : Option Int → Int
  | some x => mx - mx.fmod x - x
  | none => mx - 1
def leOpt (n : Int) : Option Int → Bool
  | some hi => decide (n ≤ hi)
  | none => true
def geOpt (n : Int) : Option Int → Bool
  | some lo => decide (n ≥ lo)
  | none => true

/-- the crossing guard of the "Minimum value" / "Maximum value" emissions (site `vc`):
    asFound: the value is emitted without looking at the opposite bound;
    repaired: `if maximum is None or smallest <= maximum` / `… and (minimum is None or largest >= minimum)` -/
def crossOk (vc : Variant) (within : Bool) : Bool :=
  match vc with
  | .asFound => true
  | .repaired => within

/-- the `if minimum is not None:` block: values and the local `seen` set -/
def numLower (vz vc : Variant) (minimum maximum multipleOf : Option Int) : List (Int × Desc) × List Int :=
  match minimum with
  | none => ([], [])
  | some mn =>
    let smallest := smallestOf mn multipleOf
    let larger := largerOf mn multipleOf
    let first := crossOk vc (leOpt smallest maximum)
    let seen1 : List Int := if first then [smallest] else []
    let second := !(seen1.contains larger) && (isAbsent vz maximum || leOpt larger maximum)
    ((if first then [(smallest, Desc.minimumValue)] else []) ++ (if second then [(larger, Desc.nearBoundaryNumber)] else []),
     (if second then [larger] else []) ++ seen1)

/-- the `if maximum is not None:` block -/
def numUpper (vc : Variant) (minimum maximum multipleOf : Option Int) (seen : List Int) : List (Int × Desc) :=
  match maximum with
  | none => []
  | some mx =>
    let largest := largestOf mx multipleOf
    let smaller := smallerOf mx multipleOf
    let first := !(seen.contains largest) && crossOk vc (geOpt largest minimum)
    let seen' : List Int := if first then largest :: seen else seen
    (if first then [(largest, Desc.maximumValue)] else []) ++
    (if !(seen'.contains smaller) && decide (smaller > 0) && geOpt smaller minimum
     then [(smaller, Desc.nearBoundaryNumber)] else [])

/-- boundary values of `_positive_number` (everything after the example / "Valid number" prologue) -/
def numBoundary (vz vx vc : Variant) (k : NumKw) : List (Int × Desc) :=
  let mn := effMin vx k
  let mx := effMax vx k
  let lo := numLower vz vc mn mx k.multipleOf
  lo.1 ++ numUpper vc mn mx k.multipleOf lo.2

def truthyOpt : Option Json → Bool
  | some j => truthy j
  | none => false

/-- `if example [and ctx.is_valid_for_location(example)]: yield PositiveValue(example, "Example value")` -/
def exPart (ex0 : Option Json) (locOk : Json → Bool) : List GV :=
  match ex0 with
  | some e => if truthy e && locOk e then [GV.pos e .exampleValue] else []
  | none => []

def exsPart (exs : List Json) (locOk : Json → Bool) : List GV :=
  (exs.filter locOk).map (GV.pos · .exampleValue)

def dfltCond (ex0 : Option Json) (hasExs : Bool) (exs : List Json) (d : Json) (locOk : Json → Bool) : Bool :=
  truthy d
  && !(match ex0 with | some e => pyEq d e | none => false)
  && !(hasExs && exs.any (pyEq d ·))
  && locOk d

def dfltPart (ex0 : Option Json) (hasExs : Bool) (exs : List Json) (dflt : Option Json) (locOk : Json → Bool) : List GV :=
  match dflt with
  | some d => if dfltCond ex0 hasExs exs d locOk then [GV.pos d .defaultValue] else []
  | none => []

/-- `examples` as a list; `none`: present but not a list (outside the fragment) -/
def examplesList? (examples : Option Json) : Option (List Json) :=
  match examples with
  | none => some []
  | some (.arr xs) => some xs
  | some _ => none

/-- the `example` / `examples` / `default` prologue shared by the `_positive_*` functions (only used when one of the
    three is truthy). `none`: `examples` is not a list. -/
def examplePrologue (kvs : List (String × Json)) (locOk : Json → Bool) : Option (List GV) :=
  match examplesList? (getK kvs "examples") with
  | none => none
  | some exs =>
    some (exPart (getK kvs "example") locOk ++ exsPart exs locOk ++
          dfltPart (getK kvs "example") (getK kvs "examples").isSome exs (getK kvs "default") locOk)

def hasExamples (kvs : List (String × Json)) : Bool :=
  truthyOpt (getK kvs "example") || truthyOpt (getK kvs "examples") || truthyOpt (getK kvs "default")

/-- `_positive_number`; `vz`: the zero-bound site (F6: `not maximum`), `vx`: the exclusive-bound site (F7),
    `vc`: the crossing guard of the boundary values themselves (F6c) -/
def positiveNumber (vz vx vc : Variant) (kvs : List (String × Json)) : Gen :=
  match parseNumKw kvs with
  | none => Gen.unsupported
  | some k =>
    let boundary := Gen.emit ((numBoundary vz vx vc k).map fun (n, d) => GV.pos (.num n 0) d)
    if hasExamples kvs then
      match examplePrologue kvs (fun _ => true) with
      | none => Gen.unsupported
      | some gvs => Gen.seq (Gen.emit gvs) boundary
    else if isAbsent vz (effMin vx k) && isAbsent vz (effMax vx k) then
      Gen.seq (Gen.ask (.schema (.obj kvs)) fun j => Gen.emit [GV.pos j .validNumber]) boundary
    else boundary


/-! ## dicts -/

/-- `{**d, k: v}` -/
def setKey (k : String) (v : Json) : List (String × Json) → List (String × Json)
  | [] => [(k, v)]
  | (k', v') :: rest => if k' == k then (k', v) :: rest else (k', v') :: setKey k v rest

def delKey (k : String) (kvs : List (String × Json)) : List (String × Json) := kvs.filter (·.1 != k)

def jnat (n : Nat) : Json := .num n 0

def BUFFER : Nat := 8192

/-- a length keyword: `some none` absent, `some (some n)` a natural number, `none` anything else -/
def lenKw? (kvs : List (String × Json)) (k : String) : Option (Option Nat) :=
  match getK kvs k with
  | none => some none
  | some (.num m 0) => if m ≥ 0 then some (some m.toNat) else none
  | _ => none

def strList? : List Json → Option (List String)
  | [] => some []
  | .str s :: rest => (strList? rest).map (s :: ·)
  | _ :: _ => none

/-! ## strings -/

/-- `ctx.is_valid_for_location(value)`.  For header / cookie locations the code asks
    `has_invalid_characters("", value)`; `requests.utils.check_header_validity` rejects the empty header *name*, so
    every string is "invalid for the location" there (observed on the real code; modelled as found). -/
def locOk (ctx : Ctx) (v : Json) : Bool :=
  match v with
  | .str _ => !(ctx.location == "header" || ctx.location == "cookie")
  | _ => true

/-- one `yield PositiveValue(ctx.generate_from_schema(s), description=d)` -/
def askSchema (s : Json) (d : Desc) : Gen := Gen.ask (.schema s) fun j => Gen.emit [GV.pos j d]

def isNoneOrZero : Option Nat → Bool
  | none => true
  | some n => n == 0

def leOptNat (n : Nat) : Option Nat → Bool
  | none => true
  | some m => decide (n ≤ m)

/-- `not max_length` (as found: a `maxLength` of 0 reads as absent) vs `max_length is None` (site `vl`, F34) -/
def maxAbsent (vl : Variant) (mx : Option Nat) : Bool :=
  match vl with
  | .asFound => isNoneOrZero mx
  | .repaired => mx.isNone

def geOptNat (n : Nat) : Option Nat → Bool
  | none => true
  | some m => decide (n ≥ m)

/-- "Minimum length string" is emitted (site `vl`: with the crossing guard only if `min_length <= max_length`) -/
def strLowerFirst (vl : Variant) (m : Nat) (mx : Option Nat) : Bool := crossOk vl (leOptNat m mx)

/-- the near-boundary string above the minimum is emitted -/
def strLowerSecond (vl : Variant) (m : Nat) (mx : Option Nat) : Bool :=
  decide (m + 1 < BUFFER) && (maxAbsent vl mx || leOptNat (m + 1) mx)

/-- the `if min_length is not None and min_length < BUFFER_SIZE:` block of `_positive_string` -/
def strLower (vl : Variant) (kvs : List (String × Json)) (mn mx : Option Nat) : Gen :=
  match mn with
  | none => Gen.nil
  | some m =>
    if m < BUFFER then
      Gen.seq (if strLowerFirst vl m mx then askSchema (.obj (setKey "maxLength" (jnat m) kvs)) .minLengthString else Gen.nil)
        (if strLowerSecond vl m mx then
           askSchema (.obj (setKey "maxLength" (jnat (m + 1)) (setKey "minLength" (jnat (m + 1)) kvs))) .nearBoundaryString
         else Gen.nil)
    else Gen.nil

/-- the local `seen` set of `_positive_string` after the lower block -/
def strLowerSeen (vl : Variant) (mn mx : Option Nat) : List Nat :=
  match mn with
  | none => []
  | some m =>
    if m < BUFFER then
      (if strLowerSecond vl m mx then [m + 1] else []) ++ (if strLowerFirst vl m mx then [m] else [])
    else []

/-- the `if max_length is not None:` block -/
def strUpper (vl : Variant) (kvs : List (String × Json)) (mn mx : Option Nat) (seen : List Nat) : Gen :=
  match mx with
  | none => Gen.nil
  | some M =>
    let first := decide (M < BUFFER) && !(seen.contains M) && crossOk vl (geOptNat M mn)
    let seen' := if first then M :: seen else seen
    Gen.seq
      (if first then askSchema (.obj (setKey "minLength" (jnat M) kvs)) .maxLengthString else Gen.nil)
      (match M with
       | 0 => Gen.nil
       | s + 1 =>
         if s < BUFFER && !(seen'.contains s) && s > 0 && geOptNat s mn then
           askSchema (.obj (setKey "maxLength" (jnat s) (setKey "minLength" (jnat s) kvs))) .nearBoundaryString
         else Gen.nil)

/-- the lengths cross (`min_length > max_length`, both present) -/
def lenCross (mn mx : Option Nat) : Bool :=
  match mn, mx with
  | some a, some b => decide (b < a)
  | _, _ => false

/-- `_positive_string`; `vl`: the crossing-length site (F34) -/
def positiveString (vl : Variant) (ctx : Ctx) (kvs : List (String × Json)) : Gen :=
  match lenKw? kvs "minLength", lenKw? kvs "maxLength" with
  | some mn0, some mx =>
    let mn := if mn0 == some 0 then none else mn0
    let prologue : Gen :=
      if hasExamples kvs then
        (match examplePrologue kvs (locOk ctx) with
         | none => Gen.unsupported
         | some gvs => Gen.emit gvs)
      else if mn.isNone && isNoneOrZero mx then askSchema (.obj kvs) .validString
      else if hasKey kvs "pattern" && crossOk vl (!(lenCross mn mx)) then askSchema (.obj kvs) .validString
      else Gen.nil
    Gen.seq prologue (Gen.seq (strLower vl kvs mn mx) (strUpper vl kvs mn mx (strLowerSeen vl mn mx)))
  | _, _ => Gen.unsupported

/-! ## arrays -/

/-- `_positive_array` -/
def positiveArray (kvs : List (String × Json)) (template : Json) : Gen :=
  match template, lenKw? kvs "minItems", lenKw? kvs "maxItems" with
  | .arr xs, some mn, some mx =>
    let prologue : Gen :=
      if hasExamples kvs then
        (match examplePrologue kvs (fun _ => true) with
         | none => Gen.unsupported
         | some gvs => Gen.emit gvs)
      else Gen.emit [GV.pos template .validArray]
    let seen0 : List Nat := [xs.length]
    let lowerOk := match mn with
      | some m => !(seen0.contains (m + 1)) && leOptNat (m + 1) mx
      | none => false
    let lower : Gen := match mn with
      | some m =>
        if lowerOk then
          askSchema (.obj (setKey "maxItems" (jnat (m + 1)) (setKey "minItems" (jnat (m + 1)) kvs))) .nearBoundaryItems
        else Gen.nil
      | none => Gen.nil
    let seen1 : List Nat := match mn with
      | some m => if lowerOk then (m + 1) :: seen0 else seen0
      | none => seen0
    let upper : Gen := match mx with
      | none => Gen.nil
      | some M =>
        let first := M < BUFFER && !(seen1.contains M)
        let seen2 := if first then M :: seen1 else seen1
        Gen.seq
          (if first then askSchema (.obj (setKey "minItems" (jnat M) kvs)) .maxItemsArray else Gen.nil)
          (match M with
           | 0 => Gen.nil
           | s + 1 =>
             if s < BUFFER && s > 0 && !(seen2.contains s) && (match mn with | none => true | some m => decide (s ≥ m)) then
               askSchema (.obj (setKey "maxItems" (jnat s) (setKey "minItems" (jnat s) kvs))) .nearBoundaryItems
             else Gen.nil)
    Gen.seq prologue (Gen.seq lower upper)
  | _, _, _ => Gen.unsupported

/-! ## objects -/

def insertSorted (s : String) : List String → List String
  | [] => [s]
  | x :: rest => if s < x then s :: x :: rest else if s == x then x :: rest else x :: insertSorted s rest

/-- `sorted(set(xs))` -/
def sortDedupe (xs : List String) : List String := xs.foldl (fun acc x => insertSorted x acc) []

/-- `for size in range(2, len(optional)): yield next(combinations(optional, size))` -/
def selectCombinations (optional : List String) : List (List String) :=
  (List.range (optional.length - 2)).map fun i => optional.take (i + 2)

/-- the nested loop of `_positive_object` over one property: de-duplicate through the local `seen` set and embed
    the value into the template -/
def dedupeWrap (name : String) (tkvs : List (String × Json)) : List SeenKey → List GV → List GV
  | _, [] => []
  | seen, g :: rest =>
    if seenHas seen (.typed g.value) then dedupeWrap name tkvs seen rest
    else GV.pos (.obj (setKey name g.value tkvs)) (.objectValid name g.desc) :: dedupeWrap name tkvs (.typed g.value :: seen) rest

def propsOf? (kvs : List (String × Json)) : Option (List (String × Json)) :=
  match Json.lookup "properties" kvs with
  | none => some []
  | some (.obj ps) => some ps
  | some _ => none

def requiredOf? (kvs : List (String × Json)) : Option (List String) :=
  match Json.lookup "required" kvs with
  | none => some []
  | some (.arr xs) => strList? xs
  | some _ => none

/-- the `minProperties` test of the combinations of `_positive_object` (site `vm`, F37): as found the keyword is not read -/
def minPropsOk (vm : Variant) (minProps : Option Nat) (combo : List (String × Json)) : Bool :=
  match vm, minProps with
  | .repaired, some n => decide (combo.length ≥ n)
  | _, _ => true

/-- `schema.get("minProperties", 0)` as the repaired variant reads it; `none`: not a natural number -/
def minPropsKw? (vm : Variant) (kvs : List (String × Json)) : Option (Option Nat) :=
  match vm with
  | .asFound => some none
  | .repaired => lenKw? kvs "minProperties"

/-- `_positive_object`; `rec` = cover_schema_iter on a property schema with the (positive-only) context -/
def positiveObject (vm : Variant) (rec : Json → Gen) (kvs : List (String × Json)) (template : Json) : Gen :=
  match minPropsKw? vm kvs with
  | none => Gen.unsupported
  | some mp =>
  match template, propsOf? kvs, requiredOf? kvs with
  | .obj tkvs, some ps, some required =>
    let prologue : Gen :=
      if hasExamples kvs then
        (match examplePrologue kvs (fun _ => true) with
         | none => Gen.unsupported
         | some gvs => Gen.emit gvs)
      else Gen.emit [GV.pos template .validObject]
    let names := ps.map (·.1)
    let optional := sortDedupe (names.filter fun n => !(required.contains n))
    let oneOptional : List GV := optional.filterMap fun name =>
      let combo := tkvs.filter fun (k, _) => required.contains k || k == name
      if combo.length != tkvs.length && minPropsOk vm mp combo then some (GV.pos (.obj combo) (.objectRequiredAnd name)) else none
    let subsets : List GV := (selectCombinations optional).filterMap fun sel =>
      let combo := tkvs.filter fun (k, _) => required.contains k || sel.contains k
      if minPropsOk vm mp combo then some (GV.pos (.obj combo) .objectSubset) else none
    let onlyRequired : List GV :=
      if names.all (required.contains ·) && required.all (names.contains ·) then []
      else
        let combo := tkvs.filter fun (k, _) => required.contains k
        if minPropsOk vm mp combo then [GV.pos (.obj combo) .objectOnlyRequired] else []
    Gen.seq prologue (Gen.seq (Gen.emit (oneOptional ++ subsets ++ onlyRequired))
      (Gen.forEach ps fun (name, sub) =>
        Gen.post (dedupeWrap name tkvs [.typed ((Json.lookup name tkvs).getD .null)]) (Gen.freshSeen (rec sub))))
  | _, _, _ => Gen.unsupported

/-! ## template schemas -/

/-- `_get_properties(schema)`; `tmpl` = `_get_template_schema(·, "object")` one level down -/
def getProperties (tmpl : List (String × Json) → Option Json) (schema : Json) : Option Json :=
  match schema with
  | .obj kvs =>
    match Json.lookup "example" kvs with
    | some e => some (.obj [("const", e)])
    | none =>
      match Json.lookup "default" kvs with
      | some d => some (.obj [("const", d)])
      | none =>
        if truthyOpt (getK kvs "examples") then some (.obj [("enum", (Json.lookup "examples" kvs).getD .null)])
        else if (match getK kvs "type" with | some (.str "object") => true | _ => false) then tmpl kvs
        else if truthyOpt (getK kvs "pattern") && (truthyOpt (getK kvs "minLength") || truthyOpt (getK kvs "maxLength"))
          then none     -- update_pattern_in_schema would rewrite the pattern (patterns.update_quantifier: not modelled)
        else some schema
  | j => some j

def mapProps (f : Json → Option Json) : List (String × Json) → Option (List (String × Json))
  | [] => some []
  | (k, v) :: rest =>
    match f v, mapProps f rest with
    | some v', some rest' => some ((k, v') :: rest')
    | _, _ => none

/-- the `required` list of the template schema (site `vt`, F36): as found `list(properties)`; repaired: followed by the
    required names that are not declared under `properties`.  `none`: `required` is not a list of strings -/
def templateRequired? (vt : Variant) (kvs ps : List (String × Json)) : Option (List Json) :=
  let declared := ps.map fun (k, _) => Json.str k
  match vt with
  | .asFound => some declared
  | .repaired =>
    match Json.lookup "required" kvs with
    | none => some declared
    | some (.arr xs) =>
      (strList? xs).map fun names => declared ++ (names.filter fun n => !(ps.any (·.1 == n))).map Json.str
    | some _ => none

/-- `_get_template_schema(schema, ty)`; `none`: outside the fragment (or nesting deeper than the fuel) -/
def templateSchema (vt : Variant) : Nat → List (String × Json) → String → Option Json
  | 0, _, _ => none
  | fuel + 1, kvs, ty =>
    if ty == "object" then
      match getK kvs "properties" with
      | some (.obj ps) =>
        match templateRequired? vt kvs ps, mapProps (getProperties fun k => templateSchema vt fuel k "object") ps with
        | some req, some ps' =>
          some (.obj (setKey "properties" (.obj ps') (setKey "type" (.str ty) (setKey "required" (.arr req) kvs))))
        | _, _ => none
      | some _ => none
      | none => some (.obj (setKey "type" (.str ty) kvs))
    else some (.obj (setKey "type" (.str ty) kvs))

def TFUEL : Nat := 16

/-! ## the negative arms -/

/-- `_negative_enum` (also used for `const`); `checkSeen`: the extra `if k not in seen` of the const arm -/
def negEnum (ctx : Ctx) (value : Json) (checkSeen : Bool) : Gen :=
  Gen.ask (.strategy "negative_enum" value) fun v =>
    Gen.withSeen fun seen =>
      Gen.seq (if checkSeen && seenHas seen (.typed v) then Gen.nil else Gen.emit [GV.neg v .invalidEnum ctx.path])
              (Gen.addSeen (.typed v))

def typeOrder : List String := ["integer", "number", "boolean", "null", "string", "array", "object"]

/-- the strategies `_negative_type` draws from, as tags, in dict order; `none`: the `del strategies["integer"]` KeyError -/
def negTypeTags (types : List String) : Option (List String) :=
  if types.contains "number" && types.contains "integer" then none else
  some ((typeOrder.filter fun t => !(types.contains t) && !(t == "integer" && types.contains "number")).map fun t =>
    if t == "number" && types.contains "integer" then "number-nonint" else t)

def typeList? (value : Json) : Option (List String) :=
  match value with
  | .str t => some [t]
  | .arr ts => strList? ts
  | _ => none

/-- `_negative_type` -/
def negType (ctx : Ctx) (value : Json) : Gen :=
  match (typeList? value).bind negTypeTags with
  | none => Gen.unsupported
  | some tags =>
    Gen.forEach tags fun tag =>
      Gen.ask (.strategy "negative_type" (.str tag)) fun v =>
        Gen.withSeen fun seen =>
          if seenHas seen (.typed v) then Gen.nil
          else Gen.seq (Gen.emit [GV.neg v .incorrectType ctx.path]) (Gen.addSeen (.typed v))

/-- `template = template or ctx.generate_from_schema(_get_template_schema(schema, "object"))` -/
def needTemplate (vt : Variant) (kvs : List (String × Json)) (k : Json → Gen) : Gen :=
  Gen.withTmpl fun t =>
    match (match t with | some t => if truthy t then some t else none | none => none) with
    | some t => k t
    | none =>
      match templateSchema vt TFUEL kvs "object" with
      | none => Gen.unsupported
      | some ts => Gen.ask (.schema ts) fun t => Gen.seq (Gen.setTmpl t) (k t)

/-- `_negative_properties` -/
def negProperties (rec : Ctx → Json → Gen) (ctx : Ctx) (template value : Json) : Gen :=
  match template, value with
  | .obj tkvs, .obj ps =>
    Gen.forEach ps fun (key, sub) =>
      Gen.mapOut (fun g => ⟨.obj (setKey key g.value tkvs), .negative, .objectInvalid key g.desc, g.loc, some key⟩)
        (Gen.freshSeen (rec (ctx.withNegative.at key) sub))
  | _, _ => Gen.unsupported

/-- `_negative_items` -/
def negItems (rec : Ctx → Json → Gen) (ctx : Ctx) (value : Json) : Gen :=
  Gen.mapOut (fun g => ⟨.arr [g.value], .negative, .arrayInvalidItems g.desc, g.loc, none⟩)
    (Gen.freshSeen (rec ctx.withNegative value))

/-- `_negative_required` -/
def negRequired (ctx : Ctx) (template value : Json) : Gen :=
  match template, value with
  | .obj tkvs, .arr xs =>
    match strList? xs with
    | some keys => Gen.emit (keys.map fun key => GV.neg (.obj (delKey key tkvs)) (.missingRequired key) ctx.path (some key))
    | none => Gen.unsupported
  | _, _ => Gen.unsupported

def UNKNOWN_KEY : String := "x-schemathesis-unknown-property"

/-- `{"allOf": [{k: v for k, v in schema.items() if k != key}, {"not": {key: value}}]}` -/
def withNegatedKey (kvs : List (String × Json)) (key : String) (value : Json) : Json :=
  .obj [("allOf", .arr [.obj (delKey key kvs), .obj [("not", .obj [(key, value)])]])]

/-- emit a negative value unless its `_to_hashable_key` is in `seen`; add it -/
def emitUnseen (v : Json) (d : Desc) (ctx : Ctx) : Gen :=
  Gen.withSeen fun seen =>
    if seenHas seen (.typed v) then Gen.nil
    else Gen.seq (Gen.emit [GV.neg v d ctx.path]) (Gen.addSeen (.typed v))

/-- the `minLength` / `maxLength` arms: a string one shorter / longer than the bound -/
def negLength (ctx : Ctx) (kvs : List (String × Json)) (n : Nat) (d : Desc) : Gen :=
  if hasKey kvs "pattern" then Gen.unsupported      -- update_quantifier paths: not modelled
  else
    let s1 := setKey "maxLength" (jnat n) (setKey "minLength" (jnat n) kvs)
    let s2 := if hasKey s1 "type" then s1 else s1 ++ [("type", .str "string")]
    Gen.guard (Gen.ask (.schema (.obj s2)) fun v => emitUnseen v d ctx)

/-- the test of the `additionalProperties` arm on the keyword's value -/
def addPropsForbidden (va : Variant) (value : Json) : Bool :=
  match va with
  | .asFound => !(truthy value)
  | .repaired => (match value with | .bool false => true | _ => false)

/-- which arm of the `if key == … elif …` chain of the negative loop a keyword selects -/
inductive Arm where
  | enum | const | type | properties | patternProperties | items | pattern | format | maximum | minimum
  | exclusiveMaximum | exclusiveMinimum | multipleOf | minLength | maxLength | uniqueItems | required
  | additionalProperties | allOf | anyOf | other
  deriving DecidableEq, Repr

def armOf (key : String) : Arm :=
  if key == "enum" then .enum else if key == "const" then .const else if key == "type" then .type
  else if key == "properties" then .properties else if key == "patternProperties" then .patternProperties
  else if key == "items" then .items else if key == "pattern" then .pattern else if key == "format" then .format
  else if key == "maximum" then .maximum else if key == "minimum" then .minimum
  else if key == "exclusiveMaximum" then .exclusiveMaximum else if key == "exclusiveMinimum" then .exclusiveMinimum
  else if key == "multipleOf" then .multipleOf else if key == "minLength" then .minLength
  else if key == "maxLength" then .maxLength else if key == "uniqueItems" then .uniqueItems
  else if key == "required" then .required else if key == "additionalProperties" then .additionalProperties
  else if key == "allOf" then .allOf else if key == "anyOf" || key == "oneOf" then .anyOf else .other

/-- one iteration of the negative loop of cover_schema_iter (inside `_ignore_unfixable(), ctx.at(key)`: `ctx` is
    the context already extended by the key);
    `vx`: the exclusive-bound site (repaired: the draft-4 booleans are not emitted as values) -/
def negArmTag (rec : Ctx → Json → Gen) (vx va vt : Variant) (ctx : Ctx) (kvs : List (String × Json)) (types : List String)
    (tag : Arm) (value : Json) : Gen :=
  match tag with
  | .enum => negEnum ctx value false
  | .const => negEnum ctx (.arr [value]) true
  | .type => negType ctx value
  | .properties => needTemplate vt kvs fun t => negProperties rec ctx t value
  | .patternProperties => Gen.unsupported
  | .items => (match value with | .obj _ => negItems rec ctx value | _ => Gen.nil)
  | .pattern =>
    (match value with
     | .str _ => Gen.ask (.strategy "negative_pattern" value) fun v => Gen.emit [GV.neg v .notMatchingPattern ctx.path]
     | _ => Gen.unsupported)
  | .format =>
    if types.contains "string" || types.isEmpty then
      (match value with
       | .str _ => Gen.ask (.strategy "negative_format" value) fun v => Gen.emit [GV.neg v .notMatchingFormat ctx.path]
       | _ => Gen.unsupported)
    else Gen.nil
  | .maximum =>
    (match pyInt? value with
     | some n =>
       Gen.withSeen fun seen =>
         if seenHas seen (.raw (.num (n + 1) 0)) then Gen.nil
         else Gen.seq (Gen.emit [GV.neg (.num (n + 1) 0) .greaterThanMaximum ctx.path]) (Gen.addSeen (.raw (.num (n + 1) 0)))
     | none => Gen.unsupported)
  | .minimum =>
    (match pyInt? value with
     | some n =>
       Gen.withSeen fun seen =>
         if seenHas seen (.raw (.num (n - 1) 0)) then Gen.nil
         else Gen.seq (Gen.emit [GV.neg (.num (n - 1) 0) .smallerThanMinimum ctx.path]) (Gen.addSeen (.raw (.num (n - 1) 0)))
     | none => Gen.unsupported)
  | .exclusiveMaximum =>
    -- asFound: `key == "exclusiveMaximum" or key == "exclusiveMinimum" and value not in seen` — no `seen` test on this
    -- side, and the draft-4 boolean is emitted as a value; repaired: `key in (…) and not isinstance(value, bool) and
    -- value not in seen`
    (match value with
     | .bool _ =>
       (match vx with
        | .asFound => Gen.seq (Gen.emit [GV.neg value .greaterThanMaximum ctx.path]) (Gen.addSeen (.raw value))
        | .repaired => Gen.nil)
     | .num _ _ =>
       (match vx with
        | .asFound => Gen.seq (Gen.emit [GV.neg value .greaterThanMaximum ctx.path]) (Gen.addSeen (.raw value))
        | .repaired =>
          Gen.withSeen fun seen =>
            if seenHas seen (.raw value) then Gen.nil
            else Gen.seq (Gen.emit [GV.neg value .greaterThanMaximum ctx.path]) (Gen.addSeen (.raw value)))
     | _ => Gen.unsupported)
  | .exclusiveMinimum =>
    (match value with
     | .bool _ =>
       (match vx with
        | .asFound =>
          Gen.withSeen fun seen =>
            if seenHas seen (.raw value) then Gen.nil
            else Gen.seq (Gen.emit [GV.neg value .smallerThanMinimum ctx.path]) (Gen.addSeen (.raw value))
        | .repaired => Gen.nil)
     | .num _ _ =>
       Gen.withSeen fun seen =>
         if seenHas seen (.raw value) then Gen.nil
         else Gen.seq (Gen.emit [GV.neg value .smallerThanMinimum ctx.path]) (Gen.addSeen (.raw value))
     | _ => Gen.unsupported)
  | .multipleOf =>
    Gen.ask (.schema (withNegatedKey kvs "multipleOf" value)) fun v => emitUnseen v .nonMultiple ctx
  | .minLength =>
    (match value with
     | .num m 0 => if 0 < m && m < BUFFER then negLength ctx kvs (m.toNat - 1) .smallerThanMinLength else Gen.nil
     | _ => Gen.unsupported)
  | .maxLength =>
    (match value with
     | .num m 0 =>
       if m < 0 then Gen.unsupported
       else if m < BUFFER then negLength ctx kvs (m.toNat + 1) .largerThanMaxLength else Gen.nil
     | _ => Gen.unsupported)
  | .uniqueItems =>
    if truthy value then
      Gen.ask (.schema (.obj (setKey "maxItems" (jnat 1) (setKey "minItems" (jnat 1) (setKey "type" (.str "array") kvs)))))
        fun u => match u with
          | .arr xs => Gen.emit [GV.neg (.arr (xs ++ xs)) .nonUnique ctx.path]
          | _ => Gen.unsupported
    else Gen.nil
  | .required => needTemplate vt kvs fun t => negRequired ctx t value
  | .additionalProperties =>
    -- site `va` (F35): as found `not value` (the empty schema `{}` is falsy); repaired `value is False`
    if addPropsForbidden va value && !(hasKey kvs "pattern") &&
       (match getK kvs "type" with | none => true | some (.str "object") => true | _ => false) then
      needTemplate vt kvs fun t =>
        match t with
        | .obj tkvs => Gen.emit [GV.neg (.obj (setKey UNKNOWN_KEY (.num 42 0) tkvs)) .unexpectedProperties ctx.path]
        | _ => Gen.unsupported
    else Gen.nil
  | .allOf =>
    (match value with
     | .arr [x] => rec (ctx.withNegative.at "0") x
     | _ => Gen.unsupported)       -- canonicalish(schema): not modelled
  | .anyOf =>
    (match value with
     | .arr xs => Gen.forEach xs.zipIdx fun (sub, i) => rec (ctx.withNegative.at (toString i)) sub
     | _ => Gen.unsupported)
  | .other => Gen.nil

def negArm (rec : Ctx → Json → Gen) (vx va vt : Variant) (ctx : Ctx) (kvs : List (String × Json)) (types : List String)
    (key : String) (value : Json) : Gen :=
  negArmTag rec vx va vt ctx kvs types (armOf key) value

/-! ## `_cover_positive_for_type` and `cover_schema_iter` -/

structure Vs where
  zero : Variant    -- F6: `not maximum`
  excl : Variant    -- F7: exclusive bounds
  cross : Variant   -- F6c: "Minimum value" / "Maximum value" emitted without looking at the opposite bound
  strCross : Variant     -- F34: `_positive_string` boundary lengths emitted without looking at the opposite bound
  addProps : Variant     -- F35: `additionalProperties` arm tests `not value`
  tmplReq : Variant      -- F36: the template schema forgets required names that are not declared properties
  minProps : Variant     -- F37: `_positive_object` combinations ignore `minProperties`
  falseSchema : Variant  -- F40: the boolean schema `false` is covered like `true`
  deriving Repr

def Vs.repaired : Vs := ⟨.repaired, .repaired, .repaired, .repaired, .repaired, .repaired, .repaired, .repaired⟩
def Vs.asFound : Vs := ⟨.asFound, .asFound, .asFound, .asFound, .asFound, .asFound, .asFound, .asFound⟩

def subSchemas? (kvs : List (String × Json)) (k : String) : Option (List Json) :=
  match getK kvs k with
  | none => some []
  | some (.arr xs) => some xs
  | some _ => none

/-- the `if GenerationMode.POSITIVE in ctx.generation_modes:` block -/
def positiveBlock (rec : Ctx → Json → Gen) (vs : Vs) (ctx : Ctx) (kvs : List (String × Json)) (ty : Option String)
    (template : Json) : Gen :=
  let pctx := ctx.withPositive
  match subSchemas? kvs "anyOf", subSchemas? kvs "oneOf", subSchemas? kvs "allOf" with
  | some anyOf, some oneOf, some allOf =>
    let descents := Gen.forEach (anyOf ++ oneOf) fun sub => Gen.freshSeen (rec pctx sub)
    let allOfPart : Gen := match getK kvs "allOf", allOf with
      | none, _ => Gen.nil
      | some _, [x] => Gen.freshSeen (rec pctx x)
      | some _, _ => Gen.unsupported
    let own : Gen :=
      match Json.lookup "enum" kvs with
      | some (.arr xs) => Gen.emit (xs.map (GV.pos · .enumValue))
      | some _ => Gen.unsupported
      | none =>
        match Json.lookup "const" kvs with
        | some c => Gen.emit [GV.pos c .constValue]
        | none =>
          match ty with
          | none => Gen.nil
          | some t =>
            if t == "null" then Gen.emit [GV.pos .null .nullValue]
            else if t == "boolean" then Gen.emit [GV.pos (.bool true) .validBoolean, GV.pos (.bool false) .validBoolean]
            else if t == "string" then positiveString vs.strCross pctx kvs
            else if t == "integer" || t == "number" then positiveNumber vs.zero vs.excl vs.cross kvs
            else if t == "array" then positiveArray kvs template
            else if t == "object" then positiveObject vs.minProps (rec pctx) kvs template
            else Gen.nil
    Gen.seq descents (Gen.seq allOfPart own)
  | _, _, _ => Gen.unsupported

/-- `_cover_positive_for_type` -/
def positiveForType (rec : Ctx → Json → Gen) (vs : Vs) (ctx : Ctx) (kvs : List (String × Json)) (ty : Option String) : Gen :=
  if ty == some "object" || ty == some "array" then
    match templateSchema vs.tmplReq TFUEL kvs (ty.getD "") with
    | none => Gen.unsupported
    | some ts =>
      Gen.ask (.schema ts) fun template =>
        if ctx.pos then positiveBlock rec vs ctx kvs ty template else Gen.nil
  else if ctx.pos then positiveBlock rec vs ctx kvs ty .null else Gen.nil

def typesOf? (kvs : List (String × Json)) : Option (List String) :=
  match Json.lookup "type" kvs with
  | none => some []
  | some v => typeList? v

def coverCore (rec : Ctx → Json → Gen) (vs : Vs) (ctx : Ctx) (kvs : List (String × Json)) (types : List String) : Gen :=
  Gen.seq (if types.isEmpty then Gen.guard (positiveForType rec vs ctx kvs none) else Gen.nil)
    (Gen.seq (Gen.forEach types fun ty => Gen.guard (positiveForType rec vs ctx kvs (some ty)))
      (if ctx.neg then
         Gen.scopedTmpl (Gen.forEach kvs fun (key, value) => Gen.guard (negArm rec vs.excl vs.addProps vs.tmplReq (ctx.at key) kvs types key value))
       else Gen.nil))

/-- the body of cover_schema_iter with the recursive call as a parameter (uses the current `seen` set) -/
def coverBody (rec : Ctx → Json → Gen) (vs : Vs) (ctx : Ctx) (schema : Json) : Gen :=
  match schema with
  | .bool b =>
    -- site `falseSchema` (F40): repaired, `false` yields nothing (no positive value exists, no keyword to negate)
    if !b && vs.falseSchema == .repaired then Gen.nil
    else coverCore rec vs ctx [] ["null", "boolean", "string", "number", "array", "object"]
  | .obj kvs =>
    if hasKey kvs "examples" && hasKey kvs "properties" then Gen.unsupported    -- push_examples_to_properties mutates
    else match typesOf? kvs with
      | none => Gen.unsupported
      | some types => coverCore rec vs ctx kvs types
  | _ => Gen.unsupported

/-- `cover_schema_iter(ctx, schema, seen)` with `seen` = the current `St.seen` (fuel bounds schema nesting) -/
def cover : Nat → Vs → Ctx → Json → Gen
  | 0, _, _, _ => Gen.unsupported
  | fuel + 1, vs, ctx, schema => coverBody (cover fuel vs) vs ctx schema

/-- `cover_schema_iter(ctx, schema)` -/
def coverTop (fuel : Nat) (vs : Vs) (ctx : Ctx) (schema : Json) : Gen := Gen.freshSeen (cover fuel vs ctx schema)

end SV.Model.C03
