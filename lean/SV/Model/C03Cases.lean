/-
  Model of the coverage-phase case assembly (C03), part 2: labels of whole cases.
  Python anchors (src/schemathesis/generation/hypothesis/builder.py):
    Template.add_parameter / set_body / unmodified / with_body / with_parameter / with_container,
    _iter_coverage_cases (body block incl. the `next_value` loop, default positive case, per-parameter loop,
    unexpected methods, duplicate query parameters, missing required parameters, the three combination blocks
    with `_yield_negative`).
  Inputs are what the real run observed of its collaborators: the labelled values each `cover_schema_iter` call
  yielded (per parameter, per body alternative, per `_yield_negative` call, in call order), the operation's
  parameter list (iter_parameters order) and the list of undocumented methods.
  Values themselves are abstracted to their labels: a case is (mode, components, contents-by-label, phase data).
  Core Lean only.
-/
import SV.Model.C03

namespace SV.Model.C03
open SV

/-- `ComponentKind` -/
inductive Kind where
  | query | pathParameters | headers | cookies | body
  deriving DecidableEq, Repr

/-- `LOCATION_TO_CONTAINER` -/
def kindOfLocation (loc : String) : Option Kind :=
  if loc == "query" then some .query
  else if loc == "path" then some .pathParameters
  else if loc == "header" then some .headers
  else if loc == "cookie" then some .cookies
  else if loc == "body" then some .body
  else none

/-- a labelled value as the case assembly sees it -/
structure LV where
  mode : Mode
  desc : Desc
  param : Option String := none
  deriving Repr

structure ParamIn where
  location : String
  name : String
  required : Bool
  values : List LV            -- everything cover_schema_iter yielded for this parameter
  deriving Repr

structure BodyIn where
  mediaType : String
  values : List LV
  deriving Repr

structure OpIn where
  params : List ParamIn       -- operation.iter_parameters(): path, headers, cookies, query
  hasBody : Bool              -- bool(operation.body)
  bodies : List BodyIn
  methods : List String       -- sorted(unexpected_methods - documented methods of the path), upper-cased
  pos : Bool
  neg : Bool
  negCalls : List (List LV)   -- yields of the cover_schema_iter calls made by `_yield_negative`, in call order
  deriving Repr

/-- one named value inside a container, with the label of the generated value it came from -/
structure Slot where
  name : String
  mode : Mode
  deriving Repr, DecidableEq

/-- what a container of a case holds, by label -/
inductive Content where
  | slots (xs : List Slot)                        -- template values, possibly one replaced by the varied value
  | duplicated (xs : List Slot) (name : String)   -- one query parameter sent twice
  | removed (xs : List Slot) (name : String)      -- one required parameter removed
  | generated (mode : Mode)                       -- a whole container produced by cover_schema_iter (`_yield_negative`)
  | bodyValue (mode : Mode)
  deriving Repr

inductive CaseDesc where
  | value (d : Desc)
  | defaultPositive
  | unspecifiedMethod (m : String)
  | duplicate (name : String)
  | missing (name : String) (location : String)
  | onlyRequired
  | requiredAndOptional (name : String)
  | requiredAndN (size : Nat)
  deriving Repr

structure Case where
  method : Option String        -- `some m`: sent with an undocumented HTTP method
  mode : Mode                   -- meta.generation.mode
  comps : List (Kind × Mode)    -- meta.components
  contents : List (Kind × Content)
  desc : CaseDesc
  parameter : Option String
  parameterLocation : Option String
  deriving Repr

/-! ## Template -/

structure Template where
  comps : List (Kind × Mode) := []
  conts : List (Kind × List Slot) := []
  body : Option Mode := none          -- `"body" in template`
  deriving Repr

def setAssoc [DecidableEq α] (k : α) (v : β) : List (α × β) → List (α × β)
  | [] => [(k, v)]
  | (k', v') :: rest => if k' = k then (k', v) :: rest else (k', v') :: setAssoc k v rest

def getAssoc [DecidableEq α] (k : α) : List (α × β) → Option β
  | [] => none
  | (k', v) :: rest => if k' = k then some v else getAssoc k rest

def setSlot (name : String) (mode : Mode) : List Slot → List Slot
  | [] => [⟨name, mode⟩]
  | s :: rest => if s.name == name then ⟨name, mode⟩ :: rest else s :: setSlot name mode rest

/-- `Template.add_parameter` -/
def Template.addParameter (t : Template) (kind : Kind) (name : String) (v : LV) : Template :=
  let comps := match getAssoc kind t.comps with
    | none => setAssoc kind v.mode t.comps
    | some _ => if v.mode = .negative then setAssoc kind .negative t.comps else t.comps
  let cont := (getAssoc kind t.conts).getD []
  { t with comps := comps, conts := setAssoc kind (setSlot name v.mode cont) t.conts }

/-- `Template.set_body` -/
def Template.setBody (t : Template) (v : LV) : Template :=
  { t with body := some v.mode, comps := setAssoc .body v.mode t.comps }

def Template.contents (t : Template) : List (Kind × Content) :=
  (t.conts.map fun (k, xs) => (k, Content.slots xs)) ++
  (match t.body with | some m => [(Kind.body, Content.bodyValue m)] | none => [])

/-- `Template.with_body` -/
def Template.withBody (t : Template) (v : LV) : List (Kind × Mode) × List (Kind × Content) :=
  (setAssoc .body v.mode t.comps,
   (t.conts.map fun (k, xs) => (k, Content.slots xs)) ++ [(Kind.body, Content.bodyValue v.mode)])

/-- `Template.with_container` -/
def Template.withContainer (t : Template) (kind : Kind) (c : Content) (mode : Mode) :
    List (Kind × Mode) × List (Kind × Content) :=
  (setAssoc kind mode t.comps, setAssoc kind c t.contents)

/-! ## `_iter_coverage_cases` -/

/-- the parameter loop: first value of every generator goes into the template -/
def buildTemplate : List ParamIn → Template → Option Template
  | [], t => some t
  | p :: rest, t =>
    match p.values with
    | [] => buildTemplate rest t
    | v :: _ =>
      match kindOfLocation p.location with
      | none => none
      | some k => buildTemplate rest (t.addParameter k p.name v)

def mkCase (mode : Mode) (cc : List (Kind × Mode) × List (Kind × Content)) (desc : CaseDesc)
    (parameter parameterLocation : Option String) (method : Option String := none) : Case :=
  ⟨method, mode, cc.1, cc.2, desc, parameter, parameterLocation⟩

/-- the body block; `vb`: the body-label site (F8: the 2nd…n-th case is labelled with the first value's mode) -/
def bodyCases (vb : Variant) : List BodyIn → Template → List Case × Template
  | [], t => ([], t)
  | b :: rest, t =>
    match b.values with
    | [] => bodyCases vb rest t
    | v :: more =>
      let t' := if t.body.isNone then t.setBody v else t
      let first := mkCase v.mode (t'.withBody v) (.value v.desc) (some b.mediaType) (some "body")
      let others := more.map fun nv =>
        mkCase (match vb with | .asFound => v.mode | .repaired => nv.mode) (t'.withBody nv) (.value nv.desc)
          (some b.mediaType) (some "body")
      let r := bodyCases vb rest t'
      (first :: others ++ r.1, r.2)

/-- `template.with_parameter` for every remaining value of every generator -/
def parameterCases (t : Template) : List ParamIn → Option (List Case)
  | [] => some []
  | p :: rest =>
    match p.values with
    | [] => parameterCases t rest
    | _ :: more =>
      match kindOfLocation p.location, parameterCases t rest with
      | some k, some tail =>
        match getAssoc k t.conts with
        | none => none
        | some cont =>
          some (more.map (fun v =>
            mkCase v.mode (t.withContainer k (.slots (setSlot p.name v.mode cont)) v.mode) (.value v.desc)
              (some p.name) (some p.location)) ++ tail)
      | _, _ => none

def methodCases (t : Template) (methods : List String) : List Case :=
  methods.map fun m => mkCase .negative (t.comps, t.contents) (.unspecifiedMethod m) none none (some m)

/-- duplicate query parameters; `none`: `template["query"]` KeyError -/
def duplicateCases (t : Template) (query : List ParamIn) : Option (List Case) :=
  if query.isEmpty then some [] else
  match getAssoc Kind.query t.conts with
  | none => none
  | some cont =>
    some (query.filterMap fun p =>
      if cont.any (·.name == p.name) then
        some (mkCase .negative (t.withContainer .query (.duplicated cont p.name) .negative) (.duplicate p.name)
                (some p.name) (some "query"))
      else none)

/-- missing required parameters; `none`: `template[container_name]` KeyError -/
def missingCases (t : Template) : List ParamIn → Option (List Case)
  | [] => some []
  | p :: rest =>
    if p.required && p.location != "path" then
      match kindOfLocation p.location, missingCases t rest with
      | some k, some tail =>
        match getAssoc k t.conts with
        | none => none
        | some cont =>
          some (mkCase .negative (t.withContainer k (.removed (cont.filter (·.name != p.name)) p.name) .negative)
                  (.missing p.name p.location) (some p.name) (some p.location) :: tail)
      | _, _ => none
    else missingCases t rest

/-- cases of one `_yield_negative` call: everything but "Missing required property …" -/
def yieldNegative (t : Template) (kind : Kind) (location : String) (vals : List LV) : List Case :=
  (vals.filter fun v => match v.desc with | .missingRequired _ => false | _ => true).map fun v =>
    mkCase .negative (t.withContainer kind (.generated .negative) .negative) (.value v.desc) v.param (some location)

def takeCall : List (List LV) → List LV × List (List LV)
  | [] => ([], [])
  | c :: rest => (c, rest)

def insertSortedS (s : String) : List String → List String
  | [] => [s]
  | x :: rest => if s < x then s :: x :: rest else if s == x then x :: rest else x :: insertSortedS s rest

def sortedSet (xs : List String) : List String := xs.foldl (fun acc x => insertSortedS x acc) []

/-- `itertools.combinations(xs, k)` -/
def combinations : List α → Nat → List (List α)
  | _, 0 => [[]]
  | [], _ + 1 => []
  | x :: rest, k + 1 => (combinations rest k).map (x :: ·) ++ combinations rest (k + 1)

/-- step 2 of the combination block, threading the `_yield_negative` calls -/
def optionalCombos (t : Template) (kind : Kind) (location : String) (base : List Slot) (required : List String)
    (pos neg : Bool) : List String → List (List LV) → List Case × List (List LV)
  | [], calls => ([], calls)
  | opt :: rest, calls =>
    let combo := base.filter fun s => required.contains s.name || s.name == opt
    if combo.length != base.length && pos then
      let c := mkCase .positive (t.withContainer kind (.slots combo) .positive) (.requiredAndOptional opt) none (some location)
      if neg then
        let r := optionalCombos t kind location base required pos neg rest (takeCall calls).2
        (c :: yieldNegative t kind location (takeCall calls).1 ++ r.1, r.2)
      else
        let r := optionalCombos t kind location base required pos neg rest calls
        (c :: r.1, r.2)
    else optionalCombos t kind location base required pos neg rest calls

/-- the combination block of one location -/
def comboBlock (t : Template) (location : String) (pset : List ParamIn) (pos neg : Bool) (calls : List (List LV)) :
    Option (List Case × List (List LV)) :=
  if pset.isEmpty then some ([], calls) else
  match kindOfLocation location with
  | none => none
  | some kind =>
    let base := (getAssoc kind t.conts).getD []
    let required := sortedSet ((pset.filter (·.required)).map (·.name))
    let all := sortedSet (pset.map (·.name))
    let optional := all.filter fun n => !(required.contains n)
    -- 1. only required
    let step1 : List Case × List (List LV) :=
      if !required.isEmpty && all != required then
        let only := base.filter fun s => required.contains s.name
        let p := if pos then [mkCase .positive (t.withContainer kind (.slots only) .positive) .onlyRequired none (some location)] else []
        if neg then (p ++ yieldNegative t kind location (takeCall calls).1, (takeCall calls).2)
        else (p, calls)
      else ([], calls)
    -- 2. required + one optional
    let step2 := optionalCombos t kind location base required pos neg optional step1.2
    -- 3. one combination per size 2 … N-1
    let step3 : List Case :=
      if optional.length > 1 && pos then
        ((List.range (optional.length - 2)).map (· + 2)).flatMap fun size =>
          (combinations optional size).filterMap fun sel =>
            let combo := base.filter fun s => required.contains s.name || sel.contains s.name
            if combo.length != base.length then
              some (mkCase .positive (t.withContainer kind (.slots combo) .positive) (.requiredAndN size) none (some location))
            else none
      else []
    some (step1.1 ++ step2.1 ++ step3, step2.2)

/-- `_iter_coverage_cases`; `none`: the real function raises KeyError (a location whose parameters all lack values) -/
def iterCases (vb : Variant) (inp : OpIn) : Option (List Case) :=
  match buildTemplate inp.params {} with
  | none => none
  | some t0 =>
    let bodyPart : List Case × Template :=
      if inp.hasBody then bodyCases vb inp.bodies t0
      else if inp.pos then ([mkCase .positive (t0.comps, t0.contents) .defaultPositive none none], t0)
      else ([], t0)
    let t := bodyPart.2
    let query := inp.params.filter (·.location == "query")
    let headers := inp.params.filter (·.location == "header")
    let cookies := inp.params.filter (·.location == "cookie")
    match parameterCases t inp.params with
    | none => none
    | some pcs =>
      let negPart : Option (List Case) :=
        if inp.neg then
          match duplicateCases t query, missingCases t inp.params with
          | some d, some m => some (methodCases t inp.methods ++ d ++ m)
          | _, _ => none
        else some []
      match negPart with
      | none => none
      | some ncs =>
        match comboBlock t "query" query inp.pos inp.neg inp.negCalls with
        | none => none
        | some (c1, calls1) =>
          match comboBlock t "header" headers inp.pos inp.neg calls1 with
          | none => none
          | some (c2, calls2) =>
            match comboBlock t "cookie" cookies inp.pos inp.neg calls2 with
            | none => none
            | some (c3, _) => some (bodyPart.1 ++ pcs ++ ncs ++ c1 ++ c2 ++ c3)

/-! ## wire tokens -/
def Kind.render : Kind → String
  | .query => "query" | .pathParameters => "path_parameters" | .headers => "headers" | .cookies => "cookies" | .body => "body"

def CaseDesc.render : CaseDesc → String
  | .value d => d.render
  | .defaultPositive => "default-positive"
  | .unspecifiedMethod m => "unspecified-method:" ++ m
  | .duplicate n => "duplicate:" ++ n
  | .missing n l => "missing:" ++ n ++ ":" ++ l
  | .onlyRequired => "only-required"
  | .requiredAndOptional n => "required-and-optional:" ++ n
  | .requiredAndN k => "required-and-n:" ++ toString k

end SV.Model.C03
