/-
  Model of the coverage-phase case assembly (C03), part 3: the operation's document context.
  Where `_iter_coverage_cases` reads the API description itself rather than the values of `cover_schema_iter`:
    * `operation.schema[operation.path]`            BaseOpenAPISchema._get_operation_map → _resolve_path_item (a path
                                                    item given as `$ref` is replaced by what the reference resolves
                                                    to) → MethodMap over CaseInsensitiveDict(path_item): iterating it
                                                    gives EVERY key of the resolved path item (methods, `parameters`,
                                                    `summary`, `x-…`)
    * `unexpected_methods or {…7 methods…}`         GenerationConfig.unexpected_methods (None and the empty set both
                                                    select the default; HEAD is not in the default)
    * `sorted(unexpected_methods - set(map))`       one 'Unspecified HTTP method' case per remaining method
    * `operation.iter_parameters()`                 MethodMap._init_operation → _collect_operation_parameters →
                                                    merge_parameters(own, shared) (operation-level declarations, then the
                                                    path-level ones they do not override by (name, in)) →
                                                    APIOperation.add_parameter per location →
                                                    chain(path_parameters, headers, cookies, query)
  The document is an input in the shape the description has it (the raw `paths` entry, the section path-item
  references point into, parameter declarations per level); everything else is computed here.
  Methods are lower-case tokens throughout (the real code upper-cases them for `Case.method` and for the description).
  Core Lean only.
-/
import SV.Model.C03Cases

namespace SV.Model.C03
open SV

/-- a parameter declaration (after the declaration's own `$ref`, if any, is resolved) -/
structure Decl where
  name : String
  loc : String          -- "path" | "header" | "cookie" | "query"
  required : Bool
  deriving Repr, DecidableEq

/-- a Path Item Object -/
structure PathItem where
  keys : List String                    -- every key of the mapping, in document order
  shared : List Decl                    -- path_item["parameters"] ([] when the key is absent)
  own : List (String × List Decl)       -- method key → operation["parameters"] ([] when the key is absent)
  deriving Repr

/-- `raw_schema["paths"][path]` -/
inductive PathEntry where
  | inline (item : PathItem)
  | ref (name : String)                 -- {"$ref": "#/<section>/<name>"}
  deriving Repr

structure Doc where
  entry : PathEntry
  pathItems : List (String × PathItem)  -- the section path-item references resolve into
  deriving Repr

/-- `_resolve_path_item` (`none`: the reference does not resolve — RefResolutionError, no operation to test) -/
def resolvePathItem (d : Doc) : Option PathItem :=
  match d.entry with
  | .inline item => some item
  | .ref name => getAssoc name d.pathItems

/-- `set(operation.schema[operation.path])`: the keys of the resolved path item -/
def operationMapKeys (item : PathItem) : List String := item.keys

def defaultUnexpected : List String := ["get", "put", "post", "delete", "options", "patch", "trace"]

/-- `unexpected_methods or {...}` -/
def effectiveUnexpected : Option (List String) → List String
  | none => defaultUnexpected
  | some [] => defaultUnexpected
  | some xs => xs

/-- `sorted(unexpected_methods - set(operation.schema[operation.path]))` -/
def unexpectedMethods (item : PathItem) (cfg : Option (List String)) : List String :=
  sortedSet ((effectiveUnexpected cfg).filter fun m => !(operationMapKeys item).contains m)

def sameParam (a b : Decl) : Bool := a.name == b.name && a.loc == b.loc

/-- `merge_parameters` -/
def mergeParameters (own shared : List Decl) : List Decl :=
  own ++ shared.filter fun s => !(own.any fun o => sameParam o s)

/-- `chain(path_parameters, headers, cookies, query)` after `add_parameter` filed every declaration by location -/
def iterParameters (ds : List Decl) : List Decl :=
  ds.filter (·.loc == "path") ++ ds.filter (·.loc == "header") ++ ds.filter (·.loc == "cookie") ++
  ds.filter (·.loc == "query")

/-- the declarations `operation.iter_parameters()` visits for the operation `method` of the path item -/
def operationParameters (item : PathItem) (method : String) : List Decl :=
  iterParameters (mergeParameters ((getAssoc method item.own).getD []) item.shared)

/-- what one run of `_iter_coverage_cases(operation, modes, unexpected_methods)` depends on -/
structure DocIn where
  doc : Doc
  opMethod : String                     -- the operation is `schema[path][opMethod]`
  cfg : Option (List String)            -- GenerationConfig.unexpected_methods
  streams : List (List LV)              -- yields of the per-parameter cover_schema_iter calls, in iter_parameters order
  hasBody : Bool
  bodies : List BodyIn
  pos : Bool
  neg : Bool
  negCalls : List (List LV)
  deriving Repr

def zipStreams : List Decl → List (List LV) → List ParamIn
  | [], _ => []
  | d :: ds, [] => ⟨d.loc, d.name, d.required, []⟩ :: zipStreams ds []
  | d :: ds, s :: ss => ⟨d.loc, d.name, d.required, s⟩ :: zipStreams ds ss

/-- the operation as `_iter_coverage_cases` sees it (`none`: the path item cannot be resolved or does not have the
    method — `schema[path][method]` raises, there is nothing to run) -/
def toOpIn (x : DocIn) : Option OpIn :=
  match resolvePathItem x.doc with
  | none => none
  | some item =>
    if (operationMapKeys item).contains x.opMethod then
      some { params := zipStreams (operationParameters item x.opMethod) x.streams,
             hasBody := x.hasBody, bodies := x.bodies,
             methods := unexpectedMethods item x.cfg,
             pos := x.pos, neg := x.neg, negCalls := x.negCalls }
    else none

/-- `_iter_coverage_cases` on an operation of a document; outer `none`: no such operation -/
def iterCasesDoc (vb : Variant) (x : DocIn) : Option (Option (List Case)) :=
  (toOpIn x).map (iterCases vb)

/-! ## the consumers of the labels (src/schemathesis/specs/openapi/checks.py)

  `negative_data_rejection`, `positive_data_acceptance`, `missing_required_header`, `unsupported_method`, as functions
  of what they read of a coverage-phase case (label, description class, parameter, parameter location) and of the
  response (status, `Allow` header, method of the request).  `true` = the check FAILS.
  `has_only_additional_properties_in_non_body_parameters` validates real values: its answer is an input. -/

structure Resp where
  status : Nat
  hasAllow : Bool
  requestMethod : String      -- response.request.method (upper case)
  deriving Repr

/-- `is_unexpected_http_status_case` -/
def isUnexpectedMethodCase (c : Case) : Bool :=
  match c.desc with
  | .unspecifiedMethod _ => true
  | _ => false

/-- `expand_status_codes(NegativeDataRejectionConfig().allowed_statuses)` -/
def negativeAllowed (s : Nat) : Bool := [400, 401, 403, 404, 406, 422, 428].contains s || (500 ≤ s && s < 600)

/-- `expand_status_codes(PositiveDataAcceptanceConfig().allowed_statuses)` -/
def positiveAllowed (s : Nat) : Bool := (200 ≤ s && s < 300) || [401, 403, 404].contains s

def negativeDataRejectionFails (c : Case) (r : Resp) (onlyAdditional : Bool) : Bool :=
  !isUnexpectedMethodCase c && c.mode == Mode.negative && !negativeAllowed r.status && !onlyAdditional

def positiveDataAcceptanceFails (c : Case) (r : Resp) : Bool :=
  !isUnexpectedMethodCase c && c.mode == Mode.positive && !positiveAllowed r.status

/-- which descriptions `missing_required_header` takes for "a header was removed".
    `vh` (FC03a): as found it tests `description.startswith("Missing ")`, which also matches the value-level description
    'Missing required property: …' of an object-typed header parameter (the header is sent, its value lacks a
    property); repaired: only the case-level 'Missing `name` at location'. -/
def descReadAsMissing (vh : Variant) : CaseDesc → Bool
  | .missing _ _ => true
  | .value (.missingRequired _) => (match vh with | .asFound => true | .repaired => false)
  | _ => false

/-- `missing_required_header`; `allowed`: the expanded MissingRequiredHeaderConfig (default [406]) -/
def missingRequiredHeaderFails (vh : Variant) (c : Case) (r : Resp) (allowed : List Nat) : Bool :=
  !isUnexpectedMethodCase c &&
  (match c.parameter with | some p => p != "" | none => false) && c.parameterLocation == some "header" &&
  descReadAsMissing vh c.desc &&
  !((if (c.parameter.getD "").toList.map Char.toLower == "authorization".toList then [401] else allowed).contains r.status)

/-- `unsupported_method` -/
def unsupportedMethodFails (c : Case) (r : Resp) : Bool :=
  r.requestMethod != "OPTIONS" && isUnexpectedMethodCase c && (r.status != 405 || !r.hasAllow)

end SV.Model.C03
