/-
  Model of the response-conformance checks (C04).  Core Lean only.
  Python anchors (src/schemathesis):
    specs/openapi/utils.py    : expand_status_code
    specs/openapi/checks.py   : status_code_conformance, _expand_responses, content_type_conformance,
                                response_headers_conformance, _coerce_header_value, response_schema_conformance
    core/media_types.py       : _parseparam (first field), _parse_header (key), parse, is_json
    core/__init__.py          : string_to_boolean
    specs/openapi/schemas.py  : _get_response_definitions, get_headers, get_content_types (2.0 / 3.x),
                                get_response_schema (2.0 / 3.x), validate_response, _maybe_raise_one_or_more
    specs/openapi/parameters.py : OpenAPIParameter.transform_keywords (`setdefault("type", "string")` for headers)
    checks.py                 : run_checks (collection of Failure / FailureGroup, other exceptions propagate)

  Text is `List Char`.  JSON-Schema validation (`jsonschema.validate` of the converted schema, third party) is the
  parameter `V schema instance`; drivers instantiate it with the shared reference semantics `validF`.

  Defect sites carry a `Variant` (`.asFound` = what the pinned tree does, `.repaired` = the proposed repair):
    lookup  : `_get_response_definitions` / `validate_response` find a response by exact key or `default` only,
              wildcard keys (`2XX`) are never consulted                                              (F11, part i)
    media   : `get_response_schema` (3.x) always takes the FIRST media type's schema                 (F11, part ii)
    hdrRef  : the `required` flag of a `$ref`'d header definition is read off the unresolved reference
    ctError : a malformed Content-Type makes `media_types.is_json` raise ValueError out of `validate_response`
    hdrKw   : `OpenAPI30Parameter.supported_jsonschema_keywords` (the OpenAPI 3.0 Schema Object) filters the header
              schema of OpenAPI 3.1 documents too: `const` (JSON Schema 2020-12) is dropped before validation
    hdrType : the type that drives the string coercion of a header value is read off the top level of the
              converted, unresolved schema (`nullable` already rewritten to `anyOf`, `$ref` not followed, `type`
              defaulted to "string" beside them, type lists not understood)

  Format checking (`format_checker=` of the two `jsonschema.validate` calls) is part of the model: `Draft.formats`
  transcribes which format names each `<Draft>Validator.FORMAT_CHECKER` of jsonschema knows, `checkerFmt` is
  `FormatChecker.conforms`, `headerChecker` / `bodyChecker` say which checker the code hands over (the 2020-12 one,
  whatever the document's own validator class is).  The truth of "string s conforms to format f" stays an oracle `F`.

  Domain restrictions (stated as hypotheses / generator restrictions, never silently): characters are ASCII
  (`str.upper/lower/strip` on non-ASCII text differ), `int()` / `float()` are modelled on the grammar
  `[+-]?[0-9]+` / `[+-]?[0-9]+(\.[0-9]+)?` (Python additionally accepts `_`, surrounding blanks, exponents, inf/nan).
-/
import SV.Json

namespace SV.Model.C04
open SV

inductive Variant where
  | asFound | repaired
  deriving Repr, DecidableEq

structure Variants where
  lookup : Variant
  media : Variant
  hdrRef : Variant
  ctError : Variant
  hdrKw : Variant
  hdrType : Variant
  deriving Repr, DecidableEq

def Variants.allRepaired : Variants := ⟨.repaired, .repaired, .repaired, .repaired, .repaired, .repaired⟩
def Variants.allAsFound : Variants := ⟨.asFound, .asFound, .asFound, .asFound, .asFound, .asFound⟩

/-! ## text helpers (ASCII) -/

def lower (s : List Char) : List Char := s.map Char.toLower
def upper (s : List Char) : List Char := s.map Char.toUpper

/-- `str.isspace` on ASCII: TAB LF VT FF CR, FS GS RS US, SPACE -/
def isSpace (c : Char) : Bool :=
  c == ' ' || (9 ≤ c.toNat && c.toNat ≤ 13) || (28 ≤ c.toNat && c.toNat ≤ 31)

def lstrip (s : List Char) : List Char := s.dropWhile isSpace
def rstrip (s : List Char) : List Char := (s.reverse.dropWhile isSpace).reverse
/-- `str.strip()` -/
def strip (s : List Char) : List Char := rstrip (lstrip s)

def count (c : Char) : List Char → Nat
  | [] => 0
  | x :: xs => (if x == c then 1 else 0) + count c xs

/-- `s.count('\\"')`: non-overlapping occurrences of backslash-quote -/
def countEscQuote : List Char → Nat
  | '\\' :: '"' :: rest => 1 + countEscQuote rest
  | _ :: rest => countEscQuote rest
  | [] => 0

/-- `s.split(c, 1)` when it yields two parts -/
def splitFirst (c : Char) : List Char → Option (List Char × List Char)
  | [] => none
  | x :: xs =>
    if x == c then some ([], xs)
    else match splitFirst c xs with
      | some (a, b) => some (x :: a, b)
      | none => none

def digitVal (c : Char) : Nat := c.toNat - '0'.toNat
def digitChar (d : Nat) : Char := Char.ofNat ('0'.toNat + d)

/-- value of a digit string, most significant first -/
def valOf (s : List Char) : Nat := s.foldl (fun acc c => acc * 10 + digitVal c) 0

/-- `int(s)` on `[0-9]+`; `none` = ValueError -/
def pyIntDigits (s : List Char) : Option Nat :=
  if s.isEmpty || !s.all Char.isDigit then none else some (valOf s)

/-- `str(n)` for a natural number (fuel = n + 1 is always enough) -/
def digitsFuel : Nat → Nat → List Char
  | 0, _ => []
  | fuel + 1, n => if n < 10 then [digitChar n] else digitsFuel fuel (n / 10) ++ [digitChar (n % 10)]

def digitsOf (n : Nat) : List Char := digitsFuel (n + 1) n

/-! ## expand_status_code -/

def digitChars : List Char := ['0', '1', '2', '3', '4', '5', '6', '7', '8', '9']

/-- `list(string.digits) if digit == "X" else [digit]` after `.upper()` (`c.upper() == "X"` iff `c` is `x` or `X`) -/
def choices (c : Char) : List Char := if c == 'X' || c == 'x' then digitChars else [c.toUpper]

/-- `itertools.product(*chars)` in its order (first position varies slowest) -/
def product : List (List Char) → List (List Char)
  | [] => [[]]
  | cs :: rest => cs.flatMap fun c => (product rest).map (c :: ·)

/-- `list(expand_status_code(key))`; `none` = ValueError from `int(...)` -/
def expandStatusCode (key : List Char) : Option (List Nat) :=
  (product (key.map choices)).mapM pyIntDigits

/-! ## media_types.parse -/

/-- `(s.count('"', 0, end) - s.count('\\"', 0, end)) % 2` is odd -/
def oddQuotes (pre : List Char) : Bool := (count '"' pre - countEscQuote pre) % 2 == 1

/-- positions of `;` in `s`, offset by `i` -/
def semis : List Char → Nat → List Nat
  | [], _ => []
  | c :: cs, i => if c == ';' then i :: semis cs (i + 1) else semis cs (i + 1)

/-- end of the first field of `_parseparam(";" + line)`:
    `end = s.find(";"); while end > 0 and odd(s[:end]): end = s.find(";", end + 1); if end < 0: end = len(s)`.
    The loop visits the `;` positions in order and stops at the first one that is 0 or has an even quote count. -/
def keyEnd (s : List Char) : Nat :=
  match (semis s 0).find? (fun e => !(e > 0 && oddQuotes (s.take e))) with
  | some e => e
  | none => s.length

/-- the `key` of `_parse_header(line)` -/
def headerKey (s : List Char) : List Char := strip (s.take (keyEnd s))

/-- `media_types.parse`; `none` = MalformedMediaType (a ValueError) -/
def parseMedia (s : List Char) : Option (List Char × List Char) :=
  match splitFirst '/' (headerKey s) with
  | some (m, t) => some (lower m, lower t)
  | none => none

def endsWith (s suffix : List Char) : Bool := suffix.isPrefixOf (s.drop (s.length - suffix.length)) && suffix.length ≤ s.length

/-- `is_json` on a parsed media type -/
def isJsonMedia (mt : List Char × List Char) : Bool :=
  mt.1 == "application".toList && (mt.2 == "json".toList || endsWith mt.2 "+json".toList)

/-- the four-way test of `content_type_conformance` -/
def rangeMatch (e r : List Char × List Char) : Bool :=
  (e.1 == ['*'] && e.2 == ['*']) || (e.1 == r.1 && e.2 == ['*']) || (e.1 == ['*'] && e.2 == r.2) ||
  (e.1 == r.1 && e.2 == r.2)

/-! ## documents and responses -/

/-- one entry of a 3.x `content` map -/
structure Media where
  name : List Char
  schema : Option Json          -- `"schema" in option`
  deriving Repr

/-- one entry of a response's `headers` map -/
structure HeaderDef where
  name : List Char
  isRef : Bool                  -- the entry is `{"$ref": …}` (fields below are those of the resolved definition)
  required : Bool               -- `required` (3.x) / `x-required` (2.0)
  schema : Json                 -- the header's schema as written (3.x: `schema`; 2.0: the header object itself)
  target : Option Json          -- what the top-level `$ref` of `schema` points to (`none`: `schema` is no reference)
  deriving Repr

/-- a response definition after `resolve_in_scope` -/
structure RespDef where
  content : List Media          -- 3.x, in document order
  schema2 : Option Json         -- 2.0 `schema`
  headers : List HeaderDef
  deriving Repr

structure Doc where
  v2 : Bool                                   -- Swagger 2.0 (else OpenAPI 3.x)
  responses : List (List Char × RespDef)      -- in document order; keys as strings
  produces : List (List Char)                 -- 2.0: operation-level `produces`, else the global one
  v31 : Bool                                  -- OpenAPI 3.1 (only read when `v2` is false)
  deriving Repr

/-- the three document flavours the loader tells apart -/
inductive Flavour where
  | swagger2 | openapi30 | openapi31
  deriving Repr, DecidableEq

def Doc.flavour (doc : Doc) : Flavour :=
  if doc.v2 then .swagger2 else if doc.v31 then .openapi31 else .openapi30

structure Resp where
  status : Nat
  contentType : Option (List Char)            -- `response.headers.get("content-type")[0]`
  headers : List (List Char × List Char)      -- lower-cased name ↦ first value
  body : Option Json                          -- `none`: `response.json()` raises JSONDecodeError
  deriving Repr

inductive Fail where
  | undefinedStatus | missingContentType | malformedMediaType | undefinedContentType
  | missingHeaders | headerSchema | malformedJson | bodySchema
  deriving Repr, DecidableEq

inductive Out where
  | ok (fs : List Fail)         -- the check returned (fs = []) or raised these failures
  | error                       -- a non-Failure exception (ValueError) escaped
  deriving Repr, DecidableEq

/-- the check reported at least one failure (an escaping exception is not a report) -/
def Out.reports : Out → Bool
  | .ok [] => false
  | .ok _ => true
  | .error => false

def Out.isError : Out → Bool
  | .error => true
  | _ => false

def defaultKey : List Char := "default".toList

def findKey (k : List Char) : List (List Char × RespDef) → Option RespDef
  | [] => none
  | (k', d) :: rest => if k == k' then some d else findKey k rest

/-- a key that `status_code_conformance` would accept for this status -/
def keyCovers (k : List Char) (status : Nat) : Bool :=
  match expandStatusCode k with
  | some l => l.contains status
  | none => false

def findCovering (status : Nat) : List (List Char × RespDef) → Option RespDef
  | [] => none
  | (k, d) :: rest => if keyCovers k status then some d else findCovering status rest

/-- `_get_response_definitions` / the lookup at the top of `validate_response` -/
def lookupDef (v : Variant) (doc : Doc) (status : Nat) : Option RespDef :=
  match findKey (digitsOf status) doc.responses with
  | some d => some d
  | none =>
    match v with
    | .asFound => findKey defaultKey doc.responses
    | .repaired =>
      match findCovering status doc.responses with
      | some d => some d
      | none => findKey defaultKey doc.responses

/-! ## status_code_conformance -/

def statusCheck (doc : Doc) (r : Resp) : Out :=
  if (findKey defaultKey doc.responses).isSome then .ok []
  else match doc.responses.mapM (fun kd => expandStatusCode kd.1) with
    | none => .error
    | some ls => if ls.flatten.contains r.status then .ok [] else .ok [.undefinedStatus]

/-! ## content_type_conformance -/

def documentedTypes (vs : Variants) (doc : Doc) (r : Resp) : List (List Char) :=
  if doc.v2 then doc.produces
  else match lookupDef vs.lookup doc r.status with
    | some d => d.content.map (·.name)
    | none => []

/-- the `for option in documented_content_types` loop -/
def ctLoop (ct : List Char) : List (List Char) → List Fail
  | [] => [.undefinedContentType]
  | opt :: rest =>
    match parseMedia opt with
    | none => [.malformedMediaType]
    | some e =>
      match parseMedia ct with
      | none => [.malformedMediaType]
      | some rc => if rangeMatch e rc then [] else ctLoop ct rest

def contentTypeCheck (vs : Variants) (doc : Doc) (r : Resp) : Out :=
  let documented := documentedTypes vs doc r
  if documented.isEmpty then .ok []
  else match r.contentType with
    | none => .ok [.missingContentType]
    | some ct => .ok (ctLoop ct documented)

/-! ## response_headers_conformance -/

def lookupHeader (name : List Char) : List (List Char × List Char) → Option (List Char)
  | [] => none
  | (k, v) :: rest => if k == name then some v else lookupHeader name rest

/-- `definition.setdefault("type", "string")` -/
def headerSchema (s : Json) : Json :=
  match s with
  | .obj kvs => if (Json.lookup "type" kvs).isSome then s else .obj (kvs ++ [("type", .str "string")])
  | _ => s

def schemaType (s : Json) : Option String :=
  match s.get? "type" with
  | some (.str t) => some t
  | _ => none

def normNum (m : Int) : Nat → Int × Nat
  | 0 => (m, 0)
  | e + 1 => if m % 10 == 0 then normNum (m / 10) e else (m, e + 1)

/-- `[+-]?[0-9]+` -/
def pyInt (s : List Char) : Option Int :=
  match s with
  | '-' :: ds => (pyIntDigits ds).map fun n => -(n : Int)
  | '+' :: ds => (pyIntDigits ds).map fun n => (n : Int)
  | ds => (pyIntDigits ds).map fun n => (n : Int)

/-- `[+-]?[0-9]+(\.[0-9]+)?` as an exact decimal -/
def pyFloat (s : List Char) : Option (Int × Nat) :=
  let (neg, body) := match s with
    | '-' :: ds => (true, ds)
    | '+' :: ds => (false, ds)
    | ds => (false, ds)
  let r : Option (Nat × Nat) := match splitFirst '.' body with
    | none => (pyIntDigits body).map fun n => (n, 0)
    | some (ip, fp) =>
      match pyIntDigits ip, pyIntDigits fp with
      | some _, some _ => some (valOf (ip ++ fp), fp.length)
      | _, _ => none
  r.map fun (m, e) => normNum (if neg then -(m : Int) else (m : Int)) e

def truthy : List (List Char) := ["y", "yes", "t", "true", "on", "1"].map String.toList
def falsy : List (List Char) := ["n", "no", "f", "false", "off", "0"].map String.toList

/-- `string_to_boolean` -/
def stringToBoolean (v : List Char) : Json :=
  if truthy.contains (lower v) then .bool true
  else if falsy.contains (lower v) then .bool false
  else .str (String.ofList v)

/-- the coercion `_coerce_header_value` applies for one type name -/
def coerceAs (t : String) (v : List Char) : Json :=
  if t == "integer" then (match pyInt v with | some n => .num n 0 | none => .str (String.ofList v))
  else if t == "number" then (match pyFloat v with | some (m, e) => .num m e | none => .str (String.ofList v))
  else if t == "null" then (if lower v == "null".toList then .null else .str (String.ofList v))
  else if t == "boolean" then stringToBoolean v
  else .str (String.ofList v)

/-- `_coerce_header_value(value, schema)`: driven by `schema.get("type")` when that is a single name -/
def coerceHeader (v : List Char) (schema : Json) : Json :=
  match schemaType schema with
  | some t => coerceAs t v
  | none => .str (String.ofList v)

/-! ### preparation of the header schema: `OpenAPIParameter.as_json_schema` -/

/-- `OpenAPI20Parameter.supported_jsonschema_keywords` -/
def supported2 : List String :=
  ["$ref", "type", "format", "items", "maximum", "exclusiveMaximum", "minimum", "exclusiveMinimum", "maxLength",
   "minLength", "pattern", "maxItems", "minItems", "uniqueItems", "enum", "multipleOf", "example", "examples"]

/-- `OpenAPI30Parameter.supported_jsonschema_keywords` (used for 3.0 and 3.1 alike) -/
def supported3 : List String :=
  ["$ref", "multipleOf", "maximum", "exclusiveMaximum", "minimum", "exclusiveMinimum", "maxLength", "minLength",
   "pattern", "maxItems", "minItems", "uniqueItems", "maxProperties", "minProperties", "required", "enum", "type",
   "allOf", "oneOf", "anyOf", "not", "items", "properties", "additionalProperties", "format", "example", "examples"]

def supported : Flavour → List String
  | .swagger2 => supported2
  | _ => supported3

/-- `nullable_field` -/
def nullableName : Flavour → String
  | .swagger2 => "x-nullable"
  | _ => "nullable"

/-- `key in supported_jsonschema_keywords or key.startswith("x-") or key == nullable_field` -/
def keepKey (fl : Flavour) (k : String) : Bool :=
  (supported fl).contains k || "x-".toList.isPrefixOf k.toList || k == nullableName fl

/-- `from_open_api_to_json_schema` -/
def filterKw (fl : Flavour) (s : Json) : Json :=
  match s with
  | .obj kvs => .obj (kvs.filter fun kv => keepKey fl kv.1)
  | _ => s

def isNullableTrue (fl : Flavour) (kvs : List (String × Json)) : Bool :=
  match Json.lookup (nullableName fl) kvs with
  | some (.bool true) => true
  | _ => false

def typeNull : Json := .obj [("type", .str "null")]

/-- `transform_keywords` as found: `to_json_schema` rewrites a top-level `nullable: true` to `anyOf`, THEN
    `definition.setdefault("type", "string")` runs on the result -/
def convertDefault (fl : Flavour) (s : Json) : Json :=
  match s with
  | .obj kvs =>
    if isNullableTrue fl kvs then
      .obj [("anyOf", .arr [.obj (kvs.filter fun kv => !(kv.1 == nullableName fl)), typeNull]), ("type", .str "string")]
    else headerSchema s
  | _ => s

/-- the header schema the repaired code validates against: headers are strings unless typed; a reference is left
    alone (its target says what it is) -/
def prepSchema (s : Json) : Json :=
  match s with
  | .obj kvs => if (Json.lookup "$ref" kvs).isSome then s else headerSchema s
  | _ => s

/-- the type names a schema documents (`type` is a name or, in 3.1, a list of names) -/
def typeNames (s : Json) : List String :=
  match s.get? "type" with
  | some (.str t) => [t]
  | some (.arr ts) => ts.filterMap Json.str?
  | _ => []

/-- the types a header value may be read as: those of the schema (of the target of its `$ref`), "string" when there
    are none, and "null" in addition when the schema is nullable -/
def docTypes (fl : Flavour) (s : Json) : List String :=
  let ts := if (typeNames s).isEmpty then ["string"] else typeNames s
  match s with
  | .obj kvs => if isNullableTrue fl kvs then ts ++ ["null"] else ts
  | _ => ts

/-- all readings of a header value through the string coercion of the documented types -/
def readings (fl : Flavour) (h : HeaderDef) (v : List Char) : List Json :=
  (docTypes fl (h.target.getD h.schema)).map fun t => coerceAs t v

/-- the flag the missing-header test reads -/
def requiredFlag (v : Variant) (h : HeaderDef) : Bool :=
  match v with
  | .asFound => !h.isRef && h.required      -- `definition.get("required", False)` on `{"$ref": …}` is False
  | .repaired => h.required

def headerMissing (v : Variant) (r : Resp) (h : HeaderDef) : Bool :=
  (lookupHeader (lower h.name) r.headers).isNone && requiredFlag v h

/-- the schema after the keyword filter of the variant in force -/
def keptSchema (v : Variant) (fl : Flavour) (h : HeaderDef) : Json :=
  match v with
  | .asFound => filterKw fl h.schema
  | .repaired => h.schema

/-- the schema `as_json_schema` hands to the validator as found.  A header definition that is itself a `$ref` is
    resolved late and through the ConvertingResolver (the `hdrRef` site), so it arrives already converted: a nullable
    schema is `anyOf` by then and the keyword filter, which looks at the top level only, no longer reaches its keywords -/
def preparedAsFound (ref kw : Variant) (fl : Flavour) (h : HeaderDef) : Json :=
  match ref, h.schema with
  | .asFound, .obj kvs =>
    if h.isRef && isNullableTrue fl kvs then convertDefault fl h.schema else convertDefault fl (keptSchema kw fl h)
  | _, _ => convertDefault fl (keptSchema kw fl h)

/-- a present header value does not validate -/
def valueInvalid (V : Json → Json → Bool) (vs : Variants) (fl : Flavour) (h : HeaderDef) (value : List Char) : Bool :=
  match vs.hdrType with
  | .asFound =>
    !(V (preparedAsFound vs.hdrRef vs.hdrKw fl h) (coerceHeader value (preparedAsFound vs.hdrRef vs.hdrKw fl h)))
  | .repaired => !((readings fl h value).any (V (prepSchema (keptSchema vs.hdrKw fl h))))

def headerInvalid (V : Json → Json → Bool) (vs : Variants) (fl : Flavour) (r : Resp) (h : HeaderDef) : Bool :=
  match lookupHeader (lower h.name) r.headers with
  | some value => valueInvalid V vs fl h value
  | none => false

def headersCheck (V : Json → Json → Bool) (vs : Variants) (doc : Doc) (r : Resp) : Out :=
  match lookupDef vs.lookup doc r.status with
  | none => .ok []
  | some d =>
    .ok ((if d.headers.any (headerMissing vs.hdrRef r) then [.missingHeaders] else []) ++
         (d.headers.filter (headerInvalid V vs doc.flavour r)).map fun _ => .headerSchema)

/-! ## response_schema_conformance = validate_response -/

/-- Python truthiness of a schema value as `if not schema` sees it (only the empty object occurs in documents) -/
def emptySchema : Json → Bool
  | .obj [] => true
  | .null => true
  | .bool false => true
  | _ => false

def firstCovering (rc : List Char × List Char) : List Media → Option Media
  | [] => none
  | m :: rest =>
    match parseMedia m.name with
    | some e => if rangeMatch e rc then some m else firstCovering rc rest
    | none => firstCovering rc rest

/-- `get_response_schema` -/
def selectSchema (v : Variant) (doc : Doc) (d : RespDef) (r : Resp) : Option Json :=
  if doc.v2 then d.schema2
  else
    let first := match d.content with | m :: _ => m.schema | [] => none
    match v with
    | .asFound => first
    | .repaired =>
      match r.contentType with
      | none => first
      | some ct =>
        match parseMedia ct with
        | none => first
        | some rc => match firstCovering rc d.content with
          | some m => m.schema
          | none => none

def validateBody (V : Json → Json → Bool) (S : Json) : Option Json → List Fail
  | none => [.malformedJson]
  | some v => if V S v then [] else [.bodySchema]

def bodyCheck (V : Json → Json → Bool) (vs : Variants) (doc : Doc) (r : Resp) : Out :=
  match lookupDef vs.lookup doc r.status with
  | none => .ok []
  | some d =>
    match selectSchema vs.media doc d r with
    | none => .ok []
    | some S =>
      if emptySchema S then .ok []
      else match r.contentType with
        | none => .ok (.missingContentType :: validateBody V S r.body)
        | some ct =>
          if ct.isEmpty then .ok (validateBody V S r.body)
          else match parseMedia ct with
            | none => (match vs.ctError with | .asFound => .error | .repaired => .ok [])
            | some mt => if isJsonMedia mt then .ok (validateBody V S r.body) else .ok []

/-! ## run_checks over the four checks (what `case.validate_response(response, checks=[…])` collects) -/

def combine : List Out → Out
  | [] => .ok []
  | .error :: _ => .error
  | .ok fs :: rest => match combine rest with
    | .ok gs => .ok (fs ++ gs)
    | .error => .error

def runAll (V : Json → Json → Bool) (vs : Variants) (doc : Doc) (r : Resp) : Out :=
  combine [statusCheck doc r, contentTypeCheck vs doc r, headersCheck V vs doc r, bodyCheck V vs doc r]

/-! ## format checking: `jsonschema.validate(…, cls=validator_cls, format_checker=…)` -/

/-- the `jsonschema` validator classes schemathesis can name; each carries a `FORMAT_CHECKER` -/
inductive Draft where
  | d4 | d6 | d7 | d201909 | d202012
  deriving Repr, DecidableEq

/-- the format names registered for `<Draft>Validator.FORMAT_CHECKER` (jsonschema/_format.py, `_checks_drafts`) -/
def Draft.formats : Draft → List String
  | .d4 => ["email", "idn-email", "ipv4", "ipv6", "hostname", "uri", "date-time", "regex"]
  | .d6 => ["email", "idn-email", "ipv4", "ipv6", "hostname", "uri", "uri-reference", "date-time", "regex",
            "json-pointer", "uri-template"]
  | .d7 => ["email", "idn-email", "ipv4", "ipv6", "hostname", "idn-hostname", "iri", "iri-reference", "uri",
            "uri-reference", "date-time", "time", "regex", "date", "json-pointer", "relative-json-pointer",
            "uri-template"]
  | .d201909 => ["email", "idn-email", "ipv4", "ipv6", "hostname", "idn-hostname", "iri", "iri-reference", "uri",
                 "uri-reference", "date-time", "time", "regex", "date", "json-pointer", "relative-json-pointer",
                 "uri-template", "duration", "uuid"]
  | .d202012 => ["email", "idn-email", "ipv4", "ipv6", "hostname", "idn-hostname", "iri", "iri-reference", "uri",
                 "uri-reference", "date-time", "time", "regex", "date", "json-pointer", "relative-json-pointer",
                 "uri-template", "duration", "uuid"]

/-- `FormatChecker.conforms(v, f)` of draft `d`'s checker over the truth `F` of the format predicates: a name the
    checker does not know conforms -/
def checkerFmt (d : Draft) (F : String → Json → Bool) (f : String) (v : Json) : Bool :=
  !(d.formats.contains f) || F f v

/-- `BaseOpenAPISchema.validator_cls` -/
def validatorCls : Flavour → Draft
  | .openapi31 => .d202012
  | _ => .d4

/-- `format_checker=` in `response_headers_conformance` (checks.py): the 2020-12 checker for every flavour -/
def headerChecker (_ : Flavour) : Draft := .d202012

/-- `format_checker=` in `validate_response` (schemas.py): the 2020-12 checker for every flavour -/
def bodyChecker (_ : Flavour) : Draft := .d202012

/-- the four checks with JSON-Schema validity `W` parametrised by the format predicate it is given -/
def runAllF (W : (String → Json → Bool) → Json → Json → Bool) (F : String → Json → Bool) (vs : Variants) (doc : Doc)
    (r : Resp) : Out :=
  combine [statusCheck doc r, contentTypeCheck vs doc r,
           headersCheck (W (checkerFmt (headerChecker doc.flavour) F)) vs doc r,
           bodyCheck (W (checkerFmt (bodyChecker doc.flavour) F)) vs doc r]

end SV.Model.C04
