/-
  SV.Model.C05Stat — the CLI reporting layer of C05: `Statistic.on_scenario_finished` (the failure store from which the
  FAILURES section, the JUnit report and the failure counters are produced) and `ExecutionContext.on_event`
  (cli/commands/run/context.py).

  Labels, case ids, failures, code samples and responses are abstract identifiers (`Nat`): two failures carry the same
  number iff they are equal under `Failure.__eq__` (class, operation, unique key).  Python dicts are insertion-ordered
  association lists (`ndGet` / `ndSet`).
  Core Lean only.
-/
import SV.Model.Plan

namespace SV.Model.C05Stat
open SV.Model.Engine SV.Model.Plan

/-- `d.get(k)` -/
def ndGet {α : Type} (k : Nat) : List (Nat × α) → Option α
  | [] => none
  | (k', v) :: rest => if k = k' then some v else ndGet k rest

/-- `d[k] = v` on an insertion-ordered dict -/
def ndSet {α : Type} (k : Nat) (v : α) : List (Nat × α) → List (Nat × α)
  | [] => [(k, v)]
  | (k', v') :: rest => if k = k' then (k, v) :: rest else (k', v') :: ndSet k v rest

/-- `CheckNode`: `none` = `failure_info is None`, `some (f, s)` = failure `f` recorded with code sample `s` -/
abbrev Check := Option (Nat × Nat)

/-- one entry of `recorder.cases` together with what the loop reads for it from `recorder.checks` and
    `recorder.interactions` -/
structure CaseRec where
  id : Nat
  checks : List Check
  resp : Option Nat               -- `recorder.interactions[case_id].response`
  deriving Repr, DecidableEq

structure Recorder where
  label : Nat
  cases : List CaseRec            -- `recorder.cases` in insertion order
  deriving Repr, DecidableEq

/-- `GroupedFailures` -/
structure Group where
  caseId : Nat
  sample : Nat
  failures : List Nat
  resp : Option Nat
  deriving Repr, DecidableEq

structure Stat where
  failures : List (Nat × List (Nat × Group)) := []   -- label ↦ (case id ↦ group)
  unique : List (Nat × Nat) := []                    -- `unique_failures_map`: failure ↦ case id where it was first seen
  total : Nat := 0                                   -- `total_cases`
  withFailures : Nat := 0                            -- `cases_with_failures`
  withoutChecks : Nat := 0                           -- `cases_without_checks`
  deriving Repr, DecidableEq

def Stat.init : Stat := {}

/-- `for check in checks:` — the updated `unique_failures_map` and `current_case_failures` (each new failure kept with
    the code sample of its `failure_info`; `last_failure_info` is the last element) -/
def checkLoop (caseId : Nat) : List Check → List (Nat × Nat) → List (Nat × Nat) → List (Nat × Nat) × List (Nat × Nat)
  | [], u, cur => (u, cur)
  | none :: cs, u, cur => checkLoop caseId cs u cur
  | some (f, s) :: cs, u, cur =>
    match ndGet f u with
    | some _ => checkLoop caseId cs u cur
    | none => checkLoop caseId cs (ndSet f caseId u) (cur ++ [(f, s)])

/-- `GroupedFailures(case_id=case_id, code_sample=last_failure_info.code_sample, failures=current_case_failures,
    response=recorder.interactions[case_id].response)`; `sorted(set(..))` only reorders a list without duplicates -/
def mkGroup (c : CaseRec) (cur : List (Nat × Nat)) : Group :=
  ⟨c.id, (cur.getLast?.map (·.2)).getD 0, cur.map (·.1), c.resp⟩

/-- what the `for case_id, case in recorder.cases.items()` loop updates -/
structure Acc where
  unique : List (Nat × Nat)
  groups : List (Nat × Group)       -- the local `failures`
  withFailures : Nat
  withoutChecks : Nat
  deriving Repr, DecidableEq

def caseLoop : List CaseRec → Acc → Acc
  | [], a => a
  | c :: cs, a =>
    if c.checks.isEmpty then caseLoop cs { a with withoutChecks := a.withoutChecks + 1 }
    else
      let r := checkLoop c.id c.checks a.unique []
      if r.2.isEmpty then caseLoop cs { a with unique := r.1 }
      else caseLoop cs { a with unique := r.1, groups := ndSet c.id (mkGroup c r.2) a.groups,
                                withFailures := a.withFailures + 1 }

/-- what the local `failures` starts from: `.stored` is the code (`self.failures.get(recorder.label, {})`), `.empty` the
    class of changes that begin every scenario with a fresh dict -/
inductive Start where
  | stored | empty
  deriving DecidableEq, Repr

/-- `Statistic.on_scenario_finished` restricted to the failure bookkeeping and the case counters -/
def onScenarioFinishedV (v : Start) (st : Stat) (r : Recorder) : Stat :=
  let fs0 := match v with
    | .stored => (ndGet r.label st.failures).getD []
    | .empty => []
  let a := caseLoop r.cases ⟨st.unique, fs0, st.withFailures, st.withoutChecks⟩
  { failures := if a.groups.isEmpty then st.failures else ndSet r.label a.groups st.failures,
    unique := a.unique,
    total := st.total + r.cases.length,
    withFailures := a.withFailures,
    withoutChecks := a.withoutChecks }

def onScenarioFinished (st : Stat) (r : Recorder) : Stat := onScenarioFinishedV .stored st r

/-- the whole history of finished scenarios -/
def runV (v : Start) (h : List Recorder) : Stat := h.foldl (onScenarioFinishedV v) Stat.init

def run (h : List Recorder) : Stat := h.foldl onScenarioFinished Stat.init

/-! ## `ExecutionContext.on_event` -/

/-- the engine stream as the CLI sees it: a plan-level event, where a `ScenarioFinished` additionally carries its
    recorder -/
inductive CEv where
  | scenario (phase id : Nat) (st : Status) (r : Recorder)
  | plain (e : PEv)
  deriving Repr, DecidableEq

/-- forget the recorder: the event of the engine model (SV.Model.Plan) -/
def CEv.erase : CEv → PEv
  | .scenario i k st _ => .inner i (.scenFinished k st)
  | .plain e => e

structure Ctx where
  stat : Stat := {}
  exit : Nat := 0
  deriving Repr, DecidableEq

def onEvent (enabled : Nat → Bool) (c : Ctx) : CEv → Ctx
  | .scenario _ _ _ r => { c with stat := onScenarioFinished c.stat r }
  | .plain (.inner _ (.nonFatal _)) => { c with exit := 1 }
  | .plain (.phaseFinished i st _) => if enabled i && st.failing then { c with exit := 1 } else c
  | .plain _ => c

def ctxRun (enabled : Nat → Bool) (evs : List CEv) : Ctx := evs.foldl (onEvent enabled) {}

/-- the recorders of the stream, in order -/
def recorders : List CEv → List Recorder
  | [] => []
  | .scenario _ _ _ r :: rest => r :: recorders rest
  | .plain _ :: rest => recorders rest

/-! ## `_execute` (cli/commands/run/executor.py): the loop around `on_event` and the handlers, and `sys.exit` -/

inductive Outcome where
  | exit (code : Nat)        -- `sys.exit(code)`
  | raised                   -- an exception leaves `_execute` (the process ends with a traceback, non-zero)
  deriving DecidableEq, Repr

/-- `for event in event_stream: ctx.on_event(event); for handler in handlers: handler.handle_event(ctx, event)`.
    `fault = some (k, abort)`: a handler raises at the k-th event (`click.Abort` if `abort`, which `_execute` turns into
    `sys.exit(1)`; anything else is re-raised).  Returns the outcome and the context the handlers saw last. -/
def execLoop (enabled : Nat → Bool) (fault : Option (Nat × Bool)) : Nat → Ctx → List CEv → Outcome × Ctx
  | _, c, [] => (.exit c.exit, c)
  | i, c, e :: rest =>
    let c' := onEvent enabled c e
    match fault with
    | some (k, abort) =>
      if k = i then (if abort then .exit 1 else .raised, c') else execLoop enabled fault (i + 1) c' rest
    | none => execLoop enabled fault (i + 1) c' rest

def executeCli (enabled : Nat → Bool) (fault : Option (Nat × Bool)) (evs : List CEv) : Outcome × Ctx :=
  execLoop enabled fault 0 {} evs

end SV.Model.C05Stat
