/-
  Model of "the HTTP request on the wire is exactly the generated case" (C06), part 1: the byte layer.
  Python anchors (src/schemathesis):
    specs/openapi/_hypothesis.py : quote_all (urllib.parse.quote_plus)
    transport/prepare.py         : prepare_path (str.format), prepare_url (lstrip, quote, urljoin, unquote)
    schemas.py                   : get_full_path
  and the CPython functions they call: urllib.parse.quote / quote_plus / unquote_to_bytes / urljoin (path part).

  Conventions: a *byte string* is a `List Nat` whose elements are < 256 (the UTF-8 encoding of a Python `str`; the
  UTF-8 codec itself is CPython's / Lean's and is applied by the driver).  Wire text produced by `quote` is ASCII and
  is represented by the same type (ASCII codes).  Core Lean only.
-/
import SV.Json

namespace SV.Model.C06

inductive Variant where
  | asFound | repaired
  deriving Repr, DecidableEq

abbrev Bytes := List Nat

/-! ## urllib.parse.quote / quote_plus / unquote_to_bytes -/

/-- `_ALWAYS_SAFE`: `A-Z a-z 0-9 _ . - ~` -/
def isAlwaysSafe (b : Nat) : Bool :=
  (65 ≤ b && b ≤ 90) || (97 ≤ b && b ≤ 122) || (48 ≤ b && b ≤ 57) || b == 95 || b == 46 || b == 45 || b == 126

/-- upper-case hex digit of `n < 16` (`'%{:02X}'.format`) -/
def hexDigit (n : Nat) : Nat := if n < 10 then 48 + n else 55 + n

/-- `%XX` -/
def pct (b : Nat) : Bytes := [37, hexDigit (b / 16), hexDigit (b % 16)]

/-- `Quoter.__missing__`: a byte is kept iff it is always-safe or in `safe`. -/
def quoteByte (safe : Nat → Bool) (b : Nat) : Bytes :=
  if isAlwaysSafe b || safe b then [b] else pct b

/-- `quote_from_bytes(bs, safe)` -/
def quoteWith (safe : Nat → Bool) : Bytes → Bytes
  | [] => []
  | b :: bs => quoteByte safe b ++ quoteWith safe bs

def safeNone : Nat → Bool := fun _ => false
def safeSlash : Nat → Bool := fun b => b == 47
def safeSpace : Nat → Bool := fun b => b == 32

/-- `quote(s)` with the default `safe='/'` (as used by `prepare_url` / `get_full_path`). -/
def quote (bs : Bytes) : Bytes := quoteWith safeSlash bs

/-- `quote(s, safe='')`. -/
def quoteStrict (bs : Bytes) : Bytes := quoteWith safeNone bs

/-- `quote_plus(s)`: `quote(s, ' ').replace(' ', '+')` when the string contains a space, else `quote(s, '')`. -/
def quotePlus (bs : Bytes) : Bytes :=
  if bs.contains 32 then (quoteWith safeSpace bs).map (fun c => if c == 32 then 43 else c)
  else quoteWith safeNone bs

/-- value of a hex digit (both cases), `none` if not a hex digit (`_hextobyte` keys) -/
def unhex (c : Nat) : Option Nat :=
  if 48 ≤ c && c ≤ 57 then some (c - 48)
  else if 65 ≤ c && c ≤ 70 then some (c - 55)
  else if 97 ≤ c && c ≤ 102 then some (c - 87)
  else none

/-- `unquote_to_bytes`: every `%XX` with two hex digits becomes one byte; any other `%` stays literally. -/
def unquote : Bytes → Bytes
  | [] => []
  | 37 :: h :: l :: rest =>
    match unhex h, unhex l with
    | some a, some b => (16 * a + b) :: unquote rest
    | _, _ => 37 :: unquote (h :: l :: rest)
  | c :: rest => c :: unquote rest

/-! ## quote_all -/

/-- A value of the `path_parameters` container after style serialisation. -/
inductive PVal where
  | str (bs : Bytes)
  | int (i : Int)
  | bool (b : Bool)
  | null
  deriving Repr, DecidableEq

/-- `quote_all` on one value: only `str` values are touched; "." and ".." are spelled `%2E`, `%2E%2E`; everything
    else goes through `quote_plus` (as found) or `quote(value, safe="")` (repaired). -/
def quoteAllStr (v : Variant) (bs : Bytes) : Bytes :=
  if bs == [46] then [37, 50, 69]
  else if bs == [46, 46] then [37, 50, 69, 37, 50, 69]
  else match v with
    | .asFound => quotePlus bs
    | .repaired => quoteStrict bs

def quoteAll (v : Variant) : PVal → PVal
  | .str bs => .str (quoteAllStr v bs)
  | x => x

/-- `jsonify_python_specific_types` on one top-level value of the container. -/
def jsonifyTop : PVal → PVal
  | .bool true => .str [116, 114, 117, 101]          -- "true"
  | .bool false => .str [102, 97, 108, 115, 101]     -- "false"
  | .null => .str [110, 117, 108, 108]               -- "null"
  | x => x

def natDigits (n : Nat) : Bytes := (Nat.toDigits 10 n).map Char.toNat

def intStr (i : Int) : Bytes :=
  match i with
  | .ofNat n => natDigits n
  | .negSucc n => 45 :: natDigits (n + 1)

/-- what `str.format` writes for a value (`format(v, "")` = `str(v)`) -/
def formatVal : PVal → Bytes
  | .str bs => bs
  | .int i => intStr i
  | .bool true => [84, 114, 117, 101]                -- "True"
  | .bool false => [70, 97, 108, 115, 101]           -- "False"
  | .null => [78, 111, 110, 101]                     -- "None"

/-! ## prepare_path: `path.format(**parameters)` on the template fragment `str.format` and OpenAPI share -/

/-- a parsed path template: literal text and `{name}` fields (no `{{`, `}}`, conversions or format specs) -/
inductive Piece where
  | lit (bs : Bytes)
  | var (name : Bytes)
  deriving Repr, DecidableEq

def lookup (k : Bytes) : List (Bytes × PVal) → Option PVal
  | [] => none
  | (k', v) :: rest => if k == k' then some v else lookup k rest

/-- `none` = `KeyError` → `InvalidSchema("Path parameter … is not defined")` -/
def preparePath : List Piece → List (Bytes × PVal) → Option Bytes
  | [], _ => some []
  | .lit bs :: rest, ps => (preparePath rest ps).map (bs ++ ·)
  | .var n :: rest, ps =>
    match lookup n ps with
    | none => none
    | some v => (preparePath rest ps).map (formatVal v ++ ·)

/-- the value pipeline of one generated path parameter: `.map(quote_all).map(jsonify_python_specific_types)` and then
    `str.format` -/
def pathSegment (v : Variant) (x : PVal) : Bytes := formatVal (jsonifyTop (quoteAll v x))

/-! ## urljoin (path part) and prepare_url -/

/-- `s.split('/')` -/
def splitSlash : Bytes → List Bytes
  | [] => [[]]
  | c :: cs =>
    if c == 47 then [] :: splitSlash cs
    else match splitSlash cs with
      | [] => [[c]]
      | p :: ps => (c :: p) :: ps

/-- `'/'.join(parts)` -/
def joinSlash : List Bytes → Bytes
  | [] => []
  | [p] => p
  | p :: ps => p ++ 47 :: joinSlash ps

def dropLast {α} : List α → List α
  | [] => []
  | [_] => []
  | x :: xs => x :: dropLast xs

def lastD {α} (d : α) : List α → α
  | [] => d
  | [x] => x
  | _ :: xs => lastD d xs

/-- `segments[1:-1] = filter(None, segments[1:-1])` -/
def filterMiddle : List Bytes → List Bytes
  | [] => []
  | [a] => [a]
  | a :: rest => a :: ((dropLast rest).filter (fun s => !s.isEmpty) ++ [lastD [] rest])

/-- the dot-segment loop of `urljoin` (the stack is kept reversed) -/
def resolveDots : List Bytes → List Bytes → List Bytes
  | acc, [] => acc.reverse
  | acc, seg :: rest =>
    if seg == [46, 46] then resolveDots (acc.drop 1) rest
    else if seg == [46] then resolveDots acc rest
    else resolveDots (seg :: acc) rest

/-- the tail of `urljoin`: dot-segment loop, the trailing "" after a final dot-segment, `'/'.join(…) or '/'` -/
def finishJoin (segments : List Bytes) : Bytes :=
  let resolved := resolveDots [] segments
  let resolved := if lastD [] segments == [46] || lastD [] segments == [46, 46] then resolved ++ [[]] else resolved
  let p := joinSlash resolved
  if p.isEmpty then [47] else p

/-- `base_parts` / `segments` of `urljoin` -/
def joinSegments (bpath rel : Bytes) : List Bytes :=
  let baseParts := splitSlash bpath
  let baseParts := if lastD [] baseParts != [] then dropLast baseParts else baseParts
  if rel.head? == some 47 then splitSlash rel
  else filterMiddle (baseParts ++ splitSlash rel)

/-- `urljoin(base, rel)` restricted to: `base` = scheme://netloc ++ `bpath`, `rel` a non-empty relative path without
    scheme, netloc, params, query or fragment.  Returns the path of the result. -/
def urljoinPath (bpath rel : Bytes) : Bytes := finishJoin (joinSegments bpath rel)

/-- `path.lstrip("/")` -/
def lstripSlash : Bytes → Bytes
  | 47 :: rest => lstripSlash rest
  | bs => bs

/-- `prepare_url` (non-GraphQL arm), path component of the result for a base URL `origin ++ bpath` (http/https, no
    query/fragment/params):  `unquote(urljoin(base + "/"?, quote(path.lstrip("/"))))`.
    `urljoin(base, "")` returns `base`. -/
def prepareUrlPath (bpath path : Bytes) : Bytes :=
  let rel := quote (lstripSlash path)
  let bpath := if lastD 0 bpath == 47 then bpath else bpath ++ [47]
  if rel.isEmpty then unquote bpath else unquote (urljoinPath bpath rel)

end SV.Model.C06
