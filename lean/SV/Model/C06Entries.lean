/-
  SV.Model.C06Entries — query parameters that travel as SEVERAL entries of the query string: `style: form` with
  `explode: true` (arrays: one entry per item under the parameter's name; objects: one entry per member under the member's
  name) and `style: deepObject` (`name[member]=value`).
  Python anchors: specs/openapi/serialization.py (`extracted_object`, `deep_object`; arrays get no conversion),
  `jsonify_python_specific_types` (booleans / null spelled as in JSON, also inside lists), and what `requests` does with
  the `params` dict (`RequestEncodingMixin._encode_params`: a list value gives one entry per item, a text value one entry).
  Core Lean only.
-/
import SV.Model.C06Style

namespace SV.Model.C06

/-- the (name, value) entries `requests` makes of one `params` item after `jsonify_python_specific_types`;
    `none`: a dict value reaches `requests` (it would be read as a list of its keys) -/
def entriesOf (k : Str) : Val → Option (List (Str × Str))
  | .prim p => some [(k, spell p)]
  | .arr xs => some (xs.map fun p => (k, spell p))
  | .obj _ => none

/-- the whole `params` dict, in dict order -/
def queryEntries : Container → Option (List (Str × Str))
  | [] => some []
  | (k, v) :: rest =>
    match entriesOf k v, queryEntries rest with
    | some a, some b => some (a ++ b)
    | _, _ => none

/-- one query parameter on its own: serialized by the cell's conversions, then turned into entries -/
def cellEntries (vt vm vs : Variant) (c : Cell) (name : Str) (x : Val) : Option (List (Str × Str)) :=
  (serializeOpenapi3 vt vm vs [⟨name, c, none⟩] [(name, x)]).bind queryEntries

end SV.Model.C06
