/-
  Model of C06, part 3: request headers and the Content-Type rule.
  Python anchors (src/schemathesis):
    transport/prepare.py  : prepare_headers
    transport/requests.py : RequestsTransport.serialize_case (Content-Type rule, serializer headers, `{}` → "")
    transport/wsgi.py     : WSGITransport.serialize_case (Content-Type rule)
    core/transport.py     : prepare_urlencoded
  Header containers are `requests.structures.CaseInsensitiveDict`: one entry per lower-cased name, the stored name is the
  one used by the last assignment, the position the one of the first.  `norm` is the key normalisation (`str.lower`);
  the theorems hold for every `norm`.  Core Lean only.
-/
import SV.Model.C06Style

namespace SV.Model.C06

abbrev Headers := List (Str × Str)

/-- `d[k]` / `k in d` -/
def hGet (norm : Str → Str) (k : Str) : Headers → Option Str
  | [] => none
  | (k', v) :: rest => if norm k = norm k' then some v else hGet norm k rest

/-- `d[k] = v` -/
def hSet (norm : Str → Str) (k v : Str) : Headers → Headers
  | [] => [(k, v)]
  | (k', v') :: rest => if norm k = norm k' then (k, v) :: rest else (k', v') :: hSet norm k v rest

/-- `d.setdefault(k, v)` -/
def hSetDefault (norm : Str → Str) (k v : Str) (h : Headers) : Headers :=
  match hGet norm k h with
  | some _ => h
  | none => hSet norm k v h

/-- `d.update(other)` -/
def hUpdate (norm : Str → Str) (h : Headers) (other : Headers) : Headers :=
  other.foldl (fun acc kv => hSet norm kv.1 kv.2 acc) h

/-- `if headers: final_headers.update(headers)` -/
def applyCfg (norm : Str → Str) (h : Headers) : Option Headers → Headers
  | some c => if c.isEmpty then h else hUpdate norm h c
  | none => h

/-- `prepare_headers(case, headers)`: the case's headers, overridden by the configured ones, then the two defaults -/
def prepareHeaders (norm : Str → Str) (caseH : Option Headers) (cfg : Option Headers) (ua tcid : Str × Str) : Headers :=
  hSetDefault norm tcid.1 tcid.2 (hSetDefault norm ua.1 ua.2 (applyCfg norm (caseH.getD []) cfg))

inductive Transport where
  | requests | wsgi
  deriving Repr, DecidableEq

/-- the Content-Type step of `serialize_case`.  `ct` is the header name `"Content-Type"`, `multipart` says whether the
    media type equals `"multipart/form-data"`, `bodySet` whether the body is not `NOT_SET`. -/
def contentTypeStep (norm : Str → Str) (t : Transport) (ct : Str) (mediaType : Option Str) (multipart bodySet : Bool)
    (h : Headers) : Headers :=
  match mediaType with
  | none => h
  | some m =>
    if m.isEmpty || !bodySet then h
    else match t with
      | .requests => if multipart then h else hSetDefault norm ct m h
      | .wsgi => hSet norm ct m h

/-- headers returned by the body serializer are added with `setdefault` (requests transport only) -/
def extraHeadersStep (norm : Str → Str) (extra : Headers) (h : Headers) : Headers :=
  extra.foldl (fun acc kv => hSetDefault norm kv.1 kv.2 acc) h

/-- the `headers` entry of `RequestsTransport.serialize_case(case, headers=cfg)` -/
def finalHeaders (norm : Str → Str) (t : Transport) (caseH cfg : Option Headers) (ua tcid : Str × Str) (ct : Str)
    (mediaType : Option Str) (multipart bodySet : Bool) (extra : Headers) : Headers :=
  extraHeadersStep norm extra
    (contentTypeStep norm t ct mediaType multipart bodySet (prepareHeaders norm caseH cfg ua tcid))

/-- the query step of `RequestsTransport.serialize_case`: empty dicts become empty strings so that the parameter
    stays present -/
def emptyDictsToStrings (c : Container) : Container :=
  c.map fun (k, x) => match x with
    | .obj [] => (k, .prim (.str []))
    | y => (k, y)

/-- `prepare_urlencoded` on a list body: dict items are flattened to pairs, anything else becomes a key with the
    value "arbitrary-value" -/
inductive FormItem where
  | dict (kvs : List (Str × Prim))
  | other (p : Prim)
  deriving Repr

inductive FormOut where
  | pair (k : Str) (v : Prim)
  | arbitrary (p : Prim)
  deriving Repr, DecidableEq

def prepareUrlencoded (items : List FormItem) : List FormOut :=
  items.flatMap fun
    | .dict kvs => kvs.map fun (k, v) => .pair k v
    | .other p => [.arbitrary p]

end SV.Model.C06
