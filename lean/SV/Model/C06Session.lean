/-
  Model of C06, part 4: histories of calls — what `send` keeps between two calls.
  Python anchors (src/schemathesis):
    transport/wsgi.py     : WSGITransport.serialize_case (query_string + merge_at), WSGITransport.send
                            (`session or wsgi.get_client(app)`, the cookie dict, cookie_handler, the recorded request)
    python/wsgi.py        : get_client (a new werkzeug Client for every call)
    transport/requests.py : RequestsTransport.serialize_case (params / cookies + merge_at), RequestsTransport.send
                            (`requests.Session()` for every call without a session)
    transport/asgi.py, python/asgi.py : ASGITransport.send, get_client (a new test client for every call)
    core/transforms.py    : merge_at
  Third party, modelled as far as `send` relies on it: the cookie jar of werkzeug's test `Client`
  (`set_cookie` / `delete_cookie`, `Cookie` header = the jar, `Set-Cookie` of the response stored / expired) and of a
  `requests.Session` (session cookies merged under the request's, `Set-Cookie` stored, request cookies not stored).

  A Python `dict[str, str]` is an association list in insertion order without duplicate keys (`WF`); a copy of a dict is
  the same value.  What `send` mutates is explicit state: the case's own `query` / `cookies` containers (`CaseS`), the jar
  of the client kept for the application (if any is kept: `ClientPolicy`) and the jar of a session the user passes.
  Core Lean only.
-/
import SV.Model.C06Headers

namespace SV.Model.C06

abbrev Dict := List (Str × Str)

/-- `d.get(k)` -/
abbrev dGet (k : Str) (d : Dict) : Option Str := hGet id k d
/-- `d[k] = v` (an existing key keeps its position) -/
abbrev dSet (k v : Str) (d : Dict) : Dict := hSet id k v d
/-- `d.update(other)` / `{**d, **other}` -/
abbrev dUpdate (d other : Dict) : Dict := hUpdate id d other
/-- `d.pop(k, None)` -/
def dDel (k : Str) (d : Dict) : Dict := d.filter fun e => e.1 != k
def dDelAll (ks : List Str) (d : Dict) : Dict := ks.foldl (fun j k => dDel k j) d
def dKeys (d : Dict) : List Str := d.map (·.1)

/-- representation invariant of a Python dict -/
def WF (d : Dict) : Prop := (dKeys d).Nodup

instance (d : Dict) : Decidable (WF d) := by unfold WF; infer_instance

/-- one `Set-Cookie` header of a response: `(name, some v)` is `name=v; Path=/`, `(name, none)` expires the cookie
    (`name=; Max-Age=0; Path=/`) -/
abbrev SetCookie := Str × Option Str

/-- the client's jar after it has read the response's `Set-Cookie` headers -/
def applySetCookies (jar : Dict) (scs : List SetCookie) : Dict :=
  scs.foldl (fun j sc => match sc.2 with
    | some v => dSet sc.1 v j
    | none => dDel sc.1 j) jar

/-- `merge_at(data, key, new)` where `data[key]` is the case's own container `own`:
    `original = data[key] or {}` is that very dict when it is non-empty, and it is updated in place (as found) or a copy
    of it is (repaired).  Returns (`data[key]` afterwards, the case's container afterwards). -/
def mergeAt (v : Variant) (own : Option Dict) (new : Dict) : Dict × Option Dict :=
  match own with
  | none => (dUpdate [] new, none)
  | some d =>
    if d.isEmpty then (dUpdate [] new, some d)
    else match v with
      | .asFound => (dUpdate d new, some (dUpdate d new))
      | .repaired => (dUpdate d new, some d)

/-- the containers of a `Case` that `send` reads and (as found) writes -/
structure CaseS where
  query : Option Dict
  cookies : Option Dict
  deriving Repr, DecidableEq

/-- one `case.call(params=…, cookies=…, session=…)` together with the `Set-Cookie` headers the application answers -/
structure Call where
  params : Option Dict
  cookies : Option Dict
  /-- the user passes a session / client of their own -/
  explicit : Bool
  setCookies : List SetCookie
  deriving Repr, DecidableEq

inductive Via where
  | wsgi | requests | asgi
  deriving Repr, DecidableEq

/-- what `get_client(app)` / `requests.Session()` give for a call without a session: a new client every time (the code
    as found) or one client kept per application -/
inductive ClientPolicy where
  | perCall | perApp
  deriving Repr, DecidableEq

structure Clients where
  /-- jar of the client kept for the application (read only under `.perApp`) -/
  appJar : Dict
  /-- jar of the session object the user passes explicitly -/
  userJar : Dict
  deriving Repr, DecidableEq

/-- query entries and cookies of one request -/
structure Sent where
  query : Dict
  cookies : Dict
  deriving Repr, DecidableEq

structure Out where
  /-- what the application receives -/
  wire : Sent
  /-- `Response.request`, the request kept for reports -/
  recorded : Sent
  deriving Repr, DecidableEq

/-- `params` and `cookies` entries of `RequestsTransport.serialize_case(case, params=…, cookies=…)` and the case
    afterwards.  `vp = .asFound`: the local `params = case.query` shadows the argument, so the configured `params` are
    never read and `merge_at` merges the case's query into itself. -/
def requestsSerialize (vm vp : Variant) (c : CaseS) (params cookies : Option Dict) : Sent × CaseS :=
  let q : Dict × Option Dict :=
    match vp with
    | .asFound =>
      match c.query with
      | none => ([], none)
      | some d => mergeAt vm (some d) d
    | .repaired =>
      match params with
      | none => (c.query.getD [], c.query)
      | some p => mergeAt vm c.query p
  let k : Dict × Option Dict :=
    match cookies with
    | none => (c.cookies.getD [], c.cookies)
    | some x => mergeAt vm c.cookies x
  (⟨q.1, k.1⟩, ⟨q.2, k.2⟩)

/-- `query_string` of `WSGITransport.serialize_case(case, params=…)` and the case's query afterwards -/
def wsgiQuery (vm : Variant) (c : CaseS) (params : Option Dict) : Dict × Option Dict :=
  match params with
  | none => (c.query.getD [], c.query)
  | some p => mergeAt vm c.query p

/-- `session or get_client(app)`: the jar the call starts with -/
def startJar (pol : ClientPolicy) (cl : Clients) (explicit : Bool) : Dict :=
  if explicit then cl.userJar
  else match pol with
    | .perCall => []
    | .perApp => cl.appJar

/-- where the jar of the client used by the call lives afterwards (a per-call client is dropped) -/
def storeJar (pol : ClientPolicy) (cl : Clients) (explicit : Bool) (jar : Dict) : Clients :=
  if explicit then { cl with userJar := jar }
  else match pol with
    | .perCall => cl
    | .perApp => { cl with appJar := jar }

/-- `{**(case.cookies or {}), **(cookies or {})}` -/
def callCookies (c : CaseS) (a : Call) : Dict := dUpdate (c.cookies.getD []) (a.cookies.getD [])

/-- `Transport.send(case, session=…, params=…, cookies=…, app=…)`: (what is received / recorded, the case afterwards,
    the clients afterwards).  The ASGI transport ignores `session`. -/
def send (via : Via) (pol : ClientPolicy) (vm vp : Variant) (cl : Clients) (c : CaseS) (a : Call) :
    Out × CaseS × Clients :=
  match via with
  | .wsgi =>
    let q := wsgiQuery vm c a.params
    let c1 : CaseS := ⟨q.2, c.cookies⟩
    let cookies := callCookies c a
    let jar0 := startJar pol cl a.explicit
    -- cookie_handler: set every cookie, open, delete every cookie
    let jar1 := dUpdate jar0 cookies
    let jar2 := applySetCookies jar1 a.setCookies
    let jar3 := dDelAll (dKeys cookies) jar2
    -- the recorded request: REQUESTS_TRANSPORT.serialize_case(case, params=params, cookies=cookies)
    let r := requestsSerialize vm vp c1 a.params (some cookies)
    (⟨⟨q.1, jar1⟩, r.1⟩, r.2, storeJar pol cl a.explicit jar3)
  | .requests =>
    let r := requestsSerialize vm vp c a.params a.cookies
    let jar0 := startJar pol cl a.explicit
    let w : Sent := ⟨r.1.query, dUpdate jar0 r.1.cookies⟩
    (⟨w, w⟩, r.2, storeJar pol cl a.explicit (applySetCookies jar0 a.setCookies))
  | .asgi =>
    let r := requestsSerialize vm vp c a.params a.cookies
    let jar0 := startJar pol cl false
    let w : Sent := ⟨r.1.query, dUpdate jar0 r.1.cookies⟩
    (⟨w, w⟩, r.2, storeJar pol cl false (applySetCookies jar0 a.setCookies))

structure Entry where
  ix : Nat
  call : Call
  out : Out
  caseAfter : CaseS
  deriving Repr, DecidableEq

/-- a history: calls of the cases of a store (by index) through one transport on one application; a call of an index
    outside the store is skipped -/
def runTrace (via : Via) (pol : ClientPolicy) (vm vp : Variant) :
    Clients → List CaseS → List (Nat × Call) → List Entry
  | _, _, [] => []
  | cl, store, (ix, a) :: rest =>
    match store[ix]? with
    | none => runTrace via pol vm vp cl store rest
    | some c =>
      let r := send via pol vm vp cl c a
      ⟨ix, a, r.1, r.2.1⟩ :: runTrace via pol vm vp r.2.2 (store.set ix r.2.1) rest

end SV.Model.C06
