/-
  Model of C06, part 2: the text layer — OpenAPI style serialisation of parameter containers.
  Python anchors (src/schemathesis):
    specs/openapi/serialization.py : every function (style × explode × type table, `conversion` functions,
                                     make_serializer composition order, _serialize_swagger2)
    specs/openapi/_hypothesis.py   : jsonify_python_specific_types
    generation/hypothesis/builder.py : _stringify_value, Template._serialize (order of the steps)
  Text is a list of Unicode code points (`Str`).  Values are JSON-like with one level of nesting (arrays / objects of
  primitives); deeper nesting reaches Python's `repr` and is outside the model (`none`).  Core Lean only.
-/
import SV.Model.C06

namespace SV.Model.C06

abbrev Str := List Nat

def lit (s : String) : Str := s.toList.map Char.toNat

inductive Prim where
  | str (s : Str)
  | int (i : Int)
  | bool (b : Bool)
  | null
  deriving Repr, DecidableEq

inductive Val where
  | prim (p : Prim)
  | arr (xs : List Prim)
  | obj (kvs : List (Str × Prim))
  deriving Repr, DecidableEq

/-- Python `str(x)` on a primitive -/
def pyStr : Prim → Str
  | .str s => s
  | .int i => intStr i
  | .bool true => [84, 114, 117, 101]      -- True
  | .bool false => [70, 97, 108, 115, 101] -- False
  | .null => [78, 111, 110, 101]           -- None

/-- the JSON spelling (`true` / `false` / `null`, decimal integers, strings as they are) -/
def spell : Prim → Str
  | .str s => s
  | .int i => intStr i
  | .bool true => [116, 114, 117, 101]
  | .bool false => [102, 97, 108, 115, 101]
  | .null => [110, 117, 108, 108]

/-- the `str(item)` sites of serialization.py (`map(str, …)`, f-strings): Python's `str` as found, the JSON spelling
    in the repaired variant -/
def itemStr (v : Variant) (p : Prim) : Str :=
  match v with
  | .asFound => pyStr p
  | .repaired => spell p

/-- Python truthiness -/
def truthyPrim : Prim → Bool
  | .str s => !s.isEmpty
  | .int i => i != 0
  | .bool b => b
  | .null => false

def truthy : Val → Bool
  | .prim p => truthyPrim p
  | .arr xs => !xs.isEmpty
  | .obj kvs => !kvs.isEmpty

/-- `force_iterable(value or ())`; `none`: a non-empty dict would be stringified with `repr` -/
def iterItems : Val → Option (List Prim)
  | .arr xs => some xs
  | .prim p => if truthyPrim p then some [p] else some []
  | .obj kvs => if kvs.isEmpty then some [] else none

/-- `force_dict(value or {})`; `none`: a non-empty list as the single value would be stringified with `repr` -/
def dictItems : Val → Option (List (Str × Prim))
  | .obj kvs => some kvs
  | .prim p => if truthyPrim p then some [([], p)] else some []
  | .arr xs => if xs.isEmpty then some [] else none

/-- `d.join(parts)` -/
def joinWith (d : Str) : List Str → Str
  | [] => []
  | [p] => p
  | p :: ps => p ++ d ++ joinWith d ps

/-- `f"{key}={value}"` -/
def kvEq (v : Variant) (kv : Str × Prim) : Str := kv.1 ++ 61 :: itemStr v kv.2

/-- `make_delimited(data, delimiter)` on the items -/
def makeDelimited (v : Variant) (d : Str) (kvs : List (Str × Prim)) : Str := joinWith d (kvs.map (kvEq v))

/-- `map(str, sum(d.items(), ()))` -/
def flatKV (v : Variant) : List (Str × Prim) → List Str
  | [] => []
  | (k, x) :: rest => k :: itemStr v x :: flatKV v rest

/-! ## the `@conversion` functions -/

inductive Conv where
  | toJson
  | delimited (d : Nat)
  | deepObject
  | commaObject          -- comma_delimited_object
  | delimitedObject      -- delimited_object
  | extractedObject
  | labelPrimitive
  | labelArray (explode : Option Bool)
  | labelObject (explode : Option Bool)
  | matrixPrimitive
  | matrixArray (explode : Option Bool)
  | matrixObject (explode : Option Bool)
  | nothing
  | toString
  deriving Repr, DecidableEq

/-- Python `if explode:` -/
def isTrue : Option Bool → Bool
  | some true => true
  | _ => false

def dotIf (prefix_ : Nat) (s : Str) (elseVal : Str) : Str := if s.isEmpty then elseVal else prefix_ :: s

/-- the conversions that replace `item[name]` by a string.  `vm` is the variant of the matrix site
    (non-exploded matrix forms carry `name=` only when repaired), `vs` the variant of the `str(item)` site.
    `none` = outside the model (Python `repr` of a container, `json.dumps`). -/
def convStr (vm vs : Variant) (name : Str) : Conv → Val → Option Str
  | .delimited d, x => (iterItems x).map fun items => joinWith [d] (items.map (itemStr vs))
  | .commaObject, x => (dictItems x).map fun kvs => joinWith [44] (flatKV vs kvs)
  | .delimitedObject, x => (dictItems x).map fun kvs => makeDelimited vs [44] kvs
  | .labelPrimitive, x =>
    match x with
    | .prim .null => some []
    | .prim p => some (46 :: itemStr vs p)
    | _ => none
  | .labelArray e, x =>
    (iterItems x).map fun items => dotIf 46 (joinWith [if isTrue e then 46 else 44] (items.map (itemStr vs))) []
  | .labelObject e, x =>
    (dictItems x).map fun kvs =>
      dotIf 46 (if isTrue e then makeDelimited vs [46] kvs else joinWith [44] (flatKV vs kvs)) []
  | .matrixPrimitive, x =>
    match x with
    | .prim .null => some []
    | .prim p => some (59 :: name ++ 61 :: itemStr vs p)
    | _ => none
  | .matrixArray e, x =>
    (iterItems x).map fun items =>
      if isTrue e then dotIf 59 (joinWith [59] (items.map fun p => name ++ 61 :: itemStr vs p)) []
      else
        let body := joinWith [44] (items.map (itemStr vs))
        match vm with
        | .asFound => dotIf 59 body []
        | .repaired => dotIf 59 (if body.isEmpty then [] else name ++ 61 :: body) []
  | .matrixObject e, x =>
    (dictItems x).map fun kvs =>
      if isTrue e then dotIf 59 (makeDelimited vs [59] kvs) []
      else
        let body := joinWith [44] (flatKV vs kvs)
        match vm with
        | .asFound => dotIf 59 body []
        | .repaired => dotIf 59 (if body.isEmpty then [] else name ++ 61 :: body) []
  | .toString, x =>
    match x with
    | .prim p => some (itemStr vs p)
    | _ => none
  | _, _ => none

/-! ## containers (Python dicts: insertion ordered, `d[k] = v` keeps the position of an existing key) -/

abbrev Container := List (Str × Val)

def hasKey (k : Str) : Container → Bool
  | [] => false
  | (k', _) :: rest => k == k' || hasKey k rest

def getKey (k : Str) : Container → Option Val
  | [] => none
  | (k', v) :: rest => if k == k' then some v else getKey k rest

def setKey (k : Str) (v : Val) : Container → Container
  | [] => [(k, v)]
  | (k', v') :: rest => if k == k' then (k, v) :: rest else (k', v') :: setKey k v rest

def popKey (k : Str) : Container → Container
  | [] => []
  | (k', v') :: rest => if k == k' then rest else (k', v') :: popKey k rest

def updateKeys (c : Container) (kvs : List (Str × Val)) : Container := kvs.foldl (fun c kv => setKey kv.1 kv.2 c) c

/-- one `@conversion`-wrapped function applied to the container: untouched when `name` is absent -/
def applyConv (vm vs : Variant) (name : Str) (cv : Conv) (c : Container) : Option Container :=
  match getKey name c with
  | none => some c
  | some x =>
    match cv with
    | .nothing => some (popKey name c)
    | .deepObject =>
      let c' := popKey name c
      if truthy x then
        (dictItems x).map fun kvs => updateKeys c' (kvs.map fun (k, p) => (name ++ 91 :: k ++ [93], .prim p))
      else some (setKey name (.prim (.str [])) c')
    | .extractedObject =>
      let c' := popKey name c
      match x with
      | .obj kvs => if kvs.isEmpty then some (setKey name (.prim (.str [])) c')
                    else some (updateKeys c' (kvs.map fun (k, p) => (k, .prim p)))
      | _ => some (setKey name (.prim (.str [])) c')
    | .toJson => none
    | cv => (convStr vm vs name cv x).map fun s => setKey name (.prim (.str s)) c

/-! ## the style × explode × type table: `_serialize_openapi3` -/

inductive Loc where
  | path | query | header | cookie
  deriving Repr, DecidableEq

/-- `schema.type` as far as the table looks at it -/
inductive Ty where
  | array | object | other
  deriving Repr, DecidableEq

inductive Style where
  | simple | label | matrix | form | spaceDelimited | pipeDelimited | deepObject | other
  deriving Repr, DecidableEq

structure Cell where
  loc : Loc
  style : Option Style
  explode : Option Bool
  ty : Ty
  deriving Repr, DecidableEq

def when (b : Bool) (cs : List Conv) : List Conv := if b then cs else []

/-- `_serialize_path_openapi3`, in yield order -/
def pathConvs (ty : Ty) (style : Option Style) (explode : Option Bool) : List Conv :=
  when (style == some .simple)
    (when (ty == .object) (when (explode == some false) [.commaObject] ++ when (explode == some true) [.delimitedObject])
      ++ when (ty == .array) [.delimited 44])
  ++ when (style == some .label)
    (if ty == .object then [.labelObject explode] else if ty == .array then [.labelArray explode] else [.labelPrimitive])
  ++ when (style == some .matrix)
    (if ty == .object then [.matrixObject explode] else if ty == .array then [.matrixArray explode] else [.matrixPrimitive])

/-- `_serialize_query_openapi3` -/
def queryConvs (ty : Ty) (style : Option Style) (explode : Option Bool) : List Conv :=
  if ty == .object then
    when (style == some .deepObject) [.deepObject]
    ++ when (style == none || style == some .form)
      (when (explode == some false) [.commaObject] ++ when (explode == some true) [.extractedObject])
  else if ty == .array && explode == some false then
    when (style == some .pipeDelimited) [.delimited 124]
    ++ when (style == some .spaceDelimited) [.delimited 32]
    ++ when (style == none || style == some .form) [.delimited 44]
  else []

/-- `_serialize_header_openapi3` -/
def headerConvs (ty : Ty) (explode : Option Bool) : List Conv :=
  [.toString]
  ++ when (ty == .array) [.delimited 44]
  ++ when (ty == .object) (when (explode == some false) [.commaObject] ++ when (explode == some true) [.delimitedObject])

/-- `_serialize_cookie_openapi3` -/
def cookieConvs (ty : Ty) (explode : Option Bool) : List Conv :=
  [.toString]
  ++ when (isTrue explode && (ty == .array || ty == .object)) [.nothing]
  ++ when (explode == some false) (when (ty == .array) [.delimited 44] ++ when (ty == .object) [.commaObject])

/-- one parameter definition as `_serialize_openapi3` reads it -/
structure PDef where
  name : Str
  cell : Cell
  /-- `"content" in definition`: `some true` when the first media type is `application/json` -/
  content : Option Bool := none
  deriving Repr, DecidableEq

/-- the repaired reading of `definition.get("style")` / `definition.get("explode")`: the defaults of OpenAPI 3.0
    (`simple` for path and header, `form` for query and cookie; `explode` true exactly for `form`) -/
def applyDefaults (c : Cell) : Cell :=
  let st := c.style.getD (match c.loc with | .query | .cookie => .form | .path | .header => .simple)
  { c with style := some st, explode := some (c.explode.getD (st == .form)) }

def defConvs (vt : Variant) (d : PDef) : List Conv :=
  match d.content with
  | some isJson => when isJson [.toJson]
  | none =>
    let cell := match vt with | .asFound => d.cell | .repaired => applyDefaults d.cell
    match cell.loc with
    | .path => pathConvs cell.ty cell.style cell.explode
    | .query => queryConvs cell.ty cell.style cell.explode
    | .header => headerConvs cell.ty cell.explode
    | .cookie => cookieConvs cell.ty cell.explode

/-- all yielded functions with the name they close over, in yield order -/
def allConvs (vt : Variant) (defs : List PDef) : List (Str × Conv) :=
  defs.flatMap fun d => (defConvs vt d).map fun c => (d.name, c)

/-- `composed`: the functions are applied in **reversed** yield order -/
def applyAll (vm vs : Variant) : List (Str × Conv) → Container → Option Container
  | [], c => some c
  | (n, cv) :: rest, c =>
    match applyConv vm vs n cv c with
    | none => none
    | some c' => applyAll vm vs rest c'

/-- `serialize_openapi3_parameters(definitions)(container)`; `make_serializer` returns `None` (no mapping at all)
    when nothing was yielded, which is the identity here -/
def serializeOpenapi3 (vt vm vs : Variant) (defs : List PDef) (c : Container) : Option Container :=
  applyAll vm vs (allConvs vt defs).reverse c

/-! ### one parameter, seen as the single string it becomes on the wire -/

def applyConvsVal (vm vs : Variant) (name : Str) : List Conv → Val → Option Val
  | [], x => some x
  | cv :: rest, x =>
    match convStr vm vs name cv x with
    | none => none
    | some s => applyConvsVal vm vs name rest (.prim (.str s))

/-- The text that stands for parameter `name` of cell `c` with generated value `x` after the serializer and the later
    steps that stringify a primitive (path: `jsonify_python_specific_types` + `str.format`; query:
    `jsonify_python_specific_types` + requests' `str()`; headers, cookies: already `to_string`).
    `none`: the value is still a list / dict afterwards (spread over several entries, or reaches `repr`). -/
def cellWire (vt vm vs : Variant) (c : Cell) (name : Str) (x : Val) : Option Str :=
  match applyConvsVal vm vs name (defConvs vt ⟨name, c, none⟩).reverse x with
  | some (.prim p) => some (spell p)
  | _ => none

/-! ## Swagger 2.0: `_serialize_swagger2` -/

inductive CollFmt where
  | csv | ssv | tsv | pipes | multi | other
  deriving Repr, DecidableEq

structure SDef where
  name : Str
  isHeader : Bool
  /-- `type in ("array", "object")` -/
  collection : Bool
  fmt : CollFmt := .csv
  deriving Repr, DecidableEq

def swaggerConvs (d : SDef) : List Conv :=
  when d.isHeader [.toString]
  ++ when d.collection
    (when (d.fmt == .csv) [.delimited 44] ++ when (d.fmt == .ssv) [.delimited 32]
      ++ when (d.fmt == .tsv) [.delimited 9] ++ when (d.fmt == .pipes) [.delimited 124])

def serializeSwagger2 (vs : Variant) (defs : List SDef) (c : Container) : Option Container :=
  applyAll .asFound vs ((defs.flatMap fun d => (swaggerConvs d).map fun c => (d.name, c)).reverse) c

/-! ## jsonify_python_specific_types -/

/-- one dict level of the stack loop: booleans / None that are *values of a dict* are rewritten; list items are
    never touched (`stack.extend(item)` pushes the dict's keys, which are strings) -/
def jsonifyPrim : Prim → Prim
  | .bool true => .str [116, 114, 117, 101]
  | .bool false => .str [102, 97, 108, 115, 101]
  | .null => .str [110, 117, 108, 108]
  | p => p

/-- as found: arrays are left alone; repaired: their items are rewritten too -/
def jsonifyVal (v : Variant) : Val → Val
  | .prim p => .prim (jsonifyPrim p)
  | .arr xs => match v with | .asFound => .arr xs | .repaired => .arr (xs.map jsonifyPrim)
  | .obj kvs => .obj (kvs.map fun (k, p) => (k, jsonifyPrim p))

def jsonify (v : Variant) (c : Container) : Container := c.map fun (k, x) => (k, jsonifyVal v x)

/-! ## coverage phase: `_stringify_value` -/

def commaJoinSpell (xs : List Prim) : Str := joinWith [44] (xs.map spell)

/-- `_stringify_value(val, container_name)` for the value shapes of the model.  Query lists stay lists (of strings),
    everything else becomes comma separated; dict values are handled one level down. -/
def stringifyVal (isQuery : Bool) : Val → Val
  | .prim (.str s) => .prim (.str s)
  | .prim p => .prim (.str (spell p))
  | .arr xs => if isQuery then .arr (xs.map fun p => .str (spell p)) else .prim (.str (commaJoinSpell xs))
  | .obj kvs => .obj (kvs.map fun (k, p) => (k, .str (spell p)))

/-- `_stringify_value(container, name)` on the whole dict: values one level down -/
def stringify (isQuery : Bool) (c : Container) : Container := c.map fun (k, x) => (k, stringifyVal isQuery x)

/-! ## the text → bytes bridge and the coverage-phase `Template._serialize` -/

/-- UTF-8 encoding of one code point (`str.encode("utf-8")`; surrogates are filtered out before) -/
def utf8Char (cp : Nat) : Bytes :=
  if cp < 128 then [cp]
  else if cp < 2048 then [192 + cp / 64, 128 + cp % 64]
  else if cp < 65536 then [224 + cp / 4096, 128 + cp / 64 % 64, 128 + cp % 64]
  else [240 + cp / 262144, 128 + cp / 4096 % 64, 128 + cp / 64 % 64, 128 + cp % 64]

def utf8 (s : Str) : Bytes := s.flatMap utf8Char

/-- `quote_all` on a text value (the result is ASCII, so it is text and bytes at once) -/
def quoteAllText (v : Variant) (s : Str) : Str := quoteAllStr v (utf8 s)

def quoteAllVal (v : Variant) : Val → Val
  | .prim (.str s) => .prim (.str (quoteAllText v s))
  | x => x

/-- `Template._serialize` for one container (coverage phase): headers / cookies are stringified *before* the
    serializer, the query after it, path parameters are serialised, quoted, then stringified. -/
def templateSerialize (vq vt vm vs : Variant) (loc : Loc) (defs : List PDef) (c : Container) : Option Container :=
  match loc with
  | .header | .cookie => serializeOpenapi3 vt vm vs defs (stringify false c)
  | .query => (serializeOpenapi3 vt vm vs defs c).map (stringify true)
  | .path => (serializeOpenapi3 vt vm vs defs c).map fun c' => stringify false (c'.map fun (k, x) => (k, quoteAllVal vq x))

end SV.Model.C06
