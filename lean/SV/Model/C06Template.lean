/-
  SV.Model.C06Template — the coverage phase's `Template` as an object with *shared* containers, over histories of cases.
  Python anchor: generation/hypothesis/builder.py  Template.unmodified / with_body / with_parameter / with_container and
  `_serialize` (which copy of a container the in-place helpers `quote_all` and the style serializers get to work on).
  One `Template` serves every coverage case of an operation: `kwargs = {**self._template, …}` is a shallow copy, so the
  containers a case does not vary are the template's own dict objects.
  Core Lean only.
-/
import SV.Model.C06Style

namespace SV.Model.C06

/-- where `_serialize` takes its copy of a container -/
inductive CopyAt where
  | entry               -- before anything else (the tree): nothing ever works on the template's own dicts
  | beforeSerializer    -- only for the style serializer: `quote_all` then works in place on whatever it is given
  deriving Repr, DecidableEq

structure TplCfg where
  vq : Variant
  vt : Variant
  vm : Variant
  vs : Variant
  defs : Loc → List PDef

/-- the template's containers (the objects every case shares), in insertion order -/
structure Tpl where
  conts : List (Loc × Container)
  deriving Repr

inductive TOp where
  | unmodified                                          -- also `with_body`: no container is varied
  | withParameter (loc : Loc) (name : Str) (v : Val)    -- `{**container, name: value}`: a fresh dict for that location
  | withContainer (loc : Loc) (c : Container)           -- a dict built by the caller
  deriving Repr

/-- the keyword arguments of the case: (location, container, is it the template's own object?) -/
def kwargsOf (t : Tpl) : TOp → List (Loc × Container × Bool)
  | .unmodified => t.conts.map fun (l, c) => (l, c, true)
  | .withParameter loc name v => t.conts.map fun (l, c) => if l = loc then (l, setKey name v c, false) else (l, c, true)
  | .withContainer loc c' =>
    if t.conts.any (·.1 = loc) then t.conts.map fun (l, c) => if l = loc then (l, c', false) else (l, c, true)
    else t.conts.map (fun (l, c) => (l, c, true)) ++ [(loc, c', false)]

def serializeOne (cfg : TplCfg) (loc : Loc) (c : Container) : Option Container :=
  templateSerialize cfg.vq cfg.vt cfg.vm cfg.vs loc (cfg.defs loc) c

/-- does `get_serializers_for_operation` have a serializer for this location? -/
def hasSerializer (cfg : TplCfg) (loc : Loc) : Bool := !(allConvs cfg.vt (cfg.defs loc)).isEmpty

/-- what `_serialize` leaves behind in a container it was handed: with the late copy, `quote_all` rewrites the path
    container in place unless a serializer returned a fresh one first -/
def afterSerialize (ca : CopyAt) (cfg : TplCfg) (loc : Loc) (c : Container) : Container :=
  match ca, loc with
  | .beforeSerializer, .path => if hasSerializer cfg .path then c else c.map fun (k, x) => (k, quoteAllVal cfg.vq x)
  | _, _ => c

/-- the location whose container the case replaces by a fresh dict -/
def TOp.varied : TOp → Option Loc
  | .unmodified => none
  | .withParameter loc _ _ => some loc
  | .withContainer loc _ => some loc

/-- one case: the new template state and the serialized containers of the case.  The containers the case does not vary
    are the template's own objects: whatever `_serialize` does to them in place stays in the template. -/
def stepT (ca : CopyAt) (cfg : TplCfg) (t : Tpl) (op : TOp) : Tpl × List (Loc × Option Container) :=
  ({ conts := t.conts.map fun (l, c) => if op.varied = some l then (l, c) else (l, afterSerialize ca cfg l c) },
   (kwargsOf t op).map fun (l, c, _) => (l, serializeOne cfg l c))

/-- a history of cases built from one template -/
def runT (ca : CopyAt) (cfg : TplCfg) : Tpl → List TOp → List (List (Loc × Option Container))
  | _, [] => []
  | t, op :: rest => let r := stepT ca cfg t op; r.2 :: runT ca cfg r.1 rest

end SV.Model.C06
