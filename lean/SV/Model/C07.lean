/-
  Model of operation selection (C07).
  Python anchors (src/schemathesis):
    filters.py                         : Matcher.for_value/for_regex/for_function, get_operation_attribute, by_value,
                                         by_value_list, by_regex, Filter.match, FilterSet.match/is_empty/include/exclude/
                                         _add_filter, _normalize_method, is_deprecated
    schemas.py                         : BaseSchema.include / exclude (the `deprecated=` flag), clone
    cli/commands/run/filters.py        : FilterArguments.into, validate_unique_filter, apply_exclude_filter
    specs/openapi/schemas.py           : HTTP_METHODS, _should_skip, get_all_operations, _operation_iter,
                                         _measure_statistic (+ is_link_selected)
    specs/openapi/stateful/__init__.py : collect_transitions, create_state_machine (rule set), classify_root_transitions,
                                         is_likely_root_transition
    specs/graphql/schemas.py           : _should_skip, get_all_operations, _measure_statistic (selection part)
    pytest/lazy.py                     : LazySchema.include/exclude, get_schema
  Opaque parts: regular expressions (`rx i s` = "pattern number i is found in s") and user functions / `--include-by`
  expressions (`View.fns[i]` = truth of predicate i on that view of the operation definition).
  Scope: well-formed documents (every path item resolves; `responses` present); ASCII method keys; unique operationIds
  for link resolution.  Core Lean only.
-/
import SV.Json

namespace SV.Model.C07

abbrev Str := List Char

/-- `str.upper()` on ASCII text -/
def upper (s : Str) : Str := s.map Char.toUpper

/-- attribute names used by `_add_filter` (`name` is passed as `label`) -/
inductive Attr where
  | label | method | path | tag | operationId
  deriving DecidableEq, Repr

/-- `FilterValue = Union[str, List[str]]` -/
inductive Expected where
  | one (s : Str)
  | many (xs : List Str)
  deriving DecidableEq, Repr

/-- function matchers: the module-level `is_deprecated`, or user function / expression closure number `i` -/
inductive Fn where
  | isDeprecated
  | user (i : Nat)
  deriving DecidableEq, Repr

/-- `Matcher`; structural equality here = equality of `Matcher._hash` (hash of the label, or of the function). -/
inductive Matcher where
  | value (a : Attr) (e : Expected)
  | regex (a : Attr) (i : Nat)
  | func (f : Fn)
  deriving DecidableEq, Repr

/-- what a filter can read off one *view* (unresolved or resolved) of an operation definition -/
structure View where
  tags : Option (List Str)          -- `definition.get("tags")`
  operationId : Option Str          -- `definition.get("operationId")`
  deprecated : Bool                 -- `definition.get("deprecated") is True`
  fns : List Bool                   -- truth of user predicate i on this view
  deriving Repr, DecidableEq

inductive LinkTarget where
  | byId (id : Str)                 -- `operationId`
  | byRef (method path : Str)       -- `operationRef` resolving to `#/paths/<path>/<method>`
  | broken                          -- `operationRef` that does not resolve
  deriving Repr, DecidableEq

structure Link where
  status : Str
  name : Str
  target : LinkTarget
  deriving Repr, DecidableEq

/-- one entry of a path item, in document order -/
structure Op where
  method : Str                      -- the key as written in the path item (may be a non-method key)
  path : Str
  label : Str                       -- only GraphQL uses a stored label; the Open API code recomputes it
  raw : View                        -- the definition as written (what `_measure_statistic`/`_operation_iter` pass)
  res : View                        -- after `_resolve_operation` (what `get_all_operations` passes)
  links : List Link
  hasBody : Bool
  hasPathParams : Bool
  deriving Repr, DecidableEq

inductive ViewSel where
  | raw | res
  deriving Repr, DecidableEq

def Op.view (o : Op) : ViewSel → View
  | .raw => o.raw
  | .res => o.res

/-- the `ctx.operation` object a matcher looks at -/
structure Ctx where
  label : Str
  method : Str
  path : Str
  view : View
  deriving Repr

/-- value of `get_operation_attribute` -/
inductive AttrVal where
  | absent
  | one (s : Str)
  | many (xs : List Str)
  deriving Repr

def attrOf (c : Ctx) : Attr → AttrVal
  | .label => .one c.label
  | .method => .one (upper c.method)
  | .path => .one c.path
  | .tag => match c.view.tags with
    | none => .absent
    | some ts => .many ts
  | .operationId => match c.view.operationId with
    | none => .absent
    | some s => .one s

def byValue (v : AttrVal) (e : Str) : Bool :=
  match v with
  | .absent => false
  | .one s => s == e
  | .many xs => xs.any (· == e)

def byValueList (v : AttrVal) (es : List Str) : Bool :=
  match v with
  | .absent => false
  | .one s => es.contains s
  | .many xs => xs.any (fun x => es.contains x)

def byRegex (r : Str → Bool) (v : AttrVal) : Bool :=
  match v with
  | .absent => false
  | .one s => r s
  | .many xs => xs.any r

/-- regex oracle: `rx i s` ⇔ `pattern_i.search(s)` succeeds -/
abbrev Rx := Nat → Str → Bool

def Matcher.eval (rx : Rx) (c : Ctx) : Matcher → Bool
  | .value a (.one e) => byValue (attrOf c a) e
  | .value a (.many es) => byValueList (attrOf c a) es
  | .regex a i => byRegex (rx i) (attrOf c a)
  | .func .isDeprecated => c.view.deprecated
  | .func (.user i) => c.view.fns.getD i false

/-- `Filter.matchers` (a tuple); `Filter.match` = all matchers match -/
abbrev Filter := List Matcher

def evalFilter (rx : Rx) (c : Ctx) (f : Filter) : Bool := f.all (fun m => m.eval rx c)

/-- `FilterSet`: the two Python sets as duplicate-free lists (insertion order; the order is never observable) -/
structure FilterSet where
  includes : List Filter
  excludes : List Filter
  deriving Repr, DecidableEq

def FilterSet.empty : FilterSet := ⟨[], []⟩

def FilterSet.isEmpty (fs : FilterSet) : Bool := fs.includes.isEmpty && fs.excludes.isEmpty

/-- `FilterSet.match` -/
def matchFS (rx : Rx) (fs : FilterSet) (c : Ctx) : Bool :=
  if fs.excludes.any (evalFilter rx c) then false
  else if fs.includes.isEmpty then true
  else fs.includes.any (evalFilter rx c)

/-! ## building filters: `_add_filter` -/

inductive Err where
  | expectedAndRegex | emptyFilter | filterExists | duplicateValues
  deriving Repr, DecidableEq

/-- one attribute's `(expected, regex)` keyword pair -/
structure Crit where
  expected : Option Expected
  regex : Option Nat
  deriving Repr, DecidableEq

def Crit.none : Crit := ⟨Option.none, Option.none⟩

structure FilterArgs where
  func : Option Fn
  name : Crit
  method : Crit
  path : Crit
  tag : Crit
  operationId : Crit
  deriving Repr, DecidableEq

def FilterArgs.none : FilterArgs := ⟨Option.none, Crit.none, Crit.none, Crit.none, Crit.none, Crit.none⟩

/-- `_normalize_method` -/
def normalizeMethod : Expected → Expected
  | .one s => .one (upper s)
  | .many xs => .many (xs.map upper)

def normExpected (a : Attr) (e : Expected) : Expected :=
  match a with
  | .method => normalizeMethod e
  | _ => e

/-- the matchers one attribute contributes; `none` = "expected value and regex simultaneously" -/
def critMatchers (a : Attr) (c : Crit) : Option (List Matcher) :=
  match c.expected, c.regex with
  | some _, some _ => Option.none
  | some e, Option.none => some [.value a (normExpected a e)]
  | Option.none, some i => some [.regex a i]
  | Option.none, Option.none => some []

def funcMatchers : Option Fn → List Matcher
  | Option.none => []
  | some f => [.func f]

/-- the `matchers` list of `_add_filter`, in its fixed order -/
def buildMatchers (a : FilterArgs) : Except Err (List Matcher) :=
  match critMatchers .label a.name, critMatchers .method a.method, critMatchers .path a.path,
        critMatchers .tag a.tag, critMatchers .operationId a.operationId with
  | some n, some m, some p, some t, some o => .ok (funcMatchers a.func ++ n ++ m ++ p ++ t ++ o)
  | _, _, _, _, _ => .error .expectedAndRegex

/-- `FilterSet._add_filter` -/
def addFilter (fs : FilterSet) (inc : Bool) (a : FilterArgs) : Except Err FilterSet :=
  match buildMatchers a with
  | .error e => .error e
  | .ok ms =>
    if ms.isEmpty then .error .emptyFilter
    else if fs.includes.contains ms || fs.excludes.contains ms then .error .filterExists
    else if inc then .ok { fs with includes := fs.includes ++ [ms] }
    else .ok { fs with excludes := fs.excludes ++ [ms] }

/-- `BaseSchema.include` / `LazySchema.include` (the clone is the identity on values) -/
def schemaInclude (fs : FilterSet) (a : FilterArgs) : Except Err FilterSet := addFilter fs true a

/-- `BaseSchema.exclude` / `LazySchema.exclude` with its `deprecated=` flag -/
def schemaExclude (fs : FilterSet) (a : FilterArgs) (deprecated : Bool) : Except Err FilterSet :=
  if deprecated then
    match a.func with
    | Option.none => addFilter fs false { a with func := some .isDeprecated }
    | some _ =>
      match addFilter fs false { FilterArgs.none with func := some .isDeprecated } with
      | .error e => .error e
      | .ok fs' => addFilter fs' false a
  else addFilter fs false a

/-- one `schema.include(...)` / `schema.exclude(...)` call -/
structure Call where
  isInclude : Bool
  deprecated : Bool
  args : FilterArgs
  deriving Repr, DecidableEq

def applyCall (fs : FilterSet) (c : Call) : Except Err FilterSet :=
  if c.isInclude then schemaInclude fs c.args else schemaExclude fs c.args c.deprecated

def applyCalls (fs : FilterSet) : List Call → Except Err FilterSet
  | [] => .ok fs
  | c :: cs =>
    match applyCall fs c with
    | .error e => .error e
    | .ok fs' => applyCalls fs' cs

/-! ## the command line: `FilterArguments.into` -/

structure CliArgs where
  includePath : List Str
  includeMethod : List Str
  includeName : List Str
  includeTag : List Str
  includeOperationId : List Str
  includePathRegex : Option Nat
  includeMethodRegex : Option Nat
  includeNameRegex : Option Nat
  includeTagRegex : Option Nat
  includeOperationIdRegex : Option Nat
  excludePath : List Str
  excludeMethod : List Str
  excludeName : List Str
  excludeTag : List Str
  excludeOperationId : List Str
  excludePathRegex : Option Nat
  excludeMethodRegex : Option Nat
  excludeNameRegex : Option Nat
  excludeTagRegex : Option Nat
  excludeOperationIdRegex : Option Nat
  includeBy : Option Nat
  excludeBy : Option Nat
  excludeDeprecated : Bool
  deriving Repr

/-- `len(values) != len(set(values))` -/
def hasDup : List Str → Bool
  | [] => false
  | x :: xs => xs.contains x || hasDup xs

def valueArgs (a : Attr) (s : Str) : FilterArgs :=
  let c : Crit := ⟨some (.one s), Option.none⟩
  match a with
  | .label => { FilterArgs.none with name := c }
  | .method => { FilterArgs.none with method := c }
  | .path => { FilterArgs.none with path := c }
  | .tag => { FilterArgs.none with tag := c }
  | .operationId => { FilterArgs.none with operationId := c }

def regexArgs (a : Attr) (i : Nat) : FilterArgs :=
  let c : Crit := ⟨Option.none, some i⟩
  match a with
  | .label => { FilterArgs.none with name := c }
  | .method => { FilterArgs.none with method := c }
  | .path => { FilterArgs.none with path := c }
  | .tag => { FilterArgs.none with tag := c }
  | .operationId => { FilterArgs.none with operationId := c }

def funcArgs (f : Fn) : FilterArgs := { FilterArgs.none with func := some f }

def rxCrit (r : Option Nat) : Crit := ⟨Option.none, r⟩

/-- `if value: filter_set.include/exclude(func)` for `--include-by` / `--exclude-by` -/
def optFuncCall : Option Nat → List FilterArgs
  | some i => [funcArgs (.user i)]
  | Option.none => []

/-- `if value: apply_exclude_filter(filter_set, name, **{key: value})` for one `--exclude-X-regex` -/
def optRegexCall (a : Attr) : Option Nat → List FilterArgs
  | some i => [regexArgs a i]
  | Option.none => []

/-- the single `filter_set.include(name_regex=…, method_regex=…, …)` call for all `--include-X-regex` options -/
def combinedRegexCall (n m p t o : Option Nat) : List FilterArgs :=
  if n.isSome || m.isSome || p.isSome || t.isSome || o.isSome then
    [{ func := Option.none, name := rxCrit n, method := rxCrit m, path := rxCrit p, tag := rxCrit t,
       operationId := rxCrit o }]
  else []

def deprecatedCall (b : Bool) : List FilterArgs := if b then [funcArgs .isDeprecated] else []

/-- the `filter_set.include(...)` calls `into` performs, in order -/
def cliIncludeCalls (c : CliArgs) : List FilterArgs :=
  optFuncCall c.includeBy
  ++ c.includeName.map (valueArgs .label)
  ++ c.includeMethod.map (valueArgs .method)
  ++ c.includePath.map (valueArgs .path)
  ++ c.includeTag.map (valueArgs .tag)
  ++ c.includeOperationId.map (valueArgs .operationId)
  ++ combinedRegexCall c.includeNameRegex c.includeMethodRegex c.includePathRegex c.includeTagRegex
       c.includeOperationIdRegex

/-- the `filter_set.exclude(...)` calls `into` performs afterwards, in order -/
def cliExcludeCalls (c : CliArgs) : List FilterArgs :=
  optFuncCall c.excludeBy
  ++ c.excludeName.map (valueArgs .label)
  ++ c.excludeMethod.map (valueArgs .method)
  ++ c.excludePath.map (valueArgs .path)
  ++ c.excludeTag.map (valueArgs .tag)
  ++ c.excludeOperationId.map (valueArgs .operationId)
  ++ optRegexCall .label c.excludeNameRegex
  ++ optRegexCall .method c.excludeMethodRegex
  ++ optRegexCall .path c.excludePathRegex
  ++ optRegexCall .tag c.excludeTagRegex
  ++ optRegexCall .operationId c.excludeOperationIdRegex
  ++ deprecatedCall c.excludeDeprecated

/-- a run of `include` (or `exclude`) calls; the first error aborts -/
def addEach (inc : Bool) (fs : FilterSet) : List FilterArgs → Except Err FilterSet
  | [] => .ok fs
  | a :: rest =>
    match addFilter fs inc a with
    | .error e => .error e
    | .ok fs' => addEach inc fs' rest

/-- `FilterArguments.into` -/
def cliInto (c : CliArgs) : Except Err FilterSet :=
  if hasDup c.includePath || hasDup c.includeMethod || hasDup c.includeName || hasDup c.includeTag
     || hasDup c.includeOperationId || hasDup c.excludePath || hasDup c.excludeMethod || hasDup c.excludeName
     || hasDup c.excludeTag || hasDup c.excludeOperationId then .error .duplicateValues
  else
    match addEach true FilterSet.empty (cliIncludeCalls c) with
    | .error e => .error e
    | .ok fs => addEach false fs (cliExcludeCalls c)

/-! ## Open API documents -/

def httpMethods : List Str :=
  ["get".toList, "put".toList, "post".toList, "delete".toList, "options".toList, "head".toList, "patch".toList,
   "trace".toList]

def isHttp (m : Str) : Bool := httpMethods.contains m

/-- `f"{method.upper()} {path}"` -/
def oasLabel (method path : Str) : Str := upper method ++ ' ' :: path

def Op.oasLabel (o : Op) : Str := SV.Model.C07.oasLabel o.method o.path

/-- the shared `_ctx_cache.operation` after the assignments of `_should_skip` -/
def ctxOf (o : Op) (vs : ViewSel) : Ctx := ⟨o.oasLabel, o.method, o.path, o.view vs⟩

/-- `BaseOpenAPISchema._should_skip(path, method, definition)`; `vs` says which definition the caller passes -/
def shouldSkip (rx : Rx) (fs : FilterSet) (o : Op) (vs : ViewSel) : Bool :=
  if !(isHttp o.method) then true
  else if fs.isEmpty then false
  else !(matchFS rx fs (ctxOf o vs))

abbrev Doc := List Op

/-- `get_all_operations` (the `Ok` results, in order) -/
def getAllOperations (rx : Rx) (fs : FilterSet) (doc : Doc) : List Op :=
  doc.filter fun o => isHttp o.method && !(shouldSkip rx fs o .res)

/-- `_operation_iter` -/
def operationIter (rx : Rx) (fs : FilterSet) (doc : Doc) : List Op :=
  doc.filter fun o => !(shouldSkip rx fs o .raw)

inductive Variant where
  | asFound      -- as in the pinned snapshot
  | repaired
  deriving Repr, DecidableEq

/-- which definition `_measure_statistic` hands to `_should_skip` -/
def statView : Variant → ViewSel
  | .asFound => .raw
  | .repaired => .res

structure Stat where
  opsTotal : Nat
  opsSelected : Nat
  linksTotal : Nat
  linksSelected : Nat
  deriving Repr, DecidableEq

def linkPairs (ops : List Op) : List (Op × Link) := ops.flatMap fun o => o.links.map fun l => (o, l)

/-- `is_link_selected` -/
def isLinkSelected (ids : List Str) (byPath : List (Str × Str)) : LinkTarget → Bool
  | .byId id => ids.contains id
  | .byRef m p => byPath.contains (m, p)
  | .broken => false

def httpOps (doc : Doc) : List Op := doc.filter fun o => isHttp o.method

def statSelected (v : Variant) (rx : Rx) (fs : FilterSet) (doc : Doc) : List Op :=
  (httpOps doc).filter fun o => !(shouldSkip rx fs o (statView v))

/-- `_measure_statistic` -/
def measureStatistic (v : Variant) (rx : Rx) (fs : FilterSet) (doc : Doc) : Stat :=
  let sel := statSelected v rx fs doc
  let ids := sel.filterMap fun o => o.raw.operationId
  let byPath := sel.map fun o => (o.method, o.path)
  { opsTotal := (httpOps doc).length
    opsSelected := sel.length
    linksTotal := (linkPairs (httpOps doc)).length
    linksSelected := ((linkPairs sel).filter fun p => isLinkSelected ids byPath p.2.target).length }

/-! ## the state machine -/

/-- `get_operation_by_id` (unique ids assumed: the first definition carrying the id) -/
def findById (doc : Doc) (id : Str) : Option Op := (httpOps doc).find? fun o => o.raw.operationId == some id

/-- `get_operation_by_reference` for references of the form `#/paths/<path>/<method>` -/
def findByRef (doc : Doc) (m p : Str) : Option Op := (httpOps doc).find? fun o => o.method == m && o.path == p

def resolveTarget (doc : Doc) : LinkTarget → Option Op
  | .byId id => findById doc id
  | .byRef m p => findByRef doc m p
  | .broken => Option.none

structure Transition where
  source : Str
  status : Str
  name : Str
  target : Str
  deriving Repr, DecidableEq

def keepTransition (doc : Doc) (labels : List Str) (p : Op × Link) : Option Transition :=
  match resolveTarget doc p.2.target with
  | some t => if labels.contains t.oasLabel then some ⟨p.1.oasLabel, p.2.status, p.2.name, t.oasLabel⟩ else Option.none
  | Option.none => Option.none

/-- `collect_transitions`; `none` = `InvalidStateMachine` (a link of a selected operation has no target) -/
def collectTransitions (rx : Rx) (fs : FilterSet) (doc : Doc) : Option (List Transition) :=
  let ops := getAllOperations rx fs doc
  let labels := ops.map Op.oasLabel
  let pairs := linkPairs ops
  if pairs.all (fun p => (resolveTarget doc p.2.target).isSome) then
    some (pairs.filterMap (keepTransition doc labels))
  else Option.none

/-- `is_likely_root_transition` -/
def isLikelyRoot (o : Op) : Bool :=
  (o.method == "post".toList && o.hasBody) || (o.method == "get".toList && !o.hasPathParams)

inductive Rule where
  | link (t : Transition)
  | root (label : Str)
  deriving Repr, DecidableEq

/-- the rule set of `create_state_machine` -/
def stateMachineRules (rx : Rx) (fs : FilterSet) (doc : Doc) : Option (List Rule) :=
  match collectTransitions rx fs doc with
  | Option.none => Option.none
  | some ts =>
    let ops := getAllOperations rx fs doc
    let hasOut (o : Op) : Bool := ts.any fun t => t.source == o.oasLabel
    let reliable := ops.filter fun o => hasOut o && isLikelyRoot o
    let fallback := ops.filter fun o => hasOut o && !(isLikelyRoot o)
    let known (o : Op) : Bool := ts.any fun t => t.source == o.oasLabel || t.target == o.oasLabel
    some (ops.flatMap fun target =>
      if known target then
        ((ts.filter fun t => t.target == target.oasLabel).map Rule.link)
        ++ (if reliable.contains target || (reliable.isEmpty && fallback.contains target) then [Rule.root target.oasLabel]
            else [])
      else [])

/-! ## lazy fixtures: `pytest/lazy.py:get_schema` -/

def unionFilters (a b : List Filter) : List Filter := a ++ b.filter fun f => !(a.contains f)

/-- the filter set of the schema `get_schema` returns, from the fixture schema's and the lazy object's -/
def lazyFilterSet (v : Variant) (fixture lazy : FilterSet) : FilterSet :=
  match v with
  | .asFound => lazy
  | .repaired => ⟨unionFilters fixture.includes lazy.includes, unionFilters fixture.excludes lazy.excludes⟩

/-! ## GraphQL (selection by `name` only) -/

def gqlCtx (o : Op) : Ctx := ⟨o.label, o.method, o.path, o.res⟩

/-- `GraphQLSchema._should_skip` -/
def gqlShouldSkip (rx : Rx) (fs : FilterSet) (o : Op) : Bool := !(matchFS rx fs (gqlCtx o))

def gqlAllOperations (rx : Rx) (fs : FilterSet) (doc : Doc) : List Op := doc.filter fun o => !(gqlShouldSkip rx fs o)

def gqlStatistic (rx : Rx) (fs : FilterSet) (doc : Doc) : Nat × Nat :=
  (doc.length, (doc.filter fun o => !(gqlShouldSkip rx fs o)).length)

/-! ## object identity: `set` objects, `FilterSet` objects, derivation histories

  Everything above treats a filter set as a value.  The Python objects are mutable: `FilterSet._includes/_excludes`
  are references to `set` objects, `_add_filter` adds to them *in place*, and `include`/`exclude` of a schema (or of a
  `LazySchema`) work on a `clone()` of the parent's `FilterSet`.  This section models the `set` objects by address, so
  that sharing between a parent and the schemas derived from it is expressible.
  Anchors: filters.py `FilterSet.__init__` (`arg or set()`), `clone`, `merge`, `_add_filter` (`set.add`);
  schemas.py `BaseSchema.include/exclude/clone`; pytest/lazy.py `LazySchema.include/exclude`, `get_schema`. -/

/-- the part of the Python heap that matters: `set` objects by address; `next` is the first unused address -/
structure Heap where
  cells : Nat → List Filter
  next : Nat

def Heap.empty : Heap := ⟨fun _ => [], 0⟩

def upd (f : Nat → List Filter) (k : Nat) (v : List Filter) : Nat → List Filter := fun j => if j = k then v else f j

/-- a new `set` object -/
def Heap.alloc (h : Heap) (v : List Filter) : Heap × Nat := (⟨upd h.cells h.next v, h.next + 1⟩, h.next)

/-- in-place change of an existing `set` object -/
def Heap.write (h : Heap) (a : Nat) (v : List Filter) : Heap := ⟨upd h.cells a v, h.next⟩

/-- a `FilterSet` object: its two slots refer to `set` objects (the slots are never rebound after `__init__`) -/
structure FSRef where
  inc : Nat
  exc : Nat
  deriving DecidableEq, Repr

/-- the filter set (as a value) an object denotes in a heap -/
def denote (h : Heap) (r : FSRef) : FilterSet := ⟨h.cells r.inc, h.cells r.exc⟩

/-- `arg or set()`: an empty set passed to the constructor is replaced by a fresh one, a non-empty one is *kept* -/
def orFresh (h : Heap) (a : Nat) : Heap × Nat := if (h.cells a).isEmpty then h.alloc [] else (h, a)

/-- `FilterSet.__init__(_includes=i, _excludes=e)` -/
def fsInit (h : Heap) (i e : Nat) : Heap × FSRef :=
  let a := orFresh h i
  let b := orFresh a.1 e
  (b.1, ⟨a.2, b.2⟩)

/-- `FilterSet()` -/
def fsNew (h : Heap) : Heap × FSRef :=
  let a := h.alloc []
  let b := a.1.alloc []
  (b.1, ⟨a.2, b.2⟩)

/-- `FilterSet.clone`: both sets are copied, the copies go through the constructor -/
def fsClone (h : Heap) (r : FSRef) : Heap × FSRef :=
  let a := h.alloc (h.cells r.inc)
  let b := a.1.alloc (a.1.cells r.exc)
  fsInit b.1 a.2 b.2

/-- `FilterSet.merge`: `|` builds new sets, which go through the constructor -/
def fsMerge (h : Heap) (r o : FSRef) : Heap × FSRef :=
  let a := h.alloc (unionFilters (h.cells r.inc) (h.cells o.inc))
  let b := a.1.alloc (unionFilters (a.1.cells r.exc) (a.1.cells o.exc))
  fsInit b.1 a.2 b.2

/-- `FilterSet._add_filter` on an object: `set.add` on one of its two sets, in place; `some e` = `IncorrectUsage` -/
def addFilterAt (h : Heap) (r : FSRef) (inc : Bool) (a : FilterArgs) : Heap × Option Err :=
  match buildMatchers a with
  | .error e => (h, some e)
  | .ok ms =>
    if ms.isEmpty then (h, some .emptyFilter)
    else if (h.cells r.inc).contains ms || (h.cells r.exc).contains ms then (h, some .filterExists)
    else if inc then (h.write r.inc (h.cells r.inc ++ [ms]), Option.none)
    else (h.write r.exc (h.cells r.exc ++ [ms]), Option.none)

/-- the `exclude` body after the clone (`deprecated=` flag as in `schemaExclude`); a first successful `exclude` stays
    in the heap when the second one is refused -/
def excludeAt (h : Heap) (r : FSRef) (a : FilterArgs) (deprecated : Bool) : Heap × Option Err :=
  if deprecated then
    match a.func with
    | Option.none => addFilterAt h r false { a with func := some .isDeprecated }
    | some _ =>
      let first := addFilterAt h r false { FilterArgs.none with func := some .isDeprecated }
      match first.2 with
      | some e => (first.1, some e)
      | Option.none => addFilterAt first.1 r false a
  else addFilterAt h r false a

/-- `BaseSchema.include/exclude`, `LazySchema.include/exclude`: clone the parent's `FilterSet`, add to the clone, hand
    the clone to the new object.  Result: the heap afterwards and the new object's `FilterSet` (or the refusal). -/
def deriveAt (h : Heap) (parent : FSRef) (c : Call) : Heap × Except Err FSRef :=
  let cl := fsClone h parent
  let r := if c.isInclude then addFilterAt cl.1 cl.2 true c.args else excludeAt cl.1 cl.2 c.args c.deprecated
  match r.2 with
  | some e => (r.1, .error e)
  | Option.none => (r.1, .ok cl.2)

/-- `get_schema`: as found the lazy object's `FilterSet` object itself is handed to the clone of the fixture's schema;
    repaired, a merged `FilterSet` is built -/
def resolveAt (v : Variant) (h : Heap) (fixture lazy : FSRef) : Heap × FSRef :=
  match v with
  | .asFound => (h, lazy)
  | .repaired => fsMerge h fixture lazy

/-- a run of in-place `filter_set.include(…)` (or `.exclude(…)`) calls on one object; the first refusal aborts and
    leaves what was added so far in the object -/
def addEachAt (inc : Bool) (h : Heap) (r : FSRef) : List FilterArgs → Heap × Option Err
  | [] => (h, Option.none)
  | a :: rest =>
    let x := addFilterAt h r inc a
    match x.2 with
    | some e => (x.1, some e)
    | Option.none => addEachAt inc x.1 r rest

/-- `FilterArguments.into`: a new `FilterSet()` filled in place; the command line then assigns this object to the
    freshly loaded schema (`schema.filter_set = config.filter_set`, cli/commands/run/executor.py) -/
def cliIntoAt (h : Heap) (c : CliArgs) : Heap × Except Err FSRef :=
  if hasDup c.includePath || hasDup c.includeMethod || hasDup c.includeName || hasDup c.includeTag
     || hasDup c.includeOperationId || hasDup c.excludePath || hasDup c.excludeMethod || hasDup c.excludeName
     || hasDup c.excludeTag || hasDup c.excludeOperationId then (h, .error .duplicateValues)
  else
    let n := fsNew h
    let i := addEachAt true n.1 n.2 (cliIncludeCalls c)
    match i.2 with
    | some e => (i.1, .error e)
    | Option.none =>
      let x := addEachAt false i.1 n.2 (cliExcludeCalls c)
      match x.2 with
      | some e => (x.1, .error e)
      | Option.none => (x.1, .ok n.2)

/-- one step of a derivation history over the objects created so far (schemas and lazy schemas, by creation index) -/
inductive HOp where
  | derive (parent : Nat) (c : Call)     -- `objs[parent].include(…)` / `.exclude(…)`; a new object when accepted
  | share (parent : Nat)                 -- `schema.clone()` / `schema.parametrize()`: a new schema, the SAME `FilterSet`
  | resolve (lazy fixture : Nat)         -- `get_schema`: the fixture's schema re-created for a lazy object
  | adopt (c : CliArgs)                  -- a command-line run: a freshly loaded schema is given `into()`'s `FilterSet`
  deriving Repr

structure HState where
  heap : Heap
  objs : List FSRef

/-- `n` freshly loaded schemas / `from_fixture` objects, each with its own `FilterSet()` -/
def HState.roots : Nat → HState
  | 0 => ⟨Heap.empty, []⟩
  | n + 1 =>
    let s := HState.roots n
    let r := fsNew s.heap
    ⟨r.1, s.objs ++ [r.2]⟩

/-- one step; the second component is the refusal, if any (out-of-range indices do nothing) -/
def hstep (v : Variant) (s : HState) : HOp → HState × Option Err
  | .derive p c =>
    match s.objs[p]? with
    | Option.none => (s, Option.none)
    | some r =>
      let d := deriveAt s.heap r c
      match d.2 with
      | .error e => (⟨d.1, s.objs⟩, some e)
      | .ok r' => (⟨d.1, s.objs ++ [r']⟩, Option.none)
  | .share p =>
    match s.objs[p]? with
    | Option.none => (s, Option.none)
    | some r => (⟨s.heap, s.objs ++ [r]⟩, Option.none)
  | .resolve l f =>
    match s.objs[l]? with
    | Option.none => (s, Option.none)
    | some lz =>
      match s.objs[f]? with
      | Option.none => (s, Option.none)
      | some fx =>
        let r := resolveAt v s.heap fx lz
        (⟨r.1, s.objs ++ [r.2]⟩, Option.none)
  | .adopt c =>
    let d := cliIntoAt s.heap c
    match d.2 with
    | .error e => (⟨d.1, s.objs⟩, some e)
    | .ok r => (⟨d.1, s.objs ++ [r]⟩, Option.none)

def hrun (v : Variant) (s : HState) : List HOp → HState
  | [] => s
  | op :: ops => hrun v (hstep v s op).1 ops

/-- the filter sets all objects denote now -/
def HState.values (s : HState) : List FilterSet := s.objs.map (denote s.heap)

end SV.Model.C07
