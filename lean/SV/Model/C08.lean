/-
  Model of "every documented operation is offered with its effective parameters, or reported" (C08).
  Python anchors (src/schemathesis):
    specs/openapi/schemas.py    : get_all_operations, _collect_operation_parameters, _resolve_path_item,
                                  _resolve_shared_parameters, _resolve_operation, OpenApi30.collect_parameters,
                                  check_header, make_operation, _get_operation_map, MethodMap._init_operation,
                                  get_operation_by_id, _populate_operation_id_cache, get_operation_by_reference
    specs/openapi/_cache.py     : OperationCache (all methods)
    specs/openapi/references.py : InliningResolver.resolve / resolve_all (entry level, RECURSION_DEPTH_LIMIT)
    specs/openapi/security.py   : BaseSecurityProcessor.process_definitions (Open API 3 processor)
    schemas.py                  : APIOperation.add_parameter / get_parameter, ParameterSet.get
  Shape: `iterate`/`iterEvents` = get_all_operations (complete / step by step); `byPM` = `getMap` (_get_operation_map)
  then `initOp` (MethodMap._init_operation); `byId` = first-level hit, `ensureDefs` (_populate_operation_id_cache),
  `idLookup`; `byRef` = get_operation_by_reference; `step`/`run` = the access machine over `St` (cache, scope pushed
  by a suspended generator, what that generator will still yield). One `Variant` flag per defect site (`Cfg`).
  Abstractions (validated by the correspondence run, see harness/corr/c08.py):
    * a document is the list of path entries of the root file plus, per file, the tables of referencable
      parameter entries and path items; `urljoin` + file loading is the finite table `links`
      ((file, relative file part of a $ref) -> file);
    * a parameter definition is (name?, in?, required, tag); the tag stands for the rest of the definition
      (schema, after inlining of its own references);
    * Open API 3.x only (`requestBody`, `components.securitySchemes`).
  Core Lean only.
-/
import SV.Json

namespace SV.Model.C08

inductive Variant where
  | asFound | repaired
  deriving DecidableEq, Repr

/-- one flag per defect site -/
structure Cfg where
  /-- F14: `chain(operation parameters, shared parameters)` without removing overridden shared ones -/
  merge : Variant
  /-- F15: scope in which `MethodMap._init_operation` / `get_operation_by_id` resolve parameters -/
  lookupScope : Variant
  /-- TypeError (non-object parameter entry) escapes `get_all_operations` -/
  typeErr : Variant
  /-- `get_all_operations` yields while the path item's scope is pushed on the shared resolver -/
  suspend : Variant
  /-- one unresolvable path item aborts `_populate_operation_id_cache` half-way -/
  populate : Variant
  deriving DecidableEq, Repr

def Cfg.asFound : Cfg := ⟨.asFound, .asFound, .asFound, .asFound, .asFound⟩
def Cfg.repaired : Cfg := ⟨.repaired, .repaired, .repaired, .repaired, .repaired⟩

/-- exception classes as the harness canonicalises them -/
inductive Err where
  | ref        -- RefResolutionError
  | key        -- KeyError / LookupError (incl. OperationNotFound)
  | invalid    -- InvalidSchema
  | type       -- TypeError
  deriving DecidableEq, Repr

instance instDecEqExcept {ε α : Type} [DecidableEq ε] [DecidableEq α] : DecidableEq (Except ε α) := fun a b =>
  match a, b with
  | .ok x, .ok y => if h : x = y then isTrue (by rw [h]) else isFalse (fun h' => h (by cases h'; rfl))
  | .error x, .error y => if h : x = y then isTrue (by rw [h]) else isFalse (fun h' => h (by cases h'; rfl))
  | .ok _, .error _ => isFalse (fun h => by cases h)
  | .error _, .ok _ => isFalse (fun h => by cases h)

/-! ## documents -/

structure Param where
  name : Option String
  loc : Option String
  required : Bool
  tag : Nat
  deriving DecidableEq, Repr

/-- one element of a `parameters` array -/
inductive PEntry where
  | inline (p : Param)
  | ref (file : String) (ptr : String)    -- {"$ref": file ++ "#" ++ ptr}; file = "" for a local reference
  | junk                                  -- not an object (string, null, …)
  deriving DecidableEq, Repr

inductive BodyField where
  | absent
  | present (content : Option (List (String × Nat))) (required : Bool)   -- `content` missing → KeyError
  deriving DecidableEq, Repr

structure OpDef where
  opId : Option String
  params : List PEntry
  body : BodyField
  security : Option (List String)          -- operation-level requirement names (`none`: key absent)
  deriving DecidableEq, Repr

structure PathItem where
  shared : List PEntry
  entries : List (String × OpDef)          -- keys in document order (HTTP methods and other keys)
  deriving DecidableEq, Repr

inductive PathEntry where
  | inline (item : PathItem)
  | ref (file : String) (ptr : String)
  deriving DecidableEq, Repr

structure SecScheme where
  key : String
  type : Option String
  name : Option String
  loc : Option String
  deriving DecidableEq, Repr

/-- referencable content of one file -/
structure FileDoc where
  params : List (String × PEntry)
  items : List (String × PathItem)
  deriving DecidableEq, Repr

structure Doc where
  paths : List (String × PathEntry)
  files : List FileDoc                      -- index = file id, 0 = root file
  links : List ((Nat × String) × Nat)       -- (from file, file part of the reference) ↦ file
  schemes : List SecScheme
  globalSec : List String
  deriving Repr

/-- resolution scope: a file plus the fragment it was reached by (only the file matters for resolution;
    the fragment is part of the traversal-cache key because scopes are compared as URL strings) -/
structure Scope where
  file : Nat
  frag : Option String
  deriving DecidableEq, Repr

def base : Scope := ⟨0, none⟩

def assoc {α β : Type} [DecidableEq α] (k : α) : List (α × β) → Option β
  | [] => none
  | (k', v) :: rest => if k = k' then some v else assoc k rest

/-! ## reference resolution -/

def targetFile (d : Doc) (top : Scope) (file : String) : Option Nat :=
  if file = "" then some top.file else assoc (top.file, file) d.links

/-- `resolver.resolve(ref)` for a reference to a parameter -/
def resolveParam (d : Doc) (top : Scope) (file ptr : String) : Except Err (Scope × PEntry) :=
  match targetFile d top file with
  | none => .error .ref
  | some f =>
    match d.files[f]? with
    | none => .error .ref
    | some fd =>
      match assoc ptr fd.params with
      | none => .error .ref
      | some e => .ok (⟨f, some ptr⟩, e)

def resolveItem (d : Doc) (top : Scope) (file ptr : String) : Except Err (Scope × PathItem) :=
  match targetFile d top file with
  | none => .error .ref
  | some f =>
    match d.files[f]? with
    | none => .error .ref
    | some fd =>
      match assoc ptr fd.items with
      | none => .error .ref
      | some it => .ok (⟨f, some ptr⟩, it)

/-- `_resolve_path_item` -/
def resolvePathItem (d : Doc) (top : Scope) : PathEntry → Except Err (Scope × PathItem)
  | .inline it => .ok (top, it)
  | .ref f p => resolveItem d top f p

/-- a resolved element of a `parameters` array -/
inductive REntry where
  | param (p : Param)
  | junk
  deriving DecidableEq, Repr

/-- what `resolve_all` returns when the depth limit is hit: a copy of the target, unresolved -/
def asIs : PEntry → REntry
  | .inline p => .param p
  | .ref _ _ => .param ⟨none, none, false, 0⟩       -- the `{"$ref": …}` object itself
  | .junk => .junk

/-- `RECURSION_DEPTH_LIMIT - (RECURSION_DEPTH_LIMIT - 8)`: reference hops that are followed -/
def hops : Nat := 8

/-- `resolve_all` on one element; `b` = hops still followed -/
def resolveEntry (d : Doc) : Nat → Scope → PEntry → Except Err REntry
  | _, _, .inline p => .ok (.param p)
  | _, _, .junk => .ok .junk
  | 0, top, .ref f p =>
    match resolveParam d top f p with
    | .error e => .error e
    | .ok (_, e') => .ok (asIs e')
  | b + 1, top, .ref f p =>
    match resolveParam d top f p with
    | .error e => .error e
    | .ok (s', e') => resolveEntry d b s' e'

def resolveEntries (d : Doc) (top : Scope) : List PEntry → Except Err (List REntry)
  | [] => .ok []
  | e :: rest =>
    match resolveEntry d hops top e with
    | .error x => .error x
    | .ok r =>
      match resolveEntries d top rest with
      | .error x => .error x
      | .ok rs => .ok (r :: rs)

/-! ## collecting parameters -/

def isSpace (c : Char) : Bool :=
  c = ' ' || c = '\t' || c = '\n' || c = '\r' || c = '\x0b' || c = '\x0c' ||
  c = '\x1c' || c = '\x1d' || c = '\x1e' || c = '\x1f'

/-- `check_header` on the name: non-empty, ASCII, requests' `^[^:\s][^:\r\n]*\Z` -/
def headerOk (name : String) : Bool :=
  match name.toList with
  | [] => false
  | c :: rest =>
    (c :: rest).all (fun x => x.toNat < 128) && !(c = ':') && !(isSpace c) &&
    rest.all (fun x => !(x = ':') && !(x = '\r') && !(x = '\n'))

def sameKey (a b : Param) : Bool := a.name = b.name && a.loc = b.loc

def overriddenBy (op : List REntry) (s : Param) : Bool :=
  op.any fun o => match o with
    | .param p => sameKey p s
    | .junk => false

/-- `itertools.chain(parameters, shared_parameters)`; the repaired variant drops shared parameters that an
    operation-level parameter of the same name and location overrides -/
def mergeEntries (v : Variant) (op shared : List REntry) : List REntry :=
  match v with
  | .asFound => op ++ shared
  | .repaired => op ++ shared.filter fun s => match s with
      | .junk => true
      | .param sp => !(overriddenBy op sp)

/-- the parameter loop of `OpenApi30.collect_parameters` -/
def collectParams : List REntry → Except Err (List Param)
  | [] => .ok []
  | .junk :: _ => .error .type
  | .param p :: rest =>
    match p.loc with
    | none => .error .key
    | some l =>
      let hdr : Except Err Unit :=
        if l = "header" || l = "cookie" then
          match p.name with
          | none => .error .key
          | some n => if headerOk n then .ok () else .error .invalid
        else .ok ()
      match hdr with
      | .error e => .error e
      | .ok () =>
        match collectParams rest with
        | .error e => .error e
        | .ok ps => .ok (p :: ps)

structure Body where
  media : String
  tag : Nat
  required : Bool
  deriving DecidableEq, Repr

def collectBodies : BodyField → Except Err (List Body)
  | .absent => .ok []
  | .present none _ => .error .key
  | .present (some c) r => .ok (c.map fun (m, t) => ⟨m, t, r⟩)

structure Operation where
  path : String
  method : String
  pathParams : List Param
  headers : List Param
  cookies : List Param
  query : List Param
  body : List Body
  deriving DecidableEq, Repr

/-- `APIOperation.add_parameter`: unknown locations are ignored -/
def addParam (o : Operation) (p : Param) : Operation :=
  match p.loc with
  | none => o
  | some l =>
    if l = "path" then { o with pathParams := o.pathParams ++ [p] }
    else if l = "header" then { o with headers := o.headers ++ [p] }
    else if l = "cookie" then { o with cookies := o.cookies ++ [p] }
    else if l = "query" then { o with query := o.query ++ [p] }
    else o

def container (o : Operation) (loc : String) : Option (List Param) :=
  if loc = "path" then some o.pathParams
  else if loc = "header" then some o.headers
  else if loc = "cookie" then some o.cookies
  else if loc = "query" then some o.query
  else none

/-- `ParameterSet.get`: `parameter.name` raises KeyError on a nameless definition -/
def setGet (name : String) : List Param → Except Err (Option Param)
  | [] => .ok none
  | p :: rest =>
    match p.name with
    | none => .error .key
    | some n => if n = name then .ok (some p) else setGet name rest

def getParameter (o : Operation) (name loc : String) : Except Err (Option Param) :=
  match container o loc with
  | none => .ok none
  | some ps => setGet name ps

/-- security parameters carry tag 0 -/
def apiKeyParam (name loc : String) : Param := ⟨some name, some loc, true, 0⟩
def httpAuthParam : Param := ⟨some "Authorization", some "header", true, 0⟩

/-- `operation.get_parameter(name, location) is not None` for a scheme that has both `name` and `in` -/
def schemeDefined (o : Operation) (s : SecScheme) : Except Err Bool :=
  match s.name, s.loc with
  | some n, some l =>
    match getParameter o n l with
    | .error e => .error e
    | .ok r => .ok r.isSome
  | _, _ => .ok false

/-- `process_api_key_security_definition` / `process_http_security_definition` -/
def schemeParam (o : Operation) (s : SecScheme) : Except Err Operation :=
  match s.type with
  | none => .error .key
  | some t =>
    if t = "apiKey" then
      match s.name, s.loc with
      | some n, some l => .ok (addParam o (apiKeyParam n l))
      | _, _ => .error .key
    else if t = "http" then .ok (addParam o httpAuthParam)
    else .ok o

/-- one iteration of the loop in `process_definitions` -/
def processScheme (o : Operation) (s : SecScheme) : Except Err Operation :=
  match schemeDefined o s with
  | .error e => .error e
  | .ok true => .ok o
  | .ok false => schemeParam o s

def processSchemes (reqs : List String) : Operation → List SecScheme → Except Err Operation
  | o, [] => .ok o
  | o, s :: rest =>
    if reqs.contains s.key then
      match processScheme o s with
      | .error e => .error e
      | .ok o' => processSchemes reqs o' rest
    else processSchemes reqs o rest

def emptyOp (path method : String) : Operation := ⟨path, method, [], [], [], [], []⟩

/-- `collect_parameters` + `make_operation` -/
def buildOp (cfg : Cfg) (d : Doc) (path method : String) (od : OpDef) (op shared : List REntry) :
    Except Err Operation :=
  match collectParams (mergeEntries cfg.merge op shared) with
  | .error e => .error e
  | .ok ps =>
    match collectBodies od.body with
    | .error e => .error e
    | .ok bs =>
      let o := ps.foldl addParam (emptyOp path method)
      processSchemes (od.security.getD d.globalSec) { o with body := bs } d.schemes

def httpMethods : List String := ["get", "put", "post", "delete", "options", "head", "patch", "trace"]

/-- resolve the operation's own parameters in `opScope`, the shared ones in `sharedScope`, then build -/
def buildIn (cfg : Cfg) (d : Doc) (opScope sharedScope : Scope) (path method : String) (item : PathItem)
    (od : OpDef) : Except Err Operation :=
  match resolveEntries d opScope od.params with
  | .error e => .error e
  | .ok op =>
    match resolveEntries d sharedScope item.shared with
    | .error e => .error e
    | .ok shared => buildOp cfg d path method od op shared

/-! ## get_all_operations -/

inductive Item where
  | ok (op : Operation)
  | err (path : String) (method : Option String) (e : Err)
  deriving DecidableEq, Repr

/-- the body of the method loop for one operation: `_resolve_operation`, `collect_parameters`, `make_operation` -/
def opResult (cfg : Cfg) (d : Doc) (path : String) (scope : Scope) (shared : List REntry) (m : String) (od : OpDef) :
    Except Err Operation :=
  match resolveEntries d scope od.params with
  | .error e => .error e
  | .ok op => buildOp cfg d path m od op shared

/-- the method loop of one path item: yielded results and the exception that ended the generator, if any -/
def itemResults (cfg : Cfg) (d : Doc) (path : String) (scope : Scope) (shared : List REntry) :
    List (String × OpDef) → List Item × Option Err
  | [] => ([], none)
  | (m, od) :: rest =>
    if httpMethods.contains m then
      match opResult cfg d path scope shared m od with
      | .ok o => (.ok o :: (itemResults cfg d path scope shared rest).1, (itemResults cfg d path scope shared rest).2)
      | .error e =>
        if e = .type ∧ cfg.typeErr = .asFound then ([], some .type)
        else (.err path (some m) e :: (itemResults cfg d path scope shared rest).1,
              (itemResults cfg d path scope shared rest).2)
    else itemResults cfg d path scope shared rest

/-- a yielded result together with the scope that stays pushed while the generator is suspended after it -/
abbrev Event := Item × Option Scope

def iterPaths (cfg : Cfg) (d : Doc) : List (String × PathEntry) → List Event × Option Err
  | [] => ([], none)
  | (p, pe) :: rest =>
    match resolvePathItem d base pe with
    | .error e =>
      let (evs, raised) := iterPaths cfg d rest
      ((.err p none e, none) :: evs, raised)
    | .ok (scope, item) =>
      match resolveEntries d scope item.shared with
      | .error e =>
        let (evs, raised) := iterPaths cfg d rest
        ((.err p none e, none) :: evs, raised)
      | .ok shared =>
        let (xs, raisedHere) := itemResults cfg d p scope shared item.entries
        match cfg.suspend, raisedHere with
        | .asFound, some e => (xs.map fun x => (x, some scope), some e)
        | .repaired, some e => ([], some e)
        | v, none =>
          let here : List Event := xs.map fun x => (x, if v = .asFound then some scope else none)
          let (evs, raised) := iterPaths cfg d rest
          (here ++ evs, raised)

def iterEvents (cfg : Cfg) (d : Doc) : List Event × Option Err := iterPaths cfg d d.paths

/-- `list(schema.get_all_operations())` -/
def iterate (cfg : Cfg) (d : Doc) : List Item × Option Err :=
  ((iterEvents cfg d).1.map (·.1), (iterEvents cfg d).2)

/-! ## the operation cache and the three look-ups -/

structure Key where
  scope : Scope
  path : String
  method : String
  deriving DecidableEq, Repr

structure MapE where
  scope : Scope
  item : PathItem
  deriving DecidableEq, Repr

structure IdE where
  path : String
  method : String
  scope : Scope
  item : PathItem
  op : OpDef
  deriving DecidableEq, Repr

structure RefKey where
  full : Bool          -- reference written with the absolute URL of the root document
  path : String
  method : String
  deriving DecidableEq, Repr

/-- `OperationCache`; dictionaries are association lists, newest first -/
structure Cache where
  ops : List Operation
  byId : List (String × Nat)
  byKey : List (Key × Nat)
  byRef : List (RefKey × Nat)
  idDefs : List (String × IdE)
  maps : List (String × MapE)
  deriving Repr

def Cache.empty : Cache := ⟨[], [], [], [], [], []⟩

/-- `insert_operation` -/
def Cache.insert (c : Cache) (o : Operation) (k : Key) (id : Option String) (r : Option RefKey) : Cache :=
  let idx := c.ops.length
  { c with
    ops := c.ops ++ [o]
    byKey := (k, idx) :: c.byKey
    byId := match id with | some i => (i, idx) :: c.byId | none => c.byId
    byRef := match r with | some x => (x, idx) :: c.byRef | none => c.byRef }

inductive Res where
  | op (idx : Nat) (o : Operation)
  | err (e : Err)
  | items (xs : List Item) (raised : Option Err)
  | next (x : Option Item) (raised : Option Err)
  | unit
  deriving DecidableEq, Repr

def lower (s : String) : String := String.ofList (s.toList.map Char.toLower)

def hit (c : Cache) (idx : Nat) : Option Res :=
  match c.ops[idx]? with
  | some o => some (.op idx o)
  | none => none

/-- `_get_operation_map`: the cached `MethodMap` of a path, or a new one built in the current resolution scope -/
def getMap (d : Doc) (top : Scope) (c : Cache) (p : String) : Except Err (Cache × MapE) :=
  match assoc p c.maps with
  | some e => .ok (c, e)
  | none =>
    match assoc p d.paths with
    | none => .error .key
    | some pe =>
      match resolvePathItem d top pe with
      | .error e => .error e
      | .ok (s, it) => .ok ({ c with maps := (p, ⟨s, it⟩) :: c.maps }, ⟨s, it⟩)

/-- `MethodMap._init_operation` (method already lower-cased) -/
def initOp (cfg : Cfg) (d : Doc) (top : Scope) (c : Cache) (p m : String) (e : MapE) : Cache × Res :=
  match assoc m e.item.entries with
  | none => (c, .err .key)
  | some od =>
    let k : Key := ⟨e.scope, p, m⟩
    match (assoc k c.byKey).bind (hit c) with
    | some r => (c, r)
    | none =>
      let sharedScope := match cfg.lookupScope with | .asFound => top | .repaired => e.scope
      match buildIn cfg d e.scope sharedScope p m e.item od with
      | .error x => (c, .err x)
      | .ok o => (c.insert o k od.opId none, .op c.ops.length o)

/-- `schema[path][method]`; `top` = current resolution scope -/
def byPM (cfg : Cfg) (d : Doc) (top : Scope) (c : Cache) (p m : String) : Cache × Res :=
  match getMap d top c p with
  | .error e => (c, .err e)
  | .ok (c', e) => initOp cfg d top c' p (lower m) e

/-- the definitions one path item contributes to `_id_to_definition` -/
def idDefsOf (p : String) (scope : Scope) (item : PathItem) : List (String × OpDef) → List (String × IdE)
  | [] => []
  | (m, od) :: rest =>
    let tl := idDefsOf p scope item rest
    if httpMethods.contains m then
      match od.opId with
      | some i => tl ++ [(i, ⟨p, m, scope, item, od⟩)]       -- newest first
      | none => tl
    else tl

/-- `_populate_operation_id_cache`: definitions inserted so far (newest first) and the error that aborted it -/
def populate (cfg : Cfg) (d : Doc) (top : Scope) : List (String × PathEntry) → List (String × IdE) →
    List (String × IdE) × Option Err
  | [], acc => (acc, none)
  | (p, pe) :: rest, acc =>
    match resolvePathItem d top pe with
    | .error e =>
      match cfg.populate with
      | .asFound => (acc, some e)
      | .repaired => populate cfg d top rest acc
    | .ok (s, it) => populate cfg d top rest (idDefsOf p s it it.entries ++ acc)

/-- `if not cache.has_ids_to_definitions: self._populate_operation_id_cache(cache)` -/
def ensureDefs (cfg : Cfg) (d : Doc) (top : Scope) (c : Cache) : Cache × Option Err :=
  if c.idDefs.isEmpty then
    ({ c with idDefs := (populate cfg d top d.paths []).1 }, (populate cfg d top d.paths []).2)
  else (c, none)

/-- `get_operation_by_id` after the first-level cache miss and the population of the definitions -/
def idLookup (cfg : Cfg) (d : Doc) (top : Scope) (c : Cache) (i : String) : Cache × Res :=
  match assoc i c.idDefs with
  | none => (c, .err .key)
  | some en =>
    let k : Key := ⟨en.scope, en.path, en.method⟩
    match (assoc k c.byKey).bind (hit c) with
    | some r => (c, r)
    | none =>
      let s := match cfg.lookupScope with | .asFound => top | .repaired => en.scope
      match buildIn cfg d s s en.path en.method en.item en.op with
      | .error x => (c, .err x)
      | .ok o => (c.insert o k (some i) none, .op c.ops.length o)

/-- `get_operation_by_id` -/
def byId (cfg : Cfg) (d : Doc) (top : Scope) (c : Cache) (i : String) : Cache × Res :=
  match (assoc i c.byId).bind (hit c) with
  | some r => (c, r)
  | none =>
    match ensureDefs cfg d top c with
    | (c', some e) => (c', .err e)
    | (c', none) => idLookup cfg d top c' i

/-- `get_operation_by_reference("#/paths/<path>/<method>")` (optionally prefixed by the root document's URL) -/
def byRef (cfg : Cfg) (d : Doc) (top : Scope) (c : Cache) (r : RefKey) : Cache × Res :=
  match (assoc r c.byRef).bind (hit c) with
  | some x => (c, x)
  | none =>
    -- `resolver.resolve(reference)`: only the root file has `paths`; a path item behind `$ref` has no method keys
    let file := if r.full then 0 else top.file
    if file ≠ 0 then (c, .err .ref) else
    match assoc r.path d.paths with
    | none => (c, .err .ref)
    | some (.ref _ _) => (c, .err .ref)
    | some (.inline item) =>
      match assoc r.method item.entries with
      | none => (c, .err .ref)
      | some od =>
        let k : Key := ⟨top, r.path, r.method⟩
        match (assoc k c.byKey).bind (hit c) with
        | some x => (c, x)
        | none =>
          match buildIn cfg d ⟨0, none⟩ top r.path r.method item od with
          | .error x => (c, .err x)
          | .ok o => (c.insert o k none (some r), .op c.ops.length o)

/-! ## the access machine -/

inductive Access where
  | iterate
  | iterStart
  | iterNext
  | byPM (p m : String)
  | byId (i : String)
  | byRef (r : RefKey)
  deriving DecidableEq, Repr

structure St where
  cache : Cache
  /-- the scope pushed above the root scope by a suspended `get_all_operations` generator -/
  susp : Option Scope
  /-- what the suspended generator will still yield -/
  pending : Option (List Event × Option Err)
  deriving Repr

def St.init : St := ⟨Cache.empty, none, none⟩

def St.top (s : St) : Scope := s.susp.getD base

/-- the resolver's scope stack -/
def St.stack (s : St) : List Scope := base :: s.susp.toList

def step (cfg : Cfg) (d : Doc) (s : St) : Access → St × Res
  | .iterate => (s, .items (iterate cfg d).1 (iterate cfg d).2)
  | .iterStart => ({ s with pending := some (iterEvents cfg d) }, .unit)
  | .iterNext =>
    match s.pending with
    | none => (s, .unit)
    | some ([], none) => ({ s with susp := none }, .next none none)
    | some ([], some e) => ({ s with susp := none, pending := some ([], none) }, .next none (some e))
    | some ((x, sc) :: rest, e) => ({ s with susp := sc, pending := some (rest, e) }, .next (some x) none)
  | .byPM p m => let (c, r) := byPM cfg d s.top s.cache p m; ({ s with cache := c }, r)
  | .byId i => let (c, r) := byId cfg d s.top s.cache i; ({ s with cache := c }, r)
  | .byRef r => let (c, x) := byRef cfg d s.top s.cache r; ({ s with cache := c }, x)

def run (cfg : Cfg) (d : Doc) : St → List Access → List Res
  | _, [] => []
  | s, a :: rest => (step cfg d s a).2 :: run cfg d (step cfg d s a).1 rest

end SV.Model.C08
