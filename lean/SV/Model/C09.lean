/-
  C09 — the printed curl command.  Executable model: a hand translation of

    shlex.quote                                   (CPython 3.12 Lib/shlex.py, `_find_unsafe`, re.ASCII)
    schemathesis.core.curl.generate               (src/schemathesis/core/curl.py:14)
    schemathesis.core.curl._filter_headers        (src/schemathesis/core/curl.py:38)
    Case.as_curl_command                          (src/schemathesis/generation/case.py:72; argument plumbing only)
    ScenarioRecorder.record_* / find_failure_data (src/schemathesis/engine/recorder.py:44-83) and the `on_failure` glue of
    validate_response                             (engine/phases/unit/_executor.py:304, engine/phases/stateful/_executor.py:272)
    schemathesis.core.curl.get_excluded_headers   (src/schemathesis/core/curl.py:50; dict display + CaseInsensitiveDict)
    sanitize_value on a flat mapping              (src/schemathesis/core/output/sanitization.py:150, as prepare_request
                                                   applies it to the headers of the prepared request)

  Text is `List Char`.  The prepared request (method, url, body, headers) is an input: it is produced by
  `requests.Request(**kwargs).prepare()`, which is third-party code.  `bytes.decode("utf-8", errors="replace")`
  of a bytes body is modelled by `utf8DecodeReplace` below.

  Variant flags sit at the three sites of defect F16:
    emptyHeader  -H 'k: '   (asFound)   | -H 'k;'               when the value is empty (repaired)
    dataAt       -d '@…'    (asFound)   | --data-raw '@…'       when the body starts with '@' (repaired)
    filter       drop every library-named header that the case did not generate (asFound)
                 | drop it only when it carries the value the library would add by itself (repaired)
  Core Lean only.
-/
namespace SV.Model.C09

abbrev Str := List Char

inductive Variant | asFound | repaired
  deriving DecidableEq, Repr

structure Variants where
  emptyHeader : Variant
  dataAt : Variant
  filter : Variant
  deriving DecidableEq, Repr

/-! ### shlex.quote -/

/-- complement of `_find_unsafe` (the class: not word char, not one of @ % + = : , . / and hyphen; re.ASCII); `\w` under re.ASCII is `[a-zA-Z0-9_]` -/
def isSafe (c : Char) : Bool :=
  c.isAlphanum || c == '_' || c == '@' || c == '%' || c == '+' || c == '=' || c == ':' || c == ',' || c == '.'
    || c == '/' || c == '-'

/-- `s.replace("'", "'\"'\"'")` -/
def escSq : Str → Str
  | [] => []
  | c :: cs => if c = '\'' then '\'' :: '"' :: '\'' :: '"' :: '\'' :: escSq cs else c :: escSq cs

/-- `shlex.quote` -/
def shlexQuote (s : Str) : Str :=
  if s.isEmpty then ['\'', '\'']
  else if s.all isSafe then s
  else '\'' :: (escSq s ++ ['\''])

/-! ### the excluded-header table and `_filter_headers` -/

/-- One entry of `get_excluded_headers()`: header name and the value `requests.utils.default_headers()` gives it
    (`None` for Content-Length, Transfer-Encoding, X-Schemathesis-TestCaseId).  The harness reads the table from the
    live code on every run; every theorem quantifies over all tables. -/
abbrev Table := List (Str × Option Str)

/-- ASCII `str.lower()` (the key function of `requests.structures.CaseInsensitiveDict`) -/
def lower (s : Str) : Str := s.map Char.toLower

/-- `key in get_excluded_headers()` (case-insensitive) -/
def isExcluded (tbl : Table) (k : Str) : Bool := tbl.any fun e => lower e.1 == lower k

/-- repaired filter: the header carries exactly what the library would add by itself -/
def isAutoValued (tbl : Table) (k v : Str) : Bool :=
  tbl.any fun e => lower e.1 == lower k && (match e.2 with | none => true | some d => d == v)

/-- `_filter_headers(headers, known_generated_headers)`; `known` = keys of `dict(case.headers or {})` (case-sensitive) -/
def filterHeaders (f : Variant) (tbl : Table) (known : List Str) (hs : List (Str × Str)) : List (Str × Str) :=
  hs.filter fun kv =>
    match f with
    | .asFound => known.contains kv.1 || !isExcluded tbl kv.1
    | .repaired => known.contains kv.1 || !isAutoValued tbl kv.1 kv.2

/-! ### curl.generate -/

structure Req where
  method : Str
  url : Str
  body : Option Str            -- `None`, or the text of the body (bytes already decoded)
  verify : Bool
  headers : List (Str × Str)   -- `dict(request_data.headers)` in order
  known : List Str             -- keys of `dict(self.headers or {})`
  deriving Repr

/-- `f"{key}: {value}"` -/
def headerArg (v : Variant) (k val : Str) : Str :=
  match v with
  | .asFound => k ++ ':' :: ' ' :: val
  | .repaired => if val.isEmpty then k ++ [';'] else k ++ ':' :: ' ' :: val

/-- `for key, value in headers.items(): command += f" -H {quote(header)}"` -/
def headersPart (v : Variant) : List (Str × Str) → Str
  | [] => []
  | kv :: rest => ' ' :: '-' :: 'H' :: ' ' :: (shlexQuote (headerArg v kv.1 kv.2) ++ headersPart v rest)

def startsWithAt (b : Str) : Bool := match b with | '@' :: _ => true | _ => false

/-- `if body: command += f" -d {quote(body)}"` -/
def dataPart (v : Variant) (body : Option Str) : Str :=
  match body with
  | none => []
  | some b =>
    if b.isEmpty then []
    else match v with
      | .asFound => ' ' :: '-' :: 'd' :: ' ' :: shlexQuote b
      | .repaired =>
        if startsWithAt b then " --data-raw ".toList ++ shlexQuote b
        else ' ' :: '-' :: 'd' :: ' ' :: shlexQuote b

def insecurePart (verify : Bool) : Str := if verify then [] else " --insecure".toList

/-- `curl.generate(method=…, url=…, body=…, verify=…, headers=…, known_generated_headers=…)` -/
def generate (vs : Variants) (tbl : Table) (r : Req) : Str :=
  "curl -X ".toList ++ r.method
    ++ headersPart vs.emptyHeader (filterHeaders vs.filter tbl r.known r.headers)
    ++ dataPart vs.dataAt r.body
    ++ insecurePart r.verify
    ++ ' ' :: shlexQuote r.url

/-! ### the argument vector the command is meant to denote (used by the theorems and the driver) -/

def headerArgs (v : Variant) (hs : List (Str × Str)) : List Str :=
  hs.flatMap fun kv => [['-', 'H'], headerArg v kv.1 kv.2]

def dataArgs (v : Variant) (body : Option Str) : List Str :=
  match body with
  | none => []
  | some b =>
    if b.isEmpty then []
    else match v with
      | .asFound => [['-', 'd'], b]
      | .repaired => if startsWithAt b then ["--data-raw".toList, b] else [['-', 'd'], b]

def insecureArgs (verify : Bool) : List Str := if verify then [] else ["--insecure".toList]

def argvOf (vs : Variants) (tbl : Table) (r : Req) : List Str :=
  "curl".toList :: ['-', 'X'] :: r.method ::
    (headerArgs vs.emptyHeader (filterHeaders vs.filter tbl r.known r.headers)
      ++ dataArgs vs.dataAt r.body ++ insecureArgs r.verify ++ [r.url])

/-- words joined the way `generate` joins them: first word, then `" " + quote(w)` for each further word -/
def renderTail (ws : List Str) : Str := ws.flatMap fun w => ' ' :: shlexQuote w
def render : List Str → Str
  | [] => []
  | w :: ws => shlexQuote w ++ renderTail ws

/-! ### `bytes.decode("utf-8", errors="replace")` (CPython `unicode_decode_utf8`, replace handler)

  One U+FFFD per maximal invalid prefix, exactly as CPython: an invalid start byte or a start byte followed by a
  byte that cannot continue it consumes 1 byte (2 for a three/four-byte sequence whose second byte was acceptable but
  the third is not, 3 for a four-byte sequence failing at its last byte); a truncated sequence at the end of input
  consumes all of its bytes. Bytes are `Nat < 256`. -/

def isCont (b : Nat) : Bool := 0x80 ≤ b && b ≤ 0xBF

def repl : Char := Char.ofNat 0xFFFD

/-- second-byte window of a 3-byte sequence starting with `b0` -/
def lo3 (b0 : Nat) : Nat := if b0 == 0xE0 then 0xA0 else 0x80
def hi3 (b0 : Nat) : Nat := if b0 == 0xED then 0x9F else 0xBF
def lo4 (b0 : Nat) : Nat := if b0 == 0xF0 then 0x90 else 0x80
def hi4 (b0 : Nat) : Nat := if b0 == 0xF4 then 0x8F else 0xBF

def utf8Go : Nat → List Nat → Str
  | 0, _ => []
  | _, [] => []
  | fuel + 1, b0 :: rest =>
    if b0 < 0x80 then Char.ofNat b0 :: utf8Go fuel rest
    else if b0 < 0xC2 then repl :: utf8Go fuel rest
    else if b0 < 0xE0 then
      match rest with
      | [] => [repl]
      | b1 :: r1 =>
        if isCont b1 then Char.ofNat ((b0 - 0xC0) * 64 + (b1 - 0x80)) :: utf8Go fuel r1
        else repl :: utf8Go fuel rest
    else if b0 < 0xF0 then
      match rest with
      | [] => [repl]
      | b1 :: r1 =>
        if lo3 b0 ≤ b1 && b1 ≤ hi3 b0 then
          match r1 with
          | [] => [repl]
          | b2 :: r2 =>
            if isCont b2 then Char.ofNat ((b0 - 0xE0) * 4096 + (b1 - 0x80) * 64 + (b2 - 0x80)) :: utf8Go fuel r2
            else repl :: utf8Go fuel r1
        else repl :: utf8Go fuel rest
    else if b0 < 0xF5 then
      match rest with
      | [] => [repl]
      | b1 :: r1 =>
        if lo4 b0 ≤ b1 && b1 ≤ hi4 b0 then
          match r1 with
          | [] => [repl]
          | b2 :: r2 =>
            if isCont b2 then
              match r2 with
              | [] => [repl]
              | b3 :: r3 =>
                if isCont b3 then
                  Char.ofNat ((b0 - 0xF0) * 262144 + (b1 - 0x80) * 4096 + (b2 - 0x80) * 64 + (b3 - 0x80))
                    :: utf8Go fuel r3
                else repl :: utf8Go fuel r2
            else repl :: utf8Go fuel r1
        else repl :: utf8Go fuel rest
    else repl :: utf8Go fuel rest

def utf8DecodeReplace (bs : List Nat) : Str := utf8Go (bs.length + 1) bs

/-! ### `ScenarioRecorder` (src/schemathesis/engine/recorder.py) and the `on_failure` glue of `validate_response`
    (engine/phases/unit/_executor.py:304, engine/phases/stateful/_executor.py:272)

  The recorder is three Python dicts keyed by the test case id.  A `Case` object is its id plus an opaque identity
  (`obj`: operation, parameters, body — everything `prepare_request` reads).  `σ` is the type of the code sample
  stored with a failed check: the theorems instantiate it with the command text, the driver with the selected
  `FailureData` itself (the recorder never looks inside a sample). -/

/-- Python `dict` with `str` keys: lookup … -/
def dGet {α : Type} : List (Str × α) → Str → Option α
  | [], _ => none
  | (k', v) :: rest, k => if k' = k then some v else dGet rest k

/-- … and `d[k] = v`: an existing key keeps its position, a new key goes to the end -/
def dSet {α : Type} : List (Str × α) → Str → α → List (Str × α)
  | [], k, v => [(k, v)]
  | (k', v') :: rest, k, v => if k' = k then (k, v) :: rest else (k', v') :: dSet rest k v

structure CaseVal where
  id : Str
  obj : Nat
  deriving DecidableEq, Repr

/-- `recorder.Request` (`Request.from_prepared_request`): `headers: dict[str, list[str]]` -/
structure RecRequest where
  method : Str
  uri : Str
  body : Option Str
  headers : List (Str × List Str)
  deriving DecidableEq, Repr

/-- `recorder.Interaction`; `verify = none`: there is no response (`record_request`), else `response.verify` -/
structure Interaction where
  request : RecRequest
  verify : Option Bool
  deriving DecidableEq, Repr

structure CaseNode where
  value : CaseVal
  parent : Option Str
  deriving DecidableEq, Repr

/-- `CheckNode`: `sample = none` for a passed check, `some code_sample` for a failed one -/
structure CheckNode (σ : Type) where
  name : Str
  sample : Option σ
  deriving DecidableEq, Repr

structure Recorder (σ : Type) where
  cases : List (Str × CaseNode)
  checks : List (Str × List (CheckNode σ))
  interactions : List (Str × Interaction)
  deriving Repr

def Recorder.empty {σ : Type} : Recorder σ := ⟨[], [], []⟩

structure FailureData where
  case : CaseVal
  headers : List (Str × Str)
  verify : Bool
  deriving DecidableEq, Repr

/-- the exceptions `find_failure_data` can raise -/
inductive RecErr | keyError | assertionError | indexError
  deriving DecidableEq, Repr

deriving instance DecidableEq for Except

/-- `{key: value[0] for key, value in request.headers.items()}` -/
def firstValues : List (Str × List Str) → Except RecErr (List (Str × Str))
  | [] => .ok []
  | (_, []) :: _ => .error .indexError
  | (k, v :: _) :: rest =>
    match firstValues rest with
    | .ok hs => .ok ((k, v) :: hs)
    | .error e => .error e

/-- `failure.case_id or parent_id` (an empty string is falsy) -/
def reportedId (parentId : Str) (failureCaseId : Option Str) : Str :=
  match failureCaseId with
  | some (c :: cs) => c :: cs
  | _ => parentId

/-- `ScenarioRecorder.find_failure_data(parent_id=…, failure=…)` -/
def findFailureData {σ : Type} (st : Recorder σ) (parentId : Str) (failureCaseId : Option Str) :
    Except RecErr FailureData :=
  let caseId := reportedId parentId failureCaseId
  match dGet st.cases caseId with
  | none => .error .keyError
  | some node =>
    match dGet st.interactions caseId with
    | none => .error .keyError
    | some ia =>
      match ia.verify with
      | none => .error .assertionError
      | some v =>
        match firstValues ia.request.headers with
        | .ok hs => .ok ⟨node.value, hs, v⟩
        | .error e => .error e

/-- `self.checks.setdefault(case_id, []).append(node)` -/
def appendCheck {σ : Type} (checks : List (Str × List (CheckNode σ))) (id : Str) (node : CheckNode σ) :
    List (Str × List (CheckNode σ)) :=
  dSet checks id ((dGet checks id).getD [] ++ [node])

/-- what is done to a recorder during a scenario -/
inductive Op
  /-- `record_case(parent_id=…, case=…)` (stored under `case.id`) -/
  | recordCase (parent : Option Str) (c : CaseVal)
  /-- `record_response(case_id=…, response=…)` -/
  | recordResponse (id : Str) (req : RecRequest) (verify : Bool)
  /-- `record_request(case_id=…, request=…)` (network error: no response) -/
  | recordRequest (id : Str) (req : RecRequest)
  /-- `on_success(name, case)` -/
  | checkSuccess (name id : Str)
  /-- `on_failure(name, _, failure)` inside `validate_response(case=<parentId>, …)`:
      `find_failure_data`, `as_curl_command`, `record_check_failure(case_id=failure_data.case.id, …)` -/
  | onFailure (name parentId : Str) (failureCaseId : Option Str)
  deriving DecidableEq, Repr

/-- one operation; `mk` builds the code sample from the selected data. An exception inside `on_failure` leaves the
    recorder as it was. -/
def step {σ : Type} (mk : FailureData → σ) (st : Recorder σ) : Op → Recorder σ
  | .recordCase p c => { st with cases := dSet st.cases c.id ⟨c, p⟩ }
  | .recordResponse id r v => { st with interactions := dSet st.interactions id ⟨r, some v⟩ }
  | .recordRequest id r => { st with interactions := dSet st.interactions id ⟨r, none⟩ }
  | .checkSuccess n id => { st with checks := appendCheck st.checks id ⟨n, none⟩ }
  | .onFailure n pid f =>
    match findFailureData st pid f with
    | .ok fd => { st with checks := appendCheck st.checks fd.case.id ⟨n, some (mk fd)⟩ }
    | .error _ => st

def run {σ : Type} (mk : FailureData → σ) (h : List Op) : Recorder σ := h.foldl (step mk) Recorder.empty

/-- the outcome of every `on_failure` of the history, in order (the exception, or the data selected) -/
def outcomes {σ : Type} (mk : FailureData → σ) : Recorder σ → List Op → List (Except RecErr FailureData)
  | _, [] => []
  | st, op :: rest =>
    match op with
    | .onFailure _ pid f => findFailureData st pid f :: outcomes mk (step mk st op) rest
    | _ => outcomes mk (step mk st op) rest

/-- `prepare_request(case, headers, sanitize=False)` is third-party code (`requests`): a parameter.
    What it returns, plus the keys of `case.headers`. -/
structure Prepared where
  method : Str
  url : Str
  body : Option Str
  headers : List (Str × Str)
  known : List Str
  deriving Repr

/-- `Case.as_curl_command(headers=…, verify=…)` -/
def asCurlCommand (vs : Variants) (tbl : Table) (prep : Nat → List (Str × Str) → Prepared) (c : CaseVal)
    (headers : List (Str × Str)) (verify : Bool) : Str :=
  let p := prep c.obj headers
  generate vs tbl ⟨p.method, p.url, p.body, verify, p.headers, p.known⟩

/-- `failure_data.case.as_curl_command(headers=failure_data.headers, verify=failure_data.verify)` -/
def codeSample (vs : Variants) (tbl : Table) (prep : Nat → List (Str × Str) → Prepared) (fd : FailureData) : Str :=
  asCurlCommand vs tbl prep fd.case fd.headers fd.verify

/-! ### `get_excluded_headers()` (src/schemathesis/core/curl.py:50): how the table is built

      CaseInsensitiveDict({"Content-Length": None, "Transfer-Encoding": None, SCHEMATHESIS_TEST_CASE_HEADER: None,
                           **default_headers(), "User-Agent": USER_AGENT})

  A Python dict display first (a later equal key replaces the value and keeps the position), then
  `CaseInsensitiveDict.__init__` → `update` → `__setitem__` for every item (`_store[key.lower()] = (key, value)`,
  an OrderedDict).  `requests.utils.default_headers()` is third-party code: its items are an input. -/

/-- a dict display `{k₁: v₁, …, **d, …}` -/
def pyDict {α : Type} (items : List (Str × α)) : List (Str × α) := items.foldl (fun d kv => dSet d kv.1 kv.2) []

/-- `CaseInsensitiveDict.__setitem__`: an entry whose lower-cased name is already there is replaced in place
    (spelling of the name and value), a new one goes to the end -/
def cidSet : Table → Str → Option Str → Table
  | [], k, v => [(k, v)]
  | (k', v') :: rest, k, v => if lower k' = lower k then (k, v) :: rest else (k', v') :: cidSet rest k v

/-- `CaseInsensitiveDict(d)` -/
def cidOf (items : List (Str × Option Str)) : Table := items.foldl (fun t kv => cidSet t kv.1 kv.2) []

def contentLength : Str := "Content-Length".toList
def transferEncoding : Str := "Transfer-Encoding".toList
def userAgent : Str := "User-Agent".toList

/-- the items of the dict display of `get_excluded_headers` -/
def excludedItems (defaults : List (Str × Str)) (ua caseIdHeader : Str) : List (Str × Option Str) :=
  [(contentLength, none), (transferEncoding, none), (caseIdHeader, none)]
    ++ defaults.map (fun kv => (kv.1, some kv.2)) ++ [(userAgent, some ua)]

/-- `get_excluded_headers()`: `defaults` = `requests.utils.default_headers().items()`, `ua` = `USER_AGENT`,
    `caseIdHeader` = `SCHEMATHESIS_TEST_CASE_HEADER` -/
def excludedTable (defaults : List (Str × Str)) (ua caseIdHeader : Str) : Table :=
  cidOf (pyDict (excludedItems defaults ua caseIdHeader))

/-! ### output sanitization (src/schemathesis/core/output/sanitization.py `sanitize_value`, as `prepare_request` applies
    it to the header mapping of the prepared request): a value is replaced when its key, lower-cased, is one of the
    configured keys or contains one of the configured markers.  The configuration is an input. -/

/-- `pat in s` -/
def hasInfix (pat : Str) : Str → Bool
  | [] => pat.isEmpty
  | c :: cs => pat.isPrefixOf (c :: cs) || hasInfix pat cs

structure SanConfig where
  keys : List Str          -- `keys_to_sanitize`
  markers : List Str       -- `sensitive_markers`
  replacement : Str        -- `[Filtered]`
  deriving Repr

def sensitive (cfg : SanConfig) (k : Str) : Bool :=
  cfg.keys.contains (lower k) || cfg.markers.any fun m => hasInfix m (lower k)

/-- `sanitize_value(mapping)` on a flat mapping of strings -/
def sanitizeFlat (cfg : SanConfig) (hs : List (Str × Str)) : List (Str × Str) :=
  hs.map fun kv => if sensitive cfg kv.1 then (kv.1, cfg.replacement) else kv

end SV.Model.C09
