/-
  Model of the runtime-expression machinery behind OpenAPI links (C10).
  Python anchors (src/schemathesis):
    specs/openapi/expressions/lexer.py    : tokenize (cursor machine)
    specs/openapi/expressions/parser.py   : _parse, _parse_variable, _parse_request, _parse_response, skip_dot,
                                            take_string, take_extractor
    specs/openapi/expressions/nodes.py    : *.evaluate
    specs/openapi/expressions/__init__.py : evaluate, _evaluate_nested, _evaluate_object_key
    core/transforms.py                    : resolve_pointer (with CPython's int() acceptance set made explicit)
    specs/openapi/utils.py                : expand_status_code
    specs/openapi/stateful/__init__.py    : make_response_filter, match_status_code, default_status_code,
                                            make_response_matcher, into_step_input (kwargs, merge_body)
    specs/openapi/stateful/links.py       : OpenApiLink._normalize_parameters, _get_parameter_container,
                                            extract_parameters, extract_body, the lru_cache keyed by case id
    specs/openapi/_hypothesis.py          : get_parameters_value (explicit-merge)
  Text is `List Char`; JSON documents use a local type `J` whose strings are `List Char` too.
  Core Lean only.
-/
namespace SV.Model.C10

abbrev Str := List Char

inductive Variant where
  | asFound
  | repaired
  deriving Repr, DecidableEq

/-! ## JSON documents (bodies, link definitions) -/

inductive J where
  | null
  | bool (b : Bool)
  | num (m : Int) (e : Nat)          -- m · 10^(-e); integers have e = 0
  | str (s : Str)
  | arr (xs : List J)
  | obj (kvs : List (Str × J))       -- insertion order of the Python dict; keys unique
  deriving Repr, Inhabited

def J.isNull : J → Bool | .null => true | _ => false

def lookup (k : Str) : List (Str × α) → Option α
  | [] => none
  | (k', v) :: rest => if k == k' then some v else lookup k rest

/-- `d[k] = v` on an insertion-ordered dict: replace in place or append -/
def dictSet (k : Str) (v : α) : List (Str × α) → List (Str × α)
  | [] => [(k, v)]
  | (k', v') :: rest => if k == k' then (k', v) :: rest else (k', v') :: dictSet k v rest

/-! ## lexer.tokenize -/

inductive TokType where
  | variable | string | pointer | dot | lbracket | rbracket
  deriving Repr, DecidableEq

structure Token where
  value : Str
  end_ : Nat          -- Python's `end`: index of the token's last character
  type : TokType
  deriving Repr, DecidableEq

/-- `stop_symbols` -/
def isStop (c : Char) : Bool := c == '$' || c == '.' || c == '{' || c == '}' || c == '#'

def isRBrace (c : Char) : Bool := c == '}'

/-- `move_until(pred)` after its first unconditional `move()`: the symbols skipped and what is left.
    (`while not (is_eol() or pred(current_symbol())): move()`) -/
def runOf (stop : Char → Bool) (rest : Str) : Str := rest.takeWhile (fun c => !stop c)
def afterRun (stop : Char → Bool) (rest : Str) : Str := rest.dropWhile (fun c => !stop c)

/-- The cursor machine. `lexF fuel cursor rest` where `rest = expression[cursor:]`.
    Termination argument: every iteration consumes at least one symbol, so `fuel = |rest|` suffices
    (`SV.Props.C10.lexF_fuel`). -/
def lexF : Nat → Nat → Str → List Token
  | 0, _, _ => []
  | _ + 1, _, [] => []
  | f + 1, cur, c :: rest =>
    if c == '$' then
      ⟨c :: runOf isStop rest, cur + (runOf isStop rest).length, .variable⟩ ::
        lexF f (cur + 1 + (runOf isStop rest).length) (afterRun isStop rest)
    else if c == '.' then ⟨['.'], cur, .dot⟩ :: lexF f (cur + 1) rest
    else if c == '{' then ⟨['{'], cur, .lbracket⟩ :: lexF f (cur + 1) rest
    else if c == '}' then ⟨['}'], cur, .rbracket⟩ :: lexF f (cur + 1) rest
    else if c == '#' then
      ⟨c :: runOf isRBrace rest, cur + (runOf isRBrace rest).length, .pointer⟩ ::
        lexF f (cur + 1 + (runOf isRBrace rest).length) (afterRun isRBrace rest)
    else
      ⟨c :: runOf isStop rest, cur + (runOf isStop rest).length, .string⟩ ::
        lexF f (cur + 1 + (runOf isStop rest).length) (afterRun isStop rest)

def tokenize (e : Str) : List Token := lexF e.length 0 e

/-! ## parser -/

inductive PErr where
  | runtimeExpr       -- RuntimeExpressionError
  | unknownToken      -- UnknownToken
  | stopIteration     -- `next(tokens)` on an exhausted generator (surfaces as RuntimeError, PEP 479)
  deriving Repr, DecidableEq

inductive Node where
  | str (v : Str)
  | url
  | method
  | statusCode
  | nonBodyRequest (location : Str) (parameter : Str) (extractor : Option Str)
  | bodyRequest (pointer : Option Str)
  | headerResponse (parameter : Str) (extractor : Option Str)
  | bodyResponse (pointer : Option Str)
  deriving Repr, DecidableEq

/-- `re.compile(pattern)`: `none` = `re.error`, `some n` = `compiled.groups`. Python's `re` is not modelled:
    the harness supplies this table from the real `re` module. -/
abbrev RxOracle := Str → Option Nat

def skipDot : List Token → Except PErr (List Token)
  | [] => .error .stopIteration
  | t :: ts => if t.type == .dot then .ok ts else .error .runtimeExpr

def takeString : List Token → Except PErr (Token × List Token)
  | [] => .error .stopIteration
  | t :: ts => if t.type == .string then .ok (t, ts) else .error .runtimeExpr

def regexPrefix : Str := "#regex:".toList

def startsWith (p : Str) (s : Str) : Bool := s.take p.length == p

/-- `take_extractor(tokens, expr, current_end)` -/
def takeExtractor (rx : RxOracle) (e : Str) (currentEnd : Nat) (ts : List Token) :
    Except PErr (Option Str × List Token) :=
  match e.drop (currentEnd + 1) with
  | [] => .ok (none, ts)
  | c :: _ =>
    if c == '}' then .ok (none, ts) else
    match ts with
    | [] => .error .stopIteration
    | x :: ts' =>
      if !(startsWith regexPrefix x.value) then .error .runtimeExpr else
      match rx (x.value.drop regexPrefix.length) with
      | none => .error .runtimeExpr
      | some g => if g != 1 then .error .runtimeExpr else .ok (some (x.value.drop regexPrefix.length), ts')

def sQuery : Str := "query".toList
def sPath : Str := "path".toList
def sHeader : Str := "header".toList
def sBody : Str := "body".toList

/-- the `location.value == "body"` arm shared by `_parse_request` / `_parse_response`.
    `embBody = .repaired` models the repair of finding FC10b: a `}` after `body` closes the embedding. -/
def parseBodyRef (embBody : Variant) (mk : Option Str → Node) : List Token → Except PErr (Node × List Token)
  | [] => .ok (mk none, [])
  | t :: ts =>
    if t.type == .pointer then .ok (mk (some t.value), ts)
    else if embBody == .repaired && t.type == .rbracket then .ok (mk none, t :: ts)
    else .error .runtimeExpr

/-- `_parse_request` -/
def parseRequest (embBody : Variant) (rx : RxOracle) (e : Str) (ts : List Token) : Except PErr (Node × List Token) :=
  match skipDot ts with
  | .error err => .error err
  | .ok ts =>
    match ts with
    | [] => .error .stopIteration
    | loc :: ts =>
      if loc.value == sQuery || loc.value == sPath || loc.value == sHeader then
        match skipDot ts with
        | .error err => .error err
        | .ok ts =>
          match takeString ts with
          | .error err => .error err
          | .ok (p, ts) =>
            match takeExtractor rx e p.end_ ts with
            | .error err => .error err
            | .ok (ex, ts) => .ok (.nonBodyRequest loc.value p.value ex, ts)
      else if loc.value == sBody then parseBodyRef embBody .bodyRequest ts
      else .error .runtimeExpr

/-- `_parse_response` -/
def parseResponse (embBody : Variant) (rx : RxOracle) (e : Str) (ts : List Token) : Except PErr (Node × List Token) :=
  match skipDot ts with
  | .error err => .error err
  | .ok ts =>
    match ts with
    | [] => .error .stopIteration
    | loc :: ts =>
      if loc.value == sHeader then
        match skipDot ts with
        | .error err => .error err
        | .ok ts =>
          match takeString ts with
          | .error err => .error err
          | .ok (p, ts) =>
            match takeExtractor rx e p.end_ ts with
            | .error err => .error err
            | .ok (ex, ts) => .ok (.headerResponse p.value ex, ts)
      else if loc.value == sBody then parseBodyRef embBody .bodyResponse ts
      else .error .runtimeExpr

def kwUrl : Str := "$url".toList
def kwMethod : Str := "$method".toList
def kwStatusCode : Str := "$statusCode".toList
def kwRequest : Str := "$request".toList
def kwResponse : Str := "$response".toList

/-- `_parse_variable` -/
def parseVariable (embBody : Variant) (rx : RxOracle) (e : Str) (t : Token) (ts : List Token) :
    Except PErr (Node × List Token) :=
  if t.value == kwUrl then .ok (.url, ts)
  else if t.value == kwMethod then .ok (.method, ts)
  else if t.value == kwStatusCode then .ok (.statusCode, ts)
  else if t.value == kwRequest then parseRequest embBody rx e ts
  else if t.value == kwResponse then parseResponse embBody rx e ts
  else .error .unknownToken

def consOk (n : Node) : Except PErr (List Node) → Except PErr (List Node)
  | .ok ns => .ok (n :: ns)
  | .error e => .error e

/-- which of the parser's two defect sites are repaired -/
structure PCfg where
  stray : Variant      -- FC10a: a pointer token outside `$request.body` / `$response.body` is silently dropped
  embBody : Variant    -- FC10b: `{$request.body}` / `{$response.body}` (no pointer) is rejected
  deriving Repr, DecidableEq

/-- the `for token in tokens` loop of `_parse`; `opened` = `brackets_stack` is non-empty.
    Fuel: one unit per loop iteration (each consumes at least one token). -/
def parseF (cfg : PCfg) (rx : RxOracle) (e : Str) : Nat → Bool → List Token → Except PErr (List Node)
  | 0, _, _ => .error .runtimeExpr
  | _ + 1, opened, [] => if opened then .error .runtimeExpr else .ok []
  | f + 1, opened, t :: ts =>
    match t.type with
    | .string => consOk (.str t.value) (parseF cfg rx e f opened ts)
    | .dot => consOk (.str t.value) (parseF cfg rx e f opened ts)
    | .variable =>
      match parseVariable cfg.embBody rx e t ts with
      | .error err => .error err
      | .ok (n, ts') => consOk n (parseF cfg rx e f opened ts')
    | .lbracket => if opened then .error .runtimeExpr else parseF cfg rx e f true ts
    | .rbracket => if opened then parseF cfg rx e f false ts else .error .runtimeExpr
    | .pointer =>
      match cfg.stray with
      | .asFound => parseF cfg rx e f opened ts            -- no branch of `_parse` handles it: dropped
      | .repaired => consOk (.str t.value) (parseF cfg rx e f opened ts)

def parse (cfg : PCfg) (rx : RxOracle) (e : Str) : Except PErr (List Node) :=
  parseF cfg rx e ((tokenize e).length + 1) false (tokenize e)

/-! ## core.transforms.resolve_pointer -/

/-- `s.split(c)` -/
def splitOn (c : Char) : Str → List Str
  | [] => [[]]
  | x :: xs =>
    if x == c then [] :: splitOn c xs
    else match splitOn c xs with
      | [] => [[x]]            -- unreachable
      | p :: ps => (x :: p) :: ps

/-- `s.replace(a + b, r)` for a two-character pattern: left-to-right, non-overlapping -/
def replace2 (a b r : Char) : Str → Str
  | [] => []
  | [x] => [x]
  | x :: y :: t => if x == a && y == b then r :: replace2 a b r t else x :: replace2 a b r (y :: t)

/-- `value.replace("~1", "/").replace("~0", "~")` -/
def unescape (s : Str) : Str := replace2 '~' '0' '~' (replace2 '~' '1' '/' s)

/-- the two replacements in the other order (`.replace("~0", "~").replace("~1", "/")`): not RFC 6901 decoding -/
def unescapeSwapped (s : Str) : Str := replace2 '~' '1' '/' (replace2 '~' '0' '~' s)

/-- characters CPython's `int(str)` strips as whitespace -/
def isPyWs (c : Char) : Bool :=
  let n := c.toNat
  (9 ≤ n && n ≤ 13) || n == 32 || n == 0x85 || n == 0xa0 || n == 0x1680 || (0x2000 ≤ n && n ≤ 0x200a) ||
  n == 0x2028 || n == 0x2029 || n == 0x202f || n == 0x205f || n == 0x3000

/-- code points of the zero of every Unicode (15.0) decimal-digit block; digits are `zero + 0 … zero + 9` -/
def digitZeros : List Nat :=
  [0x30, 0x660, 0x6f0, 0x7c0, 0x966, 0x9e6, 0xa66, 0xae6, 0xb66, 0xbe6, 0xc66, 0xce6, 0xd66, 0xde6, 0xe50, 0xed0,
   0xf20, 0x1040, 0x1090, 0x17e0, 0x1810, 0x1946, 0x19d0, 0x1a80, 0x1a90, 0x1b50, 0x1bb0, 0x1c40, 0x1c50, 0xa620,
   0xa8d0, 0xa900, 0xa9d0, 0xa9f0, 0xaa50, 0xabf0, 0xff10, 0x104a0, 0x10d30, 0x11066, 0x110f0, 0x11136, 0x111d0,
   0x112f0, 0x11450, 0x114d0, 0x11650, 0x116c0, 0x11730, 0x118e0, 0x11950, 0x11c50, 0x11d50, 0x11da0, 0x11f50,
   0x16a60, 0x16ac0, 0x16b50, 0x1d7ce, 0x1d7d8, 0x1d7e2, 0x1d7ec, 0x1d7f6, 0x1e140, 0x1e2f0, 0x1e4f0, 0x1e950,
   0x1fbf0]

def digitIn (n : Nat) : List Nat → Option Nat
  | [] => none
  | z :: zs => if z ≤ n && n < z + 10 then some (n - z) else digitIn n zs

/-- the decimal value `int()` gives a character, if any -/
def pyDigit (c : Char) : Option Nat := digitIn c.toNat digitZeros

/-- digits with single underscores strictly between digits; `afterDigit` = the previous symbol was a digit -/
def digitsF : Nat → Bool → Str → Option Nat
  | acc, afterDigit, [] => if afterDigit then some acc else none
  | acc, afterDigit, c :: t =>
    if c == '_' then (if afterDigit then digitsF acc false t else none)
    else match pyDigit c with
      | some d => digitsF (acc * 10 + d) true t
      | none => none

def stripWs (s : Str) : Str := ((s.dropWhile isPyWs).reverse.dropWhile isPyWs).reverse

/-- CPython `int(s)` on a `str` (base 10): `none` = `ValueError` -/
def pyInt (s : Str) : Option Int :=
  match stripWs s with
  | '-' :: r => (digitsF 0 false r).map fun n => -(n : Int)
  | '+' :: r => (digitsF 0 false r).map fun n => (n : Int)
  | r => (digitsF 0 false r).map fun n => (n : Int)

/-- `xs[i]` with Python's negative indexing; `none` = `IndexError` -/
def pyIndex (xs : List J) (i : Int) : Option J :=
  let n : Int := xs.length
  let j := if i < 0 then i + n else i
  if j < 0 || j ≥ n then none else xs[j.toNat]?

def isAsciiDigit (c : Char) : Bool := 48 ≤ c.toNat && c.toNat ≤ 57

/-- the value `int()` gives a digit character (0 for anything else) -/
def digitVal (c : Char) : Nat := (pyDigit c).getD 0

def natOfAscii : Nat → Str → Nat
  | acc, [] => acc
  | acc, c :: t => natOfAscii (acc * 10 + digitVal c) t

/-- RFC 6901 array index: `0` or a non-zero ASCII digit followed by ASCII digits -/
def rfcIndex : Str → Option Nat
  | [] => none
  | c :: t =>
    if c == '0' then (if t.isEmpty then some 0 else none)
    else if isAsciiDigit c && t.all isAsciiDigit then some (natOfAscii 0 (c :: t)) else none

/-- `target[int(token)]` guarded by `except (IndexError, ValueError)`.
    `.repaired` = the proposed fix for F17: only RFC 6901 indices address array items. -/
def arrayItem (v : Variant) (xs : List J) (tok : Str) : Option J :=
  match v with
  | .asFound => (pyInt tok).bind (pyIndex xs)
  | .repaired => (rfcIndex tok).bind (fun i => xs[i]?)

/-- one iteration of the `for token in tokens` loop; `none` = `return UNRESOLVABLE` -/
def stepInto (v : Variant) (target : J) (tok : Str) : Option J :=
  match target with
  | .obj kvs => lookup tok kvs
  | .arr xs => arrayItem v xs tok
  | _ => none

inductive Val where
  | unres               -- UNRESOLVABLE
  | ok (j : J)
  deriving Repr, Inhabited

def walk (v : Variant) : J → List Str → Val
  | t, [] => .ok t
  | t, tok :: rest =>
    match stepInto v t tok with
    | none => .unres
    | some t' => walk v t' rest

def resolvePointer (v : Variant) (doc : J) (p : Str) : Val :=
  match p with
  | [] => .ok doc
  | c :: _ => if c == '/' then walk v doc (((splitOn '/' p).drop 1).map unescape) else .unres

/-! ## nodes.*.evaluate and expressions.evaluate -/

/-- ASCII case mapping (flip bit 5) -/
def asciiLower (c : Char) : Char := if 65 ≤ c.toNat && c.toNat ≤ 90 then Char.ofNat (c.toNat ^^^ 32) else c
def asciiUpper (c : Char) : Char := if 97 ≤ c.toNat && c.toNat ≤ 122 then Char.ofNat (c.toNat ^^^ 32) else c
def lower (s : Str) : Str := s.map asciiLower
def upper (s : Str) : Str := s.map asciiUpper

/-- the source exchange as the nodes see it (`StepOutput`) -/
structure Ctx where
  url : Str                                   -- what `$url` evaluates to (computed by `requests`; opaque)
  method : Str                                -- `case.operation.method`
  status : Nat                                -- `response.status_code`
  query : Option (List (Str × J))             -- `case.query` (`None` or a dict)
  path : Option (List (Str × J))              -- `case.path_parameters`
  headers : Option (List (Str × J))           -- `case.headers`
  reqBody : J                                 -- `case.body`
  respHeaders : List (Str × List Str)         -- `response.headers` (keys already lower-cased)
  respBody : Option J                         -- `response.json()`; `none` = it raises
  deriving Repr

inductive EErr where
  | parse (e : PErr)
  | typeError          -- regex extractor applied to a non-string
  | indexError         -- header with an empty value list
  | jsonError          -- response body is not JSON
  | outOfModel         -- `str()` / `json.dumps` of a float, list or dict inside an embedding (not modelled)
  deriving Repr, DecidableEq

/-- `RegexExtractor.extract`: pattern → value → `match.group(1)` (`none`: no match or unset group). Supplied by
    the harness from the real `re` module. -/
abbrev ExtOracle := Str → Str → Option Str

/-- `extractor.extract(value) or UNRESOLVABLE` -/
def applyExtractor (ext : ExtOracle) (pat : Str) (value : J) : Except EErr Val :=
  match value with
  | .str s =>
    match ext pat s with
    | none => .ok .unres
    | some [] => .ok .unres
    | some g => .ok (.ok (.str g))
  | _ => .error .typeError

/-- `CaseInsensitiveDict(container).get(name)`: the last item whose lower-cased key matches -/
def lookupCI (name : Str) (kvs : List (Str × J)) : Option J :=
  (kvs.reverse.find? (fun kv => lower kv.1 == lower name)).map (·.2)

def containerGet (ctx : Ctx) (location name : Str) : Option J :=
  if location == sQuery then lookup name (ctx.query.getD [])
  else if location == sPath then lookup name (ctx.path.getD [])
  else lookupCI name (ctx.headers.getD [])

def withExtractor (ext : ExtOracle) (extractor : Option Str) (value : Option J) : Except EErr Val :=
  match value with
  | none => .ok .unres
  | some .null => .ok .unres
  | some v =>
    match extractor with
    | none => .ok (.ok v)
    | some pat => applyExtractor ext pat v

def natStr (n : Nat) : Str := Nat.toDigits 10 n
def intStr (i : Int) : Str := if i < 0 then '-' :: natStr i.natAbs else natStr i.natAbs

def evalNode (idx : Variant) (ext : ExtOracle) (ctx : Ctx) : Node → Except EErr Val
  | .str v => .ok (.ok (.str v))
  | .url => .ok (.ok (.str ctx.url))
  | .method => .ok (.ok (.str (upper ctx.method)))
  | .statusCode => .ok (.ok (.str (natStr ctx.status)))
  | .nonBodyRequest loc name extractor => withExtractor ext extractor (containerGet ctx loc name)
  | .bodyRequest none => .ok (.ok ctx.reqBody)
  | .bodyRequest (some p) => .ok (resolvePointer idx ctx.reqBody (p.drop 1))
  | .headerResponse name extractor =>
    match lookup (lower name) ctx.respHeaders with
    | none => .ok .unres
    | some [] => .error .indexError
    | some (v :: _) => withExtractor ext extractor (some (.str v))
  | .bodyResponse none =>
    match ctx.respBody with
    | none => .error .jsonError
    | some d => .ok (.ok d)
  | .bodyResponse (some p) =>
    match ctx.respBody with
    | none => .error .jsonError
    | some d => .ok (resolvePointer idx d (p.drop 1))

def evalNodes (idx : Variant) (ext : ExtOracle) (ctx : Ctx) : List Node → Except EErr (List Val)
  | [] => .ok []
  | n :: ns =>
    match evalNode idx ext ctx n with
    | .error e => .error e
    | .ok v =>
      match evalNodes idx ext ctx ns with
      | .error e => .error e
      | .ok vs => .ok (v :: vs)

def Val.isUnres : Val → Bool | .unres => true | _ => false

def sTrueCap : Str := "True".toList
def sFalseCap : Str := "False".toList
def sTrue : Str := "true".toList
def sFalse : Str := "false".toList
def sNull : Str := "null".toList

/-- Python `str(part)` for the parts that can be embedded; `none` = not modelled -/
def pyStr : J → Option Str
  | .str s => some s
  | .num m 0 => some (intStr m)
  | .bool true => some sTrueCap
  | .bool false => some sFalseCap
  | _ => none

/-- `"".join(str(part) for part in parts if part is not None)` -/
def joinParts : List Val → Except EErr Str
  | [] => .ok []
  | .unres :: rest => joinParts rest          -- excluded by the caller
  | .ok .null :: rest => joinParts rest
  | .ok j :: rest =>
    match pyStr j with
    | none => .error .outOfModel
    | some s =>
      match joinParts rest with
      | .error e => .error e
      | .ok t => .ok (s ++ t)

structure Cfg where
  idx : Variant        -- F17: array indices in resolve_pointer
  p : PCfg
  deriving Repr, DecidableEq

/-- `expressions.evaluate(expr, output)` for a string `expr` -/
def evalStr (cfg : Cfg) (rx : RxOracle) (ext : ExtOracle) (ctx : Ctx) (e : Str) : Except EErr Val :=
  match parse cfg.p rx e with
  | .error pe => .error (.parse pe)
  | .ok nodes =>
    match evalNodes cfg.idx ext ctx nodes with
    | .error x => .error x
    | .ok [p] => .ok p
    | .ok parts =>
      if parts.any Val.isUnres then .ok .unres
      else match joinParts parts with
        | .error x => .error x
        | .ok s => .ok (.ok (.str s))

/-- `_evaluate_object_key` -/
def evalKey (cfg : Cfg) (rx : RxOracle) (ext : ExtOracle) (ctx : Ctx) (k : Str) : Except EErr (Option Str) :=
  match evalStr cfg rx ext ctx k with
  | .error x => .error x
  | .ok .unres => .ok none
  | .ok (.ok (.str s)) => .ok (some s)
  | .ok (.ok (.bool true)) => .ok (some sTrue)
  | .ok (.ok (.bool false)) => .ok (some sFalse)
  | .ok (.ok (.num m 0)) => .ok (some (intStr m))
  | .ok (.ok .null) => .ok (some sNull)
  | .ok (.ok _) => .error .outOfModel

/-- the dict loop of `_evaluate_nested`; `rec` evaluates a value with `evaluate_nested=True` -/
def evalObj (cfg : Cfg) (rx : RxOracle) (ext : ExtOracle) (ctx : Ctx) (rec : J → Except EErr Val) :
    List (Str × J) → List (Str × J) → Except EErr Val
  | acc, [] => .ok (.ok (.obj acc))
  | acc, (k, v) :: rest =>
    match evalKey cfg rx ext ctx k with
    | .error x => .error x
    | .ok none => .ok .unres
    | .ok (some k') =>
      match rec v with
      | .error x => .error x
      | .ok .unres => .ok .unres
      | .ok (.ok v') => evalObj cfg rx ext ctx rec (dictSet k' v' acc) rest

/-- the list loop of `_evaluate_nested` -/
def evalArr (rec : J → Except EErr Val) : List J → List J → Except EErr Val
  | acc, [] => .ok (.ok (.arr acc.reverse))
  | acc, x :: rest =>
    match rec x with
    | .error e => .error e
    | .ok .unres => .ok .unres
    | .ok (.ok v) => evalArr rec (v :: acc) rest

/-- `expressions.evaluate(expr, output, evaluate_nested)`; fuel ≥ nesting depth of `expr` + 1 -/
def evalAny (cfg : Cfg) (rx : RxOracle) (ext : ExtOracle) (ctx : Ctx) : Nat → Bool → J → Except EErr Val
  | _, _, .str s => evalStr cfg rx ext ctx s
  | f + 1, true, .obj kvs => evalObj cfg rx ext ctx (evalAny cfg rx ext ctx f true) [] kvs
  | f + 1, true, .arr xs => evalArr (evalAny cfg rx ext ctx f true) [] xs
  | 0, true, .obj _ => .error .outOfModel
  | 0, true, .arr _ => .error .outOfModel
  | _, _, j => .ok (.ok j)

/-! ## status keys: expand_status_code, match_status_code, default_status_code, make_response_matcher -/

def asciiDigits : List Nat := [0, 1, 2, 3, 4, 5, 6, 7, 8, 9]

/-- the alternatives of one character of `str(status_code).upper()`; `none`: `int()` would raise -/
def charOptions (c : Char) : Option (List Nat) :=
  if c == 'X' || c == 'x' then some asciiDigits
  else if isAsciiDigit c then some [digitVal c] else none

/-- `product(*chars)` fused with `int("".join(expanded))` (Horner) -/
def expandStep (acc : List Nat) (opts : List Nat) : List Nat :=
  acc.flatMap fun a => opts.map fun d => a * 10 + d

def expandF : List Nat → Str → Option (List Nat)
  | acc, [] => some acc
  | acc, c :: t =>
    match charOptions c with
    | none => none
    | some opts => expandF (expandStep acc opts) t

/-- `expand_status_code(key)` for keys over `[0-9Xx]+`; anything else (`none`) makes the real code raise -/
def expandStatus (key : Str) : Option (List Nat) :=
  if key.isEmpty then none else expandF [0] key

def sDefault : Str := "default".toList

/-- `match_status_code(key)(response)` -/
def matchStatus (key : Str) (status : Nat) : Option Bool :=
  (expandStatus key).map (·.contains status)

/-- `default_status_code(all_keys)(response)`: the set of all other documented codes is built eagerly, so one
    unusable key makes the construction raise (`none`) -/
def matchDefault : List Str → Nat → Option Bool
  | [], _ => some true
  | k :: ks, s =>
    if k == sDefault then matchDefault ks s
    else match expandStatus k, matchDefault ks s with
      | some codes, some r => some (!codes.contains s && r)
      | _, _ => none

/-- `make_response_filter(key, all_keys)(response)`; `none`: constructing the filter raises -/
def responseFilter (key : Str) (allKeys : List Str) (status : Nat) : Option Bool :=
  if key == sDefault then matchDefault allKeys status else matchStatus key status

/-- the loop of `make_response_matcher`'s `compare` -/
def firstMatch (allKeys : List Str) (status : Nat) : List Str → Option Str
  | [] => none
  | k :: ks => if responseFilter k allKeys status == some true then some k else firstMatch allKeys status ks

/-- `make_response_matcher([(key, make_response_filter(key, all_keys)) …])(response)`: the status key of the first
    link (in definition order) whose filter accepts; outer `none`: building one of the filters raises -/
def responseMatcher (allKeys : List Str) (status : Nat) (linkKeys : List Str) : Option (Option Str) :=
  if linkKeys.all (fun k => (responseFilter k allKeys status).isSome) then some (firstMatch allKeys status linkKeys)
  else none

/-- the call site in `create_state_machine`: the filters of an operation's link keys are built against ALL response
    keys the operation documents (`tuple(operation.definition.raw["responses"])`), with or without links; the links are
    visited in document order.  `responses` = (key, has links?) in document order -/
def operationMatcher (responses : List (Str × Bool)) (status : Nat) : Option (Option Str) :=
  responseMatcher (responses.map (·.1)) status ((responses.filter (·.2)).map (·.1))

/-! ## OpenApiLink: parameters, extraction, step input -/

structure Param where
  location : Option Str
  name : Str
  expr : J
  container : Str
  deriving Repr

/-- `tuple(parameter.split("."))` unpacked into exactly two names, else `(None, parameter)` -/
def splitParam (p : Str) : Option Str × Str :=
  match splitOn '.' p with
  | [a, b] => (some a, b)
  | _ => (none, p)

def locationToContainer (loc : Str) : Option Str :=
  if loc == sPath then some "path_parameters".toList
  else if loc == sQuery then some "query".toList
  else if loc == sHeader then some "headers".toList
  else if loc == "cookie".toList then some "cookies".toList
  else if loc == sBody then some "body".toList
  else none

inductive ContainerRes where
  | ok (c : Str)
  | notDefined        -- TransitionValidationError
  | keyError          -- unknown explicit location: `LOCATION_TO_CONTAINER[location]` raises KeyError
  deriving Repr, DecidableEq

/-- `_get_parameter_container`; `targetParams` = `(name, location)` of `target.iter_parameters()` in order.
    An explicit empty location (`".id"`) is falsy in Python and falls through to the lookup. -/
def parameterContainer (targetParams : List (Str × Str)) (location : Option Str) (name : Str) : ContainerRes :=
  match location with
  | some (c :: cs) =>
    match locationToContainer (c :: cs) with
    | some k => .ok k
    | none => .keyError
  | _ =>
    match targetParams.find? (fun p => p.1 == name) with
    | some p => (match locationToContainer p.2 with | some k => .ok k | none => .keyError)
    | none => .notDefined

/-- errors contributed by one string expression: parse failure, or references to parameters the source
    operation does not define. `sourceParams` = `(name, location)` of `source.iter_parameters()`. -/
def exprErrors (cfg : PCfg) (rx : RxOracle) (sourceParams : List (Str × Str)) (e : Str) : Nat :=
  match parse cfg rx e with
  | .error _ => 1
  | .ok nodes => (nodes.filter fun n =>
      match n with
      | .nonBodyRequest loc name _ => !(sourceParams.any fun p => p.1 == name && p.2 == loc)
      | _ => false).length

/-- `_normalize_parameters` when the target exists: (normalized parameters, number of validation errors);
    `none` = an uncaught `KeyError`. -/
def normalizeParams (cfg : PCfg) (rx : RxOracle) (sourceParams targetParams : List (Str × Str)) :
    List (Str × J) → Option (List Param × Nat)
  | [] => some ([], 0)
  | (p, expr) :: rest =>
    let (loc, name) := splitParam p
    let errs := match expr with | .str s => exprErrors cfg rx sourceParams s | _ => 0
    match parameterContainer targetParams loc name with
    | .keyError => none
    | .notDefined =>
      match normalizeParams cfg rx sourceParams targetParams rest with
      | none => none
      | some (ps, n) => some (ps, n + errs + 1)
    | .ok c =>
      match normalizeParams cfg rx sourceParams targetParams rest with
      | none => none
      | some (ps, n) => some (⟨loc, name, expr, c⟩ :: ps, n + errs)

/-- `Ok(value) | Err(exc)` of an `ExtractedParam` -/
abbrev Extracted := Except EErr Val

/-- `extract_parameters`: container → name → extracted value, with dict semantics -/
def extractParams (ev : J → Extracted) : List Param → List (Str × List (Str × Extracted)) → List (Str × List (Str × Extracted))
  | [], acc => acc
  | p :: ps, acc =>
    let inner := (lookup p.container acc).getD []
    extractParams ev ps (dictSet p.container (dictSet p.name (ev p.expr) inner) acc)

/-- the `kwargs` comprehension of `into_step_input`: keep `Ok` values that are neither `None` nor UNRESOLVABLE -/
def keepValue : Str × Extracted → Option (Str × J)
  | (n, .ok (.ok j)) => if j.isNull then none else some (n, j)
  | _ => none

def stepKwargs (extracted : List (Str × List (Str × Extracted))) : List (Str × List (Str × J)) :=
  extracted.map fun (c, data) => (c, data.filterMap keepValue)

/-- the body a link supplies, if it is usable: `Ok` and not UNRESOLVABLE -/
def usableBody : Option Extracted → Option J
  | some (.ok (.ok j)) => some j
  | _ => none

/-- `kwargs["body"]`: only with `merge_body` off -/
def bodyKwarg (body : Option Extracted) (mergeBody : Bool) : Option J :=
  if mergeBody then none else usableBody body

/-- the `body` entry of `kwargs`: the link's request body (with `merge_body` off) overrides what a `body.<name>`
    parameter put there -/
def kwargsBody (kw : List (Str × List (Str × J))) (body : Option Extracted) (mergeBody : Bool) : Option J :=
  match bodyKwarg body mergeBody with
  | some b => some b
  | none => (lookup sBody kw).map J.obj

/-- `{**a, **b}` -/
def dictMerge (a b : List (Str × J)) : List (Str × J) := b.foldl (fun acc kv => dictSet kv.1 kv.2 acc) a

/-- `case.body` after `into_step_input`; `generated` = the body of the drawn case (which already is the
    link's body when it was passed as `kwargs["body"]`) -/
def finalBody (body : Option Extracted) (mergeBody : Bool) (generated : J) : J :=
  match usableBody body, mergeBody with
  | some new, true =>
    (match generated, new with
     | .obj g, .obj n => .obj (dictMerge g n)
     | _, _ => new)
  | _, _ => generated

/-- `get_parameters_value`: explicit values kept, what is missing is generated and added (`copied.update(new)`);
    `new = none`: the strategy drew `None` -/
def mergeExplicit (explicit : List (Str × J)) (generated : Option (List (Str × J))) : Option (List (Str × J)) :=
  if explicit.isEmpty then generated
  else match generated with
    | none => some explicit
    | some new => some (dictMerge explicit new)

/-! ## the `lru_cache` of `OpenApiLink.extract`, keyed by the source case id -/

/-- `_cached_extract(StepOutputWrapper(output))` over a cache held as an association list `case id → result` -/
def cachedExtract (compute : α → β) (idOf : α → Str) (cache : List (Str × β)) (out : α) : β × List (Str × β) :=
  match lookup (idOf out) cache with
  | some r => (r, cache)
  | none => (compute out, (idOf out, compute out) :: cache)

end SV.Model.C10
