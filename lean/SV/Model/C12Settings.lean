/-
  SV.Model.C12Settings — how `create_test` (generation/hypothesis/builder.py) arrives at the Hypothesis settings a
  test runs with: the test is created under the *active* settings profile, the schemathesis deadline replaces an
  untouched one, the user's settings are merged in item by item, `explain` is stripped, `generate`/`reuse` are stripped
  when the test is not a fuzzing one.  Core Lean only.
-/
namespace SV.Model.C12Settings

inductive Phase where
  | explicit | reuse | generate | target | shrink | explain
  deriving DecidableEq, Repr

structure S where
  maxExamples : Nat
  stepCount : Nat
  deadline : Option Nat          -- milliseconds; none = no deadline
  derandomize : Bool
  phases : List Phase
  deriving DecidableEq, Repr

def defaultDeadline : Option Nat := some 15000

/-- which profile the user's values are compared with when deciding what to merge -/
inductive Against where
  | active     -- `hypothesis.settings.default` (the tree)
  | stock      -- the profile registered under the name "default"
  deriving DecidableEq, Repr

def pick {α : Type} [DecidableEq α] (conf ref test : α) : α := if conf ≠ ref then conf else test

/-- `create_test`'s settings pipeline. `active`: the active profile (under which the test object was created), `stock`:
    Hypothesis' stock defaults, `configured`: `config.settings` -/
def effective (ag : Against) (active stock : S) (configured : Option S) (fuzzing : Bool) : S :=
  let t0 : S := active
  let ref : S := match ag with | .active => active | .stock => stock
  let t1 : S := if t0.deadline = ref.deadline then { t0 with deadline := defaultDeadline } else t0
  let t2 : S := match configured with
    | none => t1
    | some c => { maxExamples := pick c.maxExamples ref.maxExamples t1.maxExamples,
                  stepCount := pick c.stepCount ref.stepCount t1.stepCount,
                  deadline := pick c.deadline ref.deadline t1.deadline,
                  derandomize := pick c.derandomize ref.derandomize t1.derandomize,
                  phases := pick c.phases ref.phases t1.phases }
  let t3 : S := { t2 with phases := t2.phases.filter (· ≠ .explain) }
  if fuzzing then t3 else { t3 with phases := t3.phases.filter fun p => p ≠ .reuse ∧ p ≠ .generate }

end SV.Model.C12Settings
