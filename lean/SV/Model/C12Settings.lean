/-
  SV.Model.C12Settings — how `create_test` (generation/hypothesis/builder.py) arrives at the Hypothesis settings a
  test runs with: the test is created under the *active* settings profile, the schemathesis deadline replaces an
  untouched one, the user's settings are merged in item by item, `explain` is stripped, `generate`/`reuse` are stripped
  when the test is not a fuzzing one.  Core Lean only.
-/
namespace SV.Model.C12Settings

inductive Phase where
  | explicit | reuse | generate | target | shrink | explain
  deriving DecidableEq, Repr

structure S where
  maxExamples : Nat
  stepCount : Nat
  deadline : Option Nat          -- milliseconds; none = no deadline
  derandomize : Bool
  phases : List Phase
  deriving DecidableEq, Repr

def defaultDeadline : Option Nat := some 15000

/-- which profile the user's values are compared with when deciding what to merge -/
inductive Against where
  | active     -- `hypothesis.settings.default` (the tree)
  | stock      -- the profile registered under the name "default"
  deriving DecidableEq, Repr

def pick {α : Type} [DecidableEq α] (conf ref test : α) : α := if conf ≠ ref then conf else test

/-- `create_test`'s settings pipeline. `active`: the active profile (under which the test object was created), `stock`:
    Hypothesis' stock defaults, `configured`: `config.settings` -/
def effective (ag : Against) (active stock : S) (configured : Option S) (fuzzing : Bool) : S :=
  let t0 : S := active
  let ref : S := match ag with | .active => active | .stock => stock
  let t1 : S := if t0.deadline = ref.deadline then { t0 with deadline := defaultDeadline } else t0
  let t2 : S := match configured with
    | none => t1
    | some c => { maxExamples := pick c.maxExamples ref.maxExamples t1.maxExamples,
                  stepCount := pick c.stepCount ref.stepCount t1.stepCount,
                  deadline := pick c.deadline ref.deadline t1.deadline,
                  derandomize := pick c.derandomize ref.derandomize t1.derandomize,
                  phases := pick c.phases ref.phases t1.phases }
  let t3 : S := { t2 with phases := t2.phases.filter (· ≠ .explain) }
  if fuzzing then t3 else { t3 with phases := t3.phases.filter fun p => p ≠ .reuse ∧ p ≠ .generate }

/-! ## `BaseSchema.configure`: only what a call names is touched -/

/-- the six settings of a loaded schema, as opaque values (`none`: Python `None`); the rate limiter is the limiter built
    from the given rate string -/
structure SchemaCfg where
  baseUrl : Option Nat
  location : Option Nat
  rate : Option Nat
  generation : Option Nat
  output : Option Nat
  app : Option Nat
  deriving DecidableEq, Repr

/-- one `configure(...)` call: per keyword `none` = not given (`NOT_SET`), `some v` = given (`v = none`: Python `None`) -/
structure ConfigureCall where
  baseUrl : Option (Option Nat) := none
  location : Option (Option Nat) := none
  rate : Option (Option Nat) := none
  generation : Option (Option Nat) := none
  output : Option (Option Nat) := none
  app : Option (Option Nat) := none
  deriving DecidableEq, Repr

def configure (s : SchemaCfg) (c : ConfigureCall) : SchemaCfg :=
  { baseUrl := c.baseUrl.getD s.baseUrl, location := c.location.getD s.location, rate := c.rate.getD s.rate,
    generation := c.generation.getD s.generation, output := c.output.getD s.output, app := c.app.getD s.app }

/-- the last value a history of calls gives one keyword, if any call names it -/
def lastGiven (f : ConfigureCall → Option (Option Nat)) : List ConfigureCall → Option (Option Nat)
  | [] => none
  | c :: rest => match lastGiven f rest with
    | some v => some v
    | none => f c

end SV.Model.C12Settings
