/-
  Model for C13 — a fixed seed reproduces the request sequence.
  What is schemathesis' own (and therefore modelled): (a) which entropy source each generation site draws from
  (table regenerated from the source: SV/Generated/C13.lean), (b) how per-operation request lists are combined by
  one or several workers (engine/phases/unit: each worker takes operations from a shared producer and runs each
  operation's test to completion). Hypothesis itself is a parameter (`Gen`).
  Core Lean only.
-/
namespace SV.Model.C13

inductive Source where
  | seeded          -- hypothesis.seed(config.seed)
  | seededDerived   -- hypothesis.seed(seed), seed += 1 per suite (stateful)
  | derandomized    -- settings(derandomize=True): seed derived from the test function's digest
  | simplestFirst   -- unseeded single-example run: Hypothesis' first (all-zero) example unless a filter rejects it
  | envSeed         -- seeded from an environment variable
  | excludedById    -- only feeds the per-case id, which the property excludes
  | seededByCaller  -- inherits the caller's seed decoration
  | unclassified
  deriving DecidableEq, Repr

def Source.ofString : String → Source
  | "seeded" => .seeded | "seededDerived" => .seededDerived | "derandomized" => .derandomized
  | "simplestFirst" => .simplestFirst | "envSeed" => .envSeed | "excludedById" => .excludedById
  | "seededByCaller" => .seededByCaller | _ => .unclassified

/-- sources whose draws are a function of (seed, operation) only -/
def Source.deterministic : Source → Bool
  | .seeded | .seededDerived | .derandomized | .excludedById | .seededByCaller => true
  | _ => false

abbrev Op := Nat
abbrev Req := Nat
abbrev Seed := Nat
abbrev Env := Nat          -- everything that is not the seed: PRNG state of the process, hash seed, thread timing

/-- one generation site of an operation's test: what it contributes to the request list -/
abbrev Gen := Source → Seed → Env → Op → List Req

/-- a site that is deterministic ignores the environment -/
def Honest (g : Gen) : Prop := ∀ src, src.deterministic = true → ∀ seed e1 e2 op, g src seed e1 op = g src seed e2 op

/-- requests of one operation: the sites of the phase, in order -/
def opRequests (g : Gen) (sites : List Source) (seed : Seed) (env : Env) (op : Op) : List (Op × Req) :=
  (sites.flatMap fun src => g src seed env op).map fun r => (op, r)

/-- one worker: operations in order, each run to completion -/
def sequential (g : Gen) (sites : List Source) (seed : Seed) (env : Env) (ops : List Op) : List (Op × Req) :=
  ops.flatMap (opRequests g sites seed env)

/-- `r` is an interleaving of the lists `ls` (what several workers sending concurrently produce) -/
inductive Inter {α : Type} : List (List α) → List α → Prop where
  | done (ls : List (List α)) (h : ∀ l ∈ ls, l = []) : Inter ls []
  | take (pre post : List (List α)) (x : α) (l r : List α) :
      Inter (pre ++ l :: post) r → Inter (pre ++ (x :: l) :: post) (x :: r)

end SV.Model.C13
