/-
  Model for C13, worker clause — the state of the schema object that worker threads share.

  The worker theorems of `SV.Props.C13` (`per_operation_requests_preserved`, `workers_same_multiset`) take the request
  list of each operation as given: they assume that preparing one operation does not depend on what the other workers
  are doing.  That assumption lives in the lazily built, shared members of the schema object
  (specs/openapi/schemas.py):

    * `rewritten_components`  (`if not hasattr(self, "_rewritten_components"): … build … self._rewritten_components = …`)
      and `resolver` — lazily initialised cells: check / build / publish;
    * the single `InliningResolver` of the schema with its stack of resolution scopes (`_scopes_stack`), pushed and
      popped by `resolver.resolving(...)` inside `_rewrite_references` (under `_inline_reference_cache_lock`) and by
      `resolve_all` / `in_scope` while operations are iterated.

  Two transition systems, both executable (the driver runs them on the schedules that the harness forces on the real
  objects):

    1. `lstep` / `lrun`: workers that ask for a lazily initialised cell, over an explicit schedule;
    2. `sharedObs` / `privObs` / `disc`: a trace of accesses to one shared stack, what every read returns on the shared
       stack, what it would return if every thread had the stack for itself, and the lock discipline.
  Core Lean only.
-/
namespace SV.Model.C13

abbrev Tid := Nat

def upd {α : Type} (f : Nat → α) (k : Nat) (v : α) : Nat → α := fun j => if j = k then v else f j

/-! ## 1. a lazily initialised shared cell -/

/-- how the code builds the cell: `parts` mutations of the fresh object (`target.update(...)`, `components[...] = …`),
    the assignment `self._x = obj` placed after `publishAt` of them, the whole section optionally under a lock that
    every reader takes as well -/
structure LCfg where
  parts : Nat
  publishAt : Nat
  locked : Bool
  deriving DecidableEq, Repr

inductive LPc where
  | start                                   -- has not looked at the cell yet
  | building (filled : Nat) (pub : Bool)    -- `hasattr` was false: builds its own object
  | have (o : Tid)                          -- holds a reference to the object built by worker `o`
  | done (seen : Nat)                       -- has used the object: the number of parts it found there
  deriving DecidableEq, Repr

structure LState where
  cell : Option Tid          -- `self._x`: the object (named after its builder) that is published, if any
  objs : Tid → Nat           -- the heap: how many parts the object of each builder contains
  lock : Option Tid
  pc : Tid → LPc

def LState.init : LState := ⟨none, fun _ => 0, none, fun _ => .start⟩

/-- one atomic step of worker `w` (a blocked worker does not move) -/
def lstep (c : LCfg) (s : LState) (w : Tid) : LState :=
  match s.pc w with
  | .start =>
    if c.locked && s.lock.isSome then s
    else match s.cell with
      | some o => { s with pc := upd s.pc w (.have o) }
      | none => { s with pc := upd s.pc w (.building 0 false), lock := if c.locked then some w else s.lock }
  | .building f p =>
    if !p && f == min c.publishAt c.parts then { s with cell := some w, pc := upd s.pc w (.building f true) }
    else if f < c.parts then { s with objs := upd s.objs w (f + 1), pc := upd s.pc w (.building (f + 1) p) }
    else { s with pc := upd s.pc w (.have (s.cell.getD w)), lock := if c.locked then none else s.lock }
  | .have o => { s with pc := upd s.pc w (.done (s.objs o)) }
  | .done _ => s

def lrun (c : LCfg) (sched : List Tid) : LState := sched.foldl (lstep c) LState.init

/-! ## 2. one stack of resolution scopes shared by all threads -/

abbrev Scope := Nat

inductive SAct where
  | acq | rel                 -- the (re-entrant) lock that is meant to guard the stack
  | push (s : Scope) | pop
  | readTop                   -- `resolution_scope`: what relative references are resolved against
  | readAll                   -- iteration over `_scopes_stack` (the key of the inline reference cache)
  deriving DecidableEq, Repr

abbrev SEv := Tid × SAct

/-- effect of one action on a stack (top = head) and what a read returns -/
def stackStep (st : List Scope) : SAct → List Scope × Option (List Scope)
  | .push s => (s :: st, none)
  | .pop => (st.tail, none)
  | .readTop => (st, some st.head?.toList)
  | .readAll => (st, some st)
  | .acq => (st, none)
  | .rel => (st, none)

/-- what every read returns when all threads work on the one shared stack -/
def sharedObs (st : List Scope) : List SEv → List (Tid × List Scope)
  | [] => []
  | (t, a) :: rest =>
    match (stackStep st a).2 with
    | some o => (t, o) :: sharedObs (stackStep st a).1 rest
    | none => sharedObs (stackStep st a).1 rest

/-- one step of the lock discipline: every access to the stack is made by the thread that holds the lock, the lock is
    only taken when free (or re-entered by its holder), and when it is released for good the stack is back at `base`.
    State: the lock (holder, depth) and the stack as the holder sees it. `none`: the discipline is broken here. -/
def discStep (base : List Scope) (lk : Option (Tid × Nat)) (cur : List Scope) (t : Tid) (a : SAct) :
    Option (Option (Tid × Nat) × List Scope) :=
  match lk with
  | none =>
    match a with
    | .acq => some (some (t, 1), cur)
    | _ => none
  | some (h, d) =>
    if t ≠ h then none else
    match a with
    | .acq => some (some (h, d + 1), cur)
    | .rel => if d ≤ 1 then (if cur = base then some (none, cur) else none) else some (some (h, d - 1), cur)
    | a => some (some (h, d), (stackStep cur a).1)

def disc (base : List Scope) (lk : Option (Tid × Nat)) (cur : List Scope) : List SEv → Bool
  | [] => true
  | (t, a) :: r =>
    match discStep base lk cur t a with
    | none => false
    | some (lk', cur') => disc base lk' cur' r

end SV.Model.C13
