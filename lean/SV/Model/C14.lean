/-
  Model for C14 — configured credentials and overrides reach every request.
  Python anchors (src/schemathesis):
    transport/prepare.py      prepare_headers (case headers, then user headers win, then defaults)
    engine/phases/unit/__init__.py  get_strategy_kwargs (overrides + config headers minus User-Agent)
    specs/openapi/_hypothesis.py    get_parameters_value (explicit values merged with what is generated for the rest)
    generation/hypothesis/builder.py  add_coverage (container.update(override))
    engine/phases/stateful/_executor.py  before_call (container.update(entry))
    auths.py                  set_on_case precedence, AuthStorage.set, CachingAuthProvider.get (lock + expiry)
  Core Lean only.
-/
namespace SV.Model.C14

abbrev Key := List Char
abbrev Dict := List (Key × String)      -- insertion-ordered, keys unique up to the container's key equality

def lower (k : Key) : Key := k.map Char.toLower

/-! ## plain dicts (query, cookies, path parameters, dict headers) -/

def dlookup (k : Key) : Dict → Option String
  | [] => none
  | (k', v) :: r => if k == k' then some v else dlookup k r

/-- `d[k] = v` -/
def dset (d : Dict) (k : Key) (v : String) : Dict :=
  match d with
  | [] => [(k, v)]
  | (k', v') :: r => if k == k' then (k', v) :: r else (k', v') :: dset r k v

/-- `d.update(other)` -/
def dupdate (d other : Dict) : Dict := other.foldl (fun acc kv => dset acc kv.1 kv.2) d

/-! ## CaseInsensitiveDict (requests.structures) -/

def lookupCI (k : Key) : Dict → Option String
  | [] => none
  | (k', v) :: r => if lower k == lower k' then some v else lookupCI k r

/-- `d[k] = v` on a CaseInsensitiveDict: the entry keeps its position, takes the new spelling and value -/
def setCI (d : Dict) (k : Key) (v : String) : Dict :=
  match d with
  | [] => [(k, v)]
  | (k', v') :: r => if lower k == lower k' then (k, v) :: r else (k', v') :: setCI r k v

def updateCI (d other : Dict) : Dict := other.foldl (fun acc kv => setCI acc kv.1 kv.2) d

def setdefaultCI (d : Dict) (k : Key) (v : String) : Dict :=
  match lookupCI k d with
  | some _ => d
  | none => setCI d k v

def userAgent : Key := "User-Agent".toList
def caseIdHeader : Key := "X-Schemathesis-TestCaseId".toList

/-- `prepare_headers(case, headers)` -/
def prepareHeaders (caseHeaders : Option Dict) (user : Option Dict) (ua caseId : String) : Dict :=
  let h := match caseHeaders with | some d => updateCI [] d | none => []
  let h := match user with | some u => if u.isEmpty then h else updateCI h u | none => h
  setdefaultCI (setdefaultCI h userAgent ua) caseIdHeader caseId

/-- `get_strategy_kwargs`: config headers without User-Agent (compared lower-cased) -/
def strategyHeaders (config : Dict) : Dict := config.filter fun kv => lower kv.1 != lower userAgent

/-- `get_parameters_value` for a non-empty explicit value: `copied = deepclone(value); copied.update(new)` -/
def mergeExplicit (explicit : Dict) (generated : Option Dict) : Dict :=
  match generated with
  | some g => dupdate explicit g
  | none => explicit

/-- `add_coverage` / stateful `before_call`: the override is written over the container -/
def applyOverride (container : Option Dict) (override : Dict) : Dict :=
  match container with
  | none => override
  | some c => dupdate c override

/-! ## auth storages -/

/-- `set_on_case`: the test-level storage if given, else the schema's if defined, else the global one if defined.
    A storage is the list of what each provider's `get` returns (`none`: filtered out / no data). -/
def chooseStorage (test : Option (List (Option Nat))) (schema global : List (Option Nat)) : Option (List (Option Nat)) :=
  match test with
  | some t => some t
  | none => if !schema.isEmpty then some schema else if !global.isEmpty then some global else none

/-- `AuthStorage.set`: the first provider with data is applied -/
def firstWithData : List (Option Nat) → Option (Nat × Nat)
  | [] => none
  | some d :: _ => some (0, d)
  | none :: r => (firstWithData r).map fun (i, d) => (i + 1, d)

/-! ## CachingAuthProvider.get under concurrent callers -/

structure Entry where
  data : Nat
  expires : Nat
  deriving DecidableEq, Repr

inductive TPc where
  | idle
  | read1 (e : Option Entry)     -- holds the first `_get_cache_entry` result
  | wantLock
  | locked                       -- inside `with self._refresh_lock`, before the second look
  | fetching                     -- `self.provider.get(...)` in progress
  | gotData (d : Nat)
  | done (d : Nat)
  deriving DecidableEq, Repr

def TPc.critical : TPc → Bool
  | .locked | .fetching | .gotData _ => true
  | _ => false

def TPc.busyFetching : TPc → Bool
  | .fetching | .gotData _ => true
  | _ => false

structure CacheSt where
  clock : Nat := 0
  interval : Nat
  entry : Option Entry := none
  lock : Bool := false
  threads : List TPc
  fetches : List Nat := []        -- ghost: times at which `provider.get` was called, newest first
  deriving Repr

def expired (clock : Nat) : Option Entry → Bool
  | none => true
  | some e => clock ≥ e.expires

inductive CStep : CacheSt → CacheSt → Prop where
  | tick (s : CacheSt) (d : Nat) : CStep s { s with clock := s.clock + d }
  | call (s : CacheSt) (l r : List TPc) (h : s.threads = l ++ .idle :: r) :
      CStep s { s with threads := l ++ .read1 s.entry :: r }
  | check1 (s : CacheSt) (l r : List TPc) (e : Option Entry) (h : s.threads = l ++ .read1 e :: r) :
      CStep s { s with threads := l ++ (if expired s.clock e then .wantLock else
        match e with | some x => .done x.data | none => .wantLock) :: r }
  | acquire (s : CacheSt) (l r : List TPc) (h : s.threads = l ++ .wantLock :: r) (hl : s.lock = false) :
      CStep s { s with lock := true, threads := l ++ .locked :: r }
  | check2Hit (s : CacheSt) (l r : List TPc) (x : Entry) (h : s.threads = l ++ .locked :: r)
      (he : s.entry = some x) (hx : expired s.clock s.entry = false) :
      CStep s { s with lock := false, threads := l ++ .done x.data :: r }
  | check2Miss (s : CacheSt) (l r : List TPc) (h : s.threads = l ++ .locked :: r)
      (hx : expired s.clock s.entry = true) :
      CStep s { s with threads := l ++ .fetching :: r, fetches := s.clock :: s.fetches }
  | fetched (s : CacheSt) (l r : List TPc) (d : Nat) (h : s.threads = l ++ .fetching :: r) :
      CStep s { s with threads := l ++ .gotData d :: r }
  | store (s : CacheSt) (l r : List TPc) (d : Nat) (h : s.threads = l ++ .gotData d :: r) :
      CStep s { s with entry := some ⟨d, s.clock + s.interval⟩, lock := false, threads := l ++ .done d :: r }
  | again (s : CacheSt) (l r : List TPc) (d : Nat) (h : s.threads = l ++ .done d :: r) :
      CStep s { s with threads := l ++ .idle :: r }

inductive CReach (s0 : CacheSt) : CacheSt → Prop where
  | refl : CReach s0 s0
  | step (s s' : CacheSt) : CReach s0 s → CStep s s' → CReach s0 s'

/-- sequential semantics used by the driver: one caller, a list of (clock advance, provider result) -/
def seqGet (interval : Nat) : Nat → Option Entry → List (Nat × Nat) → List (Nat × Bool)
  | _, _, [] => []
  | clock, entry, (dt, d) :: rest =>
    let clock := clock + dt
    if expired clock entry then (d, true) :: seqGet interval clock (some ⟨d, clock + interval⟩) rest
    else match entry with
      | some e => (e.data, false) :: seqGet interval clock entry rest
      | none => (d, true) :: seqGet interval clock (some ⟨d, clock + interval⟩) rest

end SV.Model.C14
