/-
  Model for C14 — configured credentials and overrides reach every request.
  Python anchors (src/schemathesis):
    transport/prepare.py      prepare_headers (case headers, then user headers win, then defaults)
    engine/phases/unit/__init__.py  get_strategy_kwargs (overrides + config headers minus User-Agent)
    specs/openapi/_hypothesis.py    get_parameters_value (explicit values merged with what is generated for the rest)
    generation/hypothesis/builder.py  add_coverage (container.update(override))
    engine/phases/stateful/_executor.py  before_call (container.update(entry))
    auths.py                  set_on_case precedence, AuthStorage.set, CachingAuthProvider.get (lock + expiry)
  Core Lean only.
-/
namespace SV.Model.C14

abbrev Key := List Char
abbrev Dict := List (Key × String)      -- insertion-ordered, keys unique up to the container's key equality

def lower (k : Key) : Key := k.map Char.toLower

/-! ## plain dicts (query, cookies, path parameters, dict headers) -/

def dlookup (k : Key) : Dict → Option String
  | [] => none
  | (k', v) :: r => if k == k' then some v else dlookup k r

/-- `d[k] = v` -/
def dset (d : Dict) (k : Key) (v : String) : Dict :=
  match d with
  | [] => [(k, v)]
  | (k', v') :: r => if k == k' then (k', v) :: r else (k', v') :: dset r k v

/-- `d.update(other)` -/
def dupdate (d other : Dict) : Dict := other.foldl (fun acc kv => dset acc kv.1 kv.2) d

/-! ## CaseInsensitiveDict (requests.structures) -/

def lookupCI (k : Key) : Dict → Option String
  | [] => none
  | (k', v) :: r => if lower k == lower k' then some v else lookupCI k r

/-- `d[k] = v` on a CaseInsensitiveDict: the entry keeps its position, takes the new spelling and value -/
def setCI (d : Dict) (k : Key) (v : String) : Dict :=
  match d with
  | [] => [(k, v)]
  | (k', v') :: r => if lower k == lower k' then (k, v) :: r else (k', v') :: setCI r k v

def updateCI (d other : Dict) : Dict := other.foldl (fun acc kv => setCI acc kv.1 kv.2) d

def setdefaultCI (d : Dict) (k : Key) (v : String) : Dict :=
  match lookupCI k d with
  | some _ => d
  | none => setCI d k v

def userAgent : Key := "User-Agent".toList
def caseIdHeader : Key := "X-Schemathesis-TestCaseId".toList

/-- `prepare_headers(case, headers)` -/
def prepareHeaders (caseHeaders : Option Dict) (user : Option Dict) (ua caseId : String) : Dict :=
  let h := match caseHeaders with | some d => updateCI [] d | none => []
  let h := match user with | some u => if u.isEmpty then h else updateCI h u | none => h
  setdefaultCI (setdefaultCI h userAgent ua) caseIdHeader caseId

/-- `get_strategy_kwargs`: config headers without User-Agent (compared lower-cased) -/
def strategyHeaders (config : Dict) : Dict := config.filter fun kv => lower kv.1 != lower userAgent

/-- `get_parameters_value` for a non-empty explicit value: `copied = deepclone(value); copied.update(new)` -/
def mergeExplicit (explicit : Dict) (generated : Option Dict) : Dict :=
  match generated with
  | some g => dupdate explicit g
  | none => explicit

/-- `add_coverage` / stateful `before_call`: the override is written over the container -/
def applyOverride (container : Option Dict) (override : Dict) : Dict :=
  match container with
  | none => override
  | some c => dupdate c override

/-! ## auth storages -/

/-- `set_on_case`: the test-level storage if given, else the schema's if defined, else the global one if defined.
    A storage is the list of what each provider's `get` returns (`none`: filtered out / no data). -/
def chooseStorage (test : Option (List (Option Nat))) (schema global : List (Option Nat)) : Option (List (Option Nat)) :=
  match test with
  | some t => some t
  | none => if !schema.isEmpty then some schema else if !global.isEmpty then some global else none

/-- `AuthStorage.set`: the first provider with data is applied -/
def firstWithData : List (Option Nat) → Option (Nat × Nat)
  | [] => none
  | some d :: _ => some (0, d)
  | none :: r => (firstWithData r).map fun (i, d) => (i + 1, d)

/-! ## CachingAuthProvider.get under concurrent callers -/

structure Entry where
  data : Nat
  expires : Nat
  deriving DecidableEq, Repr

inductive TPc where
  | idle
  | read1 (e : Option Entry)     -- holds the first `_get_cache_entry` result
  | wantLock
  | locked                       -- inside `with self._refresh_lock`, before the second look
  | fetching                     -- `self.provider.get(...)` in progress
  | gotData (d : Nat)
  | done (d : Nat)
  deriving DecidableEq, Repr

def TPc.critical : TPc → Bool
  | .locked | .fetching | .gotData _ => true
  | _ => false

def TPc.busyFetching : TPc → Bool
  | .fetching | .gotData _ => true
  | _ => false

structure CacheSt where
  clock : Nat := 0
  interval : Nat
  entry : Option Entry := none
  lock : Bool := false
  threads : List TPc
  fetches : List Nat := []        -- ghost: times at which `provider.get` was called, newest first
  deriving Repr

def expired (clock : Nat) : Option Entry → Bool
  | none => true
  | some e => clock ≥ e.expires

inductive CStep : CacheSt → CacheSt → Prop where
  | tick (s : CacheSt) (d : Nat) : CStep s { s with clock := s.clock + d }
  | call (s : CacheSt) (l r : List TPc) (h : s.threads = l ++ .idle :: r) :
      CStep s { s with threads := l ++ .read1 s.entry :: r }
  | check1 (s : CacheSt) (l r : List TPc) (e : Option Entry) (h : s.threads = l ++ .read1 e :: r) :
      CStep s { s with threads := l ++ (if expired s.clock e then .wantLock else
        match e with | some x => .done x.data | none => .wantLock) :: r }
  | acquire (s : CacheSt) (l r : List TPc) (h : s.threads = l ++ .wantLock :: r) (hl : s.lock = false) :
      CStep s { s with lock := true, threads := l ++ .locked :: r }
  | check2Hit (s : CacheSt) (l r : List TPc) (x : Entry) (h : s.threads = l ++ .locked :: r)
      (he : s.entry = some x) (hx : expired s.clock s.entry = false) :
      CStep s { s with lock := false, threads := l ++ .done x.data :: r }
  | check2Miss (s : CacheSt) (l r : List TPc) (h : s.threads = l ++ .locked :: r)
      (hx : expired s.clock s.entry = true) :
      CStep s { s with threads := l ++ .fetching :: r, fetches := s.clock :: s.fetches }
  | fetched (s : CacheSt) (l r : List TPc) (d : Nat) (h : s.threads = l ++ .fetching :: r) :
      CStep s { s with threads := l ++ .gotData d :: r }
  | store (s : CacheSt) (l r : List TPc) (d : Nat) (h : s.threads = l ++ .gotData d :: r) :
      CStep s { s with entry := some ⟨d, s.clock + s.interval⟩, lock := false, threads := l ++ .done d :: r }
  | again (s : CacheSt) (l r : List TPc) (d : Nat) (h : s.threads = l ++ .done d :: r) :
      CStep s { s with threads := l ++ .idle :: r }

inductive CReach (s0 : CacheSt) : CacheSt → Prop where
  | refl : CReach s0 s0
  | step (s s' : CacheSt) : CReach s0 s → CStep s s' → CReach s0 s'

/-- sequential semantics used by the driver: one caller, a list of (clock advance, provider result) -/
def seqGet (interval : Nat) : Nat → Option Entry → List (Nat × Nat) → List (Nat × Bool)
  | _, _, [] => []
  | clock, entry, (dt, d) :: rest =>
    let clock := clock + dt
    if expired clock entry then (d, true) :: seqGet interval clock (some ⟨d, clock + interval⟩) rest
    else match entry with
      | some e => (e.data, false) :: seqGet interval clock entry rest
      | none => (d, true) :: seqGet interval clock (some ⟨d, clock + interval⟩) rest

/-! ## parameter overrides (`--set-query`, `--set-header`, `--set-cookie`, `--set-path`): which entries apply to an operation
    (generation/overrides.py `Override.for_operation` / `_for_parameters`) and the per-phase application sites -/

inductive Loc where
  | query | headers | cookies | path
  deriving DecidableEq, Repr

def Loc.all : List Loc := [.query, .headers, .cookies, .path]

/-- the `Override` dataclass: one dict per location (also the shape of what `for_operation` returns) -/
abbrev Overrides := Loc → Dict
/-- the four parameter containers of a `Case` (`None` or a dict) -/
abbrev Containers := Loc → Option Dict

/-- an API operation as far as overrides are concerned: path template, method, declared parameters
    (location, name) in the iteration order of `operation.query/headers/cookies/path_parameters` -/
structure Op where
  path : Key
  method : Key
  params : List (Loc × Key)
  deriving DecidableEq, Repr

def Op.declared (op : Op) (l : Loc) : List Key :=
  (op.params.filter fun p => p.1 == l).map fun p => p.2

/-- `_for_parameters(overridden, defined)`: `for param in defined: if param.name in overridden: output[name] = …` -/
def fpStep (overridden : Dict) (out : Dict) (n : Key) : Dict :=
  match dlookup n overridden with
  | some v => dset out n v
  | none => out

def forParameters (overridden : Dict) (defined : List Key) : Dict := defined.foldl (fpStep overridden) []

/-- `Override.for_operation(operation)` -/
def forOperation (o : Overrides) (op : Op) : Overrides := fun l => forParameters (o l) (op.declared l)

/-! ### how a request-building site gets at `for_operation`: per call (the code as found) or through a memo table -/

/-- `perCall`: `config.override.for_operation(case.operation)` is evaluated for every request (as found, all sites).
    `memo key`: the class of "resolve once" rewrites — a dict indexed by `key operation`, filled on first use. -/
inductive Resolver (K : Type) where
  | perCall
  | memo (key : Op → K)

def memoGet {K : Type} [DecidableEq K] (k : K) : List (K × Overrides) → Option Overrides
  | [] => none
  | (k', a) :: r => if k = k' then some a else memoGet k r

/-- one resolution: the entries used for `op` and the memo table afterwards -/
def resolve {K : Type} [DecidableEq K] (R : Resolver K) (o : Overrides) (cache : List (K × Overrides)) (op : Op) :
    Overrides × List (K × Overrides) :=
  match R with
  | .perCall => (forOperation o op, cache)
  | .memo key =>
    match memoGet (key op) cache with
    | some a => (a, cache)
    | none => (forOperation o op, (key op, forOperation o op) :: cache)

/-- a site `f` (what it does with the resolved entries and the per-request data) run over a sequence of requests -/
def siteRun {K α β : Type} [DecidableEq K] (R : Resolver K) (o : Overrides) (f : Overrides → α → β) :
    List (K × Overrides) → List (Op × α) → List β
  | _, [] => []
  | c, (op, a) :: rest => f (resolve R o c op).1 a :: siteRun R o f (resolve R o c op).2 rest

/-! ### the sites -/

/-- `container = getattr(case, location) or {}; container.update(entry)` — `case.headers` is a CaseInsensitiveDict
    (`make_case` wraps it) unless it is `None`/empty, in which case a plain `{}` takes its place -/
def containerUpdate (l : Loc) (c : Option Dict) (entry : Dict) : Dict :=
  match c with
  | none => dupdate [] entry
  | some d =>
    if d.isEmpty then dupdate [] entry
    else match l with
      | .headers => updateCI d entry
      | _ => dupdate d entry

/-- stateful `before_call`, given the resolved entries: locations with an empty entry are left alone -/
def beforeCallWith (applied : Overrides) (case : Containers) : Containers := fun l =>
  if (applied l).isEmpty then case l else some (containerUpdate l (case l) (applied l))

def beforeCall (o : Overrides) (op : Op) (case : Containers) : Containers := beforeCallWith (forOperation o op) case

/-- the stateful phase over a sequence of steps (operation, generated / link-derived case data) -/
def statefulRun {K : Type} [DecidableEq K] (R : Resolver K) (o : Overrides) (steps : List (Op × Containers)) :
    List Containers := siteRun R o beforeCallWith [] steps

/-- defect site FC14a: `get_strategy_kwargs` assigns `kwargs["headers"]` from the configured headers *after* the
    overrides (`.asFound`: the `--set-header` entry is replaced; `.repaired`: merged) -/
inductive Variant where
  | asFound | repaired
  deriving DecidableEq, Repr

/-- unit phases `get_strategy_kwargs`, given the resolved entries and `config.network.headers` -/
def strategyKwargsWith (V : Variant) (applied : Overrides) (net : Dict) : Containers := fun l =>
  let ov := if (applied l).isEmpty then none else some (applied l)
  match l with
  | .headers =>
    if net.isEmpty then ov
    else match V with
      | .asFound => some (strategyHeaders net)
      | .repaired => some (dupdate (strategyHeaders net) (applied l))
  | _ => ov

/-- examples phase `merge_explicit`: `{**existing, **value}` per container, `value` where there is no example -/
def examplesMergeWith (kwargs : Containers) (ex : Containers) : Containers := fun l =>
  match kwargs l with
  | none => ex l
  | some v =>
    match ex l with
    | some e => some (dupdate e v)
    | none => some v

/-- coverage phase `add_coverage`: `setattr(case, name, value)` for an absent container, else `container.update(value)` -/
def coverageWith (kwargs : Containers) (case : Containers) : Containers := fun l =>
  match kwargs l with
  | none => case l
  | some v =>
    match case l with
    | none => some v
    | some c => some (match l with | .headers => updateCI c v | _ => dupdate c v)

/-- `get_parameters_value`: an absent/empty explicit value means "generate everything" -/
def explicitMerge (explicit generated : Option Dict) : Option Dict :=
  match explicit with
  | none => generated
  | some e => if e.isEmpty then generated else some (mergeExplicit e generated)

inductive Phase where
  | examples | coverage | fuzzing | stateful
  deriving DecidableEq, Repr

/-- the containers of one request of a phase, given the resolved entries, the configured headers, the data produced
    by the generators / coverage templates / links (`gen`) and, for the examples phase, the schema examples (`ex`) -/
def phaseContainers (V : Variant) (ph : Phase) (net : Dict) (applied : Overrides) (d : Containers × Containers) :
    Containers :=
  match ph with
  | .fuzzing => fun l => explicitMerge (strategyKwargsWith V applied net l) (d.1 l)
  | .examples => fun l => explicitMerge (examplesMergeWith (strategyKwargsWith V applied net) d.2 l) (d.1 l)
  | .coverage => coverageWith (strategyKwargsWith V applied net) d.1
  | .stateful => beforeCallWith applied d.1

/-! ## the transport's extra keyword arguments: the body serializer's result and the provider's `requests` auth object -/

/-- in which order `RequestsTransport.serialize_case` fills `extra` -/
inductive ExtraOrder where
  | serializerThenAuth    -- the tree: `extra = serializer(...)` (or `{}`), then `extra["auth"] = case._auth`
  | authThenSerializer    -- `extra = {"auth": ...}` first; a serializer result then *replaces* `extra`
  deriving DecidableEq, Repr

def authKey : Key := "auth".toList

/-- `ser`: what the serializer returned (`none`: no body / no media type); `auth`: `case._auth` -/
def transportExtra (o : ExtraOrder) (ser : Option Dict) (auth : Option String) : Dict :=
  match o with
  | .serializerThenAuth =>
    let extra := ser.getD []
    match auth with | some a => dset extra authKey a | none => extra
  | .authThenSerializer =>
    let extra : Dict := match auth with | some a => [(authKey, a)] | none => []
    match ser with | some d => d | none => extra

/-! ## `EngineContext.session`: one session shared by concurrent workers

The worker that builds the session runs a small program: assignments of the configured settings (`verify`, `auth`,
`headers`, `cert`, `proxies` — numbered), and the moment the session becomes reachable by the other workers (`publish`:
the `cached_property` stores what the getter returns).  Another worker looks the session up after `t` steps of that
program and sends its request straight away: with a published session it uses that object as it is at that moment,
otherwise it builds a session of its own (the getter is not locked), which it configures completely before using it. -/

inductive SessStep where
  | set (field : Nat)
  | publish
  deriving DecidableEq, Repr

def SessStep.field? : SessStep → Option Nat
  | .set f => some f
  | .publish => none

/-- the settings the shared object carries after `t` steps of the builder -/
def sessionFieldsAt (prog : List SessStep) (t : Nat) : List Nat := (prog.take t).filterMap SessStep.field?

def publishedAt (prog : List SessStep) (t : Nat) : Bool := (prog.take t).contains .publish

/-- the settings on the session the second worker sends its request with -/
def workerSession (cfg : List Nat) (prog : List SessStep) (t : Nat) : List Nat :=
  if publishedAt prog t then sessionFieldsAt prog t else cfg

/-- the tree: configure, then return (the value is cached on return) -/
def publishLast (cfg : List Nat) : List SessStep := cfg.map .set ++ [.publish]

/-- store the new session first, configure it afterwards -/
def publishFirst (cfg : List Nat) : List SessStep := .publish :: cfg.map .set

end SV.Model.C14
