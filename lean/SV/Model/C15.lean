/-
  Model of output sanitization (C15).
  Python anchors (src/schemathesis):
    core/output/sanitization.py        : SanitizationConfig.from_config / extend, sanitize_value, sanitize_url
    transport/prepare.py               : prepare_request(sanitize=…)  (+ what requests' `prepare()` adds afterwards)
    generation/case.py                 : Case.as_curl_command (feeds prepare_request's result to curl.generate)
    cli/commands/run/handlers/cassettes.py : get_command_representation, vcr_writer / har_writer sanitize branches
    cli/commands/run/handlers/junitxml.py, core/failures.py : format_failures embeds the stored code sample verbatim
    cli/commands/run/handlers/output.py : LoadingFinished -> "Loaded specification from <location>", "Base URL:" row
  Text is `List Char`; lower-casing is ASCII (`Char.toLower`) — names with non-ASCII cased letters are outside the model.
  Core Lean only.
-/
import SV.Json

namespace SV.Model.C15

abbrev Str := List Char

/-! ## the key predicate -/

def lower (s : Str) : Str := s.map Char.toLower

/-- Python `m in s` on strings -/
def isInfix (m : Str) : Str → Bool
  | [] => m.isEmpty
  | c :: cs => m.isPrefixOf (c :: cs) || isInfix m cs

/-- `SanitizationConfig` (the two frozensets as lists: only membership is ever used) -/
structure Config where
  keys : List Str
  markers : List Str
  replacement : Str
  deriving Repr, DecidableEq

/-- `lower_key in config.keys_to_sanitize or any(marker in lower_key for marker in config.sensitive_markers)` -/
def isSensitive (cfg : Config) (name : Str) : Bool :=
  cfg.keys.contains (lower name) || cfg.markers.any (fun m => isInfix m (lower name))

/-- `SanitizationConfig.from_config`: `none` = NOT_SET -/
def Config.fromConfig (base : Config) (replacement : Option Str) (keys markers : Option (List Str)) : Config :=
  { keys := match keys with | some ks => ks.map lower | none => base.keys
    markers := match markers with | some ms => ms.map lower | none => base.markers
    replacement := replacement.getD base.replacement }

/-- `SanitizationConfig.extend` -/
def Config.extend (base : Config) (keys markers : Option (List Str)) : Config :=
  { keys := match keys with | some ks => base.keys ++ ks.map lower | none => base.keys
    markers := match markers with | some ms => base.markers ++ ms.map lower | none => base.markers
    replacement := base.replacement }

/-! ## histories of module-level customisation calls (`schemathesis.sanitization.configure` / `extend`) -/

/-- one call; `none` = the argument is not given (NOT_SET) -/
inductive CfgCall where
  | configure (replacement : Option Str) (keys markers : Option (List Str))
  | extend (keys markers : Option (List Str))
  deriving Repr, DecidableEq

/-- `configure` derives the new module-level configuration from the **current** one -/
def CfgCall.apply (cur : Config) : CfgCall → Config
  | .configure r ks ms => cur.fromConfig r ks ms
  | .extend ks ms => cur.extend ks ms

def runCalls (init : Config) (calls : List CfgCall) : Config := calls.foldl CfgCall.apply init

/-- the other reading of "replace": `configure` starts again from a pristine configuration -/
def CfgCall.applyFromPristine (pristine cur : Config) : CfgCall → Config
  | .configure r ks ms => pristine.fromConfig r ks ms
  | .extend ks ms => cur.extend ks ms

def runCallsFromPristine (init : Config) (calls : List CfgCall) : Config :=
  calls.foldl (CfgCall.applyFromPristine init) init

/-- the call gives a new list of exact names (and so drops the names registered before) -/
def CfgCall.resetsKeys : CfgCall → Bool
  | .configure _ (some _) _ => true
  | _ => false

def CfgCall.resetsMarkers : CfgCall → Bool
  | .configure _ _ (some _) => true
  | _ => false

/-- the call registers `k` as an exact name -/
def CfgCall.registersKey (k : Str) : CfgCall → Prop
  | .configure _ (some ks) _ => k ∈ ks
  | .extend (some ks) _ => k ∈ ks
  | _ => False

def CfgCall.registersMarker (m : Str) : CfgCall → Prop
  | .configure _ _ (some ms) => m ∈ ms
  | .extend _ (some ms) => m ∈ ms
  | _ => False

/-! ## sanitize_value -/

/-- what `sanitize_value` walks: `leaf` = anything that is neither a MutableMapping nor a MutableSequence -/
inductive Val where
  | leaf (s : Str)
  | list (xs : List Val)
  | dict (kvs : List (Str × Val))
  deriving Repr, Inhabited

def Val.isList : Val → Bool
  | .list _ => true
  | _ => false

/-- `item[key] = [replacement] if isinstance(item[key], list) else replacement` -/
def redact (cfg : Config) (v : Val) : Val :=
  if v.isList then .list [.leaf cfg.replacement] else .leaf cfg.replacement

mutual
  /-- `sanitize_value` as a function (the in-place mutation returns the mutated item). A redacted entry is visited
      again by the second loop, where it is a leaf or a list of one leaf: nothing more happens to it. -/
  def sanV (cfg : Config) : Val → Val
    | .leaf s => .leaf s
    | .list xs => .list (sanList cfg xs)
    | .dict kvs => .dict (sanKvs cfg kvs)
  def sanList (cfg : Config) : List Val → List Val
    | [] => []
    | x :: xs => sanV cfg x :: sanList cfg xs
  def sanKvs (cfg : Config) : List (Str × Val) → List (Str × Val)
    | [] => []
    | (k, v) :: rest => (k, if isSensitive cfg k then redact cfg v else sanV cfg v) :: sanKvs cfg rest
end

/-! ## sanitize_url  (percent-coding of `parse_qs` / `urlencode` abstracted: the query is its decoded pair list) -/

structure Url where
  scheme : Str
  netloc : Str
  path : Str
  query : List (Str × Str)       -- `parse_qsl(query, keep_blank_values=True)`
  fragment : Str
  deriving Repr, DecidableEq

/-- the text after the last `@` and whether an `@` was seen: `netloc.split("@")`, `len(parts) > 1`, `parts[-1]` -/
def splitAt : Str → Str → Bool → Str × Bool
  | [], acc, seen => (acc.reverse, seen)
  | c :: cs, acc, seen => if c == '@' then splitAt cs [] true else splitAt cs (c :: acc) seen

def sanNetloc (cfg : Config) (netloc : Str) : Str :=
  match splitAt netloc [] false with
  | (host, true) => cfg.replacement ++ '@' :: host
  | (_, false) => netloc

/-- `parse_qs`: group values by key, keys in first-occurrence order -/
def qsInsert (k v : Str) : List (Str × List Str) → List (Str × List Str)
  | [] => [(k, [v])]
  | (k', vs) :: rest => if k == k' then (k', vs ++ [v]) :: rest else (k', vs) :: qsInsert k v rest

def parseQs (pairs : List (Str × Str)) : List (Str × List Str) :=
  pairs.foldl (fun acc (k, v) => qsInsert k v acc) []

/-- `sanitize_value` on a `dict[str, list[str]]` (query dict, recorded headers) -/
def sanMulti (cfg : Config) (d : List (Str × List Str)) : List (Str × List Str) :=
  d.map fun (k, vs) => (k, if isSensitive cfg k then [cfg.replacement] else vs)

/-- `urlencode(query, doseq=True)` -/
def flattenQs (d : List (Str × List Str)) : List (Str × Str) :=
  d.flatMap fun (k, vs) => vs.map fun v => (k, v)

def sanitizeUrl (cfg : Config) (u : Url) : Url :=
  { u with netloc := sanNetloc cfg u.netloc, query := flattenQs (sanMulti cfg (parseQs u.query)) }

/-- `dict[str, list[str]]` seen as a `Val` (ties `sanMulti` to `sanV`) -/
def multiToVal (d : List (Str × List Str)) : Val :=
  .dict (d.map fun (k, vs) => (k, .list (vs.map .leaf)))

/-! ## finding sites -/

inductive Variant where
  | asFound
  | repaired
  deriving Repr, DecidableEq

/-! ## channel 1: the reproduction command (`prepare_request` + requests' `prepare()`) -/

/-- what `RequestsTransport.serialize_case` hands to `requests.Request(**kwargs)` (property-relevant part) -/
structure Kwargs where
  url : Url
  headers : List (Str × Str)              -- CaseInsensitiveDict[str, str], insertion order
  cookies : Option (List (Str × Val))     -- `case.cookies`
  params : Option (List (Str × Val))      -- `case.query`
  auth : Option (Str × Str)               -- `case._auth` (HTTPBasicAuth user, password) set by `auth.set_from_requests`
  deriving Repr

/-- a header value of the prepared request -/
inductive HVal where
  | text (s : Str)
  | cookies (kvs : List (Str × Val))      -- `Cookie: k=v; …` built by `prepare_cookies`
  | basic (user pass : Str)               -- `Authorization: Basic b64(user:pass)` built by `prepare_auth`
  deriving Repr

structure Prepared where
  url : Url
  params : List (Str × Val)               -- appended to the URL's query by `prepare_url`
  headers : List (Str × HVal)
  deriving Repr

def hasHeader (name : Str) (hs : List (Str × HVal)) : Bool := hs.any fun (k, _) => lower k == lower name

/-- `CaseInsensitiveDict.__setitem__` keeps the position of an existing key but takes the new spelling -/
def setHeader (name : Str) (v : HVal) : List (Str × HVal) → List (Str × HVal)
  | [] => [(name, v)]
  | (k, x) :: rest => if lower k == lower name then (name, v) :: rest else (k, x) :: setHeader name v rest

def sanHeaders (cfg : Config) (hs : List (Str × Str)) : List (Str × Str) :=
  hs.map fun (k, v) => (k, if isSensitive cfg k then cfg.replacement else v)

def truthy (d : Option (List (Str × Val))) : Bool :=
  match d with
  | some (_ :: _) => true
  | _ => false

def sanOptDict (cfg : Config) (d : Option (List (Str × Val))) : Option (List (Str × Val)) :=
  if truthy d then d.map (sanKvs cfg) else d

/-- the `if sanitize:` block of `prepare_request` -/
def sanitizeKwargs (cfg : Config) (kw : Kwargs) : Kwargs :=
  { kw with url := sanitizeUrl cfg kw.url, headers := sanHeaders cfg kw.headers,
            cookies := sanOptDict cfg kw.cookies, params := sanOptDict cfg kw.params }

/-- `netloc.rpartition("@")[0]` when there is an `@` -/
def userinfoOf : Str → Option Str
  | [] => none
  | c :: cs =>
    match userinfoOf cs with
    | some u => some (c :: u)
    | none => if c == '@' then some [] else none

/-- `name, sep, value = s.partition(":")` -/
def partitionColon : Str → Str → Str × Option Str
  | [], acc => (acc.reverse, none)
  | c :: cs, acc => if c == ':' then (acc.reverse, some cs) else partitionColon cs (c :: acc)

/-- `requests.utils.get_auth_from_url` + `any(url_auth)`: credentials are taken from the URL only when the userinfo
    has a `:` (a missing password makes `unquote(None)` raise, which yields no auth) -/
def urlAuth (netloc : Str) : Option (Str × Str) :=
  match userinfoOf netloc with
  | none => none
  | some ui =>
    match partitionColon ui [] with
    | (u, some p) => if u.isEmpty && p.isEmpty then none else some (u, p)
    | (_, none) => none

/-- `prepare_cookies`: a `Cookie` header is built from a non-empty jar unless one is present -/
def cookieStage (cookies : Option (List (Str × Val))) (hs : List (Str × HVal)) : List (Str × HVal) :=
  match cookies with
  | some (c :: cs) => if hasHeader "Cookie".toList hs then hs else hs ++ [("Cookie".toList, .cookies (c :: cs))]
  | _ => hs

/-- `prepare_auth`: `Authorization` is overwritten -/
def authStage (auth : Option (Str × Str)) (hs : List (Str × HVal)) : List (Str × HVal) :=
  match auth with
  | some (u, p) => setHeader "Authorization".toList (.basic u p) hs
  | none => hs

def textHeaders (hs : List (Str × Str)) : List (Str × HVal) := hs.map fun (k, v) => (k, .text v)

/-- `requests.Request(**kwargs).prepare()`: headers, then cookies, then auth (auth object, else credentials found in
    the URL). -/
def requestsPrepare (kw : Kwargs) : Prepared :=
  { url := kw.url, params := kw.params.getD [],
    headers := authStage (kw.auth.or (urlAuth kw.url.netloc)) (cookieStage kw.cookies (textHeaders kw.headers)) }

/-- the redaction of one prepared header -/
def redactHeader (cfg : Config) (h : Str × HVal) : Str × HVal :=
  (h.1, if isSensitive cfg h.1 then .text cfg.replacement else h.2)

/-- repaired order: the sanitizer runs on what `prepare()` produced -/
def sanPrepared (cfg : Config) (p : Prepared) : Prepared :=
  { p with headers := p.headers.map (redactHeader cfg) }

def prepareRequest (v : Variant) (cfg : Config) (sanitize : Bool) (kw : Kwargs) : Prepared :=
  if !sanitize then requestsPrepare kw else
  match v with
  | .asFound => requestsPrepare (sanitizeKwargs cfg kw)
  | .repaired => sanPrepared cfg (requestsPrepare (sanitizeKwargs cfg kw))

/-! ## channels 2, 3: VCR cassette and HAR file -/

structure Interaction where
  uri : Url
  reqHeaders : List (Str × List Str)            -- `Request.headers : dict[str, list[str]]`
  respHeaders : Option (List (Str × List Str))  -- `None`: no response recorded
  deriving Repr, DecidableEq

/-- the sanitization-relevant fields of one `http_interactions` item / one HAR entry -/
structure Entry where
  uri : Url
  reqHeaders : List (Str × List Str)
  respHeaders : Option (List (Str × List Str))
  deriving Repr, DecidableEq

def vcrEntry (cfg : Config) (sanitize : Bool) (i : Interaction) : Entry :=
  if sanitize then ⟨sanitizeUrl cfg i.uri, sanMulti cfg i.reqHeaders, i.respHeaders.map (sanMulti cfg)⟩
  else ⟨i.uri, i.reqHeaders, i.respHeaders⟩

structure HarEntry where
  url : Url
  queryString : List (Str × Str)                -- `parse_qsl(urlparse(uri).query)` of the (sanitized) uri
  reqHeaders : List (Str × Str)                 -- `Record(name, values[0])`
  respHeaders : Option (List (Str × Str))
  deriving Repr, DecidableEq

def firstValues (d : List (Str × List Str)) : List (Str × Str) :=
  d.map fun (k, vs) => (k, vs.headD [])

def harEntry (cfg : Config) (sanitize : Bool) (i : Interaction) : HarEntry :=
  let e := vcrEntry cfg sanitize i
  ⟨e.uri, e.uri.query, firstValues e.reqHeaders, e.respHeaders.map firstValues⟩

/-! ## the cassette preamble: `command:` -/

def endsWith (s suffix : Str) : Bool := suffix.reverse.isPrefixOf s.reverse

def joinSp : List Str → Str
  | [] => []
  | [a] => a
  | a :: rest => a ++ ' ' :: joinSp rest

/-- one word of `sys.argv[1:]`; a word containing `://` also carries its `urlsplit` form so that `sanitize_url`
    can be applied to it -/
inductive Arg where
  | word (s : Str)
  | url (raw : Str) (u : Url)
  deriving Repr, DecidableEq

def Arg.raw : Arg → Str
  | .word s => s
  | .url r _ => r

/-- one word of the rendered command -/
inductive ArgOut where
  | word (s : Str)
  | url (u : Url)        -- `sanitize_url(word)`
  deriving Repr, DecidableEq

def Arg.isOpt (opts : List Str) (a : Arg) : Bool := opts.contains a.raw

def authOpts : List Str := ["-a".toList, "--auth".toList]
def headerOpts : List Str := ["-H".toList, "--header".toList]

def strip (s : Str) : Str := ((s.dropWhile (· == ' ')).reverse.dropWhile (· == ' ')).reverse

/-- repaired: a `NAME:VALUE` header argument keeps its name; the value is redacted when the name is sensitive -/
def sanHeaderArg (cfg : Config) (a : Str) : Str :=
  match partitionColon a [] with
  | (name, some _) => if isSensitive cfg (strip name) then name ++ ':' :: ' ' :: cfg.replacement else a
  | (_, none) => a

def dropPrefix? (p : Str) (s : Str) : Option Str :=
  if p.isPrefixOf s then some (s.drop p.length) else none

/-- repaired, the attached spellings `--auth=V`, `--header=V`, `-aV`, `-HV`: (prefix, is it the header form) -/
def attachedForms : List (Str × Bool) :=
  [("--auth=".toList, false), ("--header=".toList, true), ("-a".toList, false), ("-H".toList, true)]

def sanAttached (cfg : Config) (s : Str) : List (Str × Bool) → Option Str
  | [] => none
  | (p, isHeader) :: rest =>
    match dropPrefix? p s with
    | some v => some (p ++ if isHeader then sanHeaderArg cfg v else cfg.replacement)
    | none => sanAttached cfg s rest

/-- repaired: an argument that is not the value of a preceding auth or header option -/
def sanArg0 (cfg : Config) (a : Arg) : ArgOut :=
  match sanAttached cfg a.raw attachedForms with
  | some r => .word r
  | none =>
    match a with
    | .url _ u => .url (sanitizeUrl cfg u)
    | .word s => .word s

/-- repaired: an auth option swallows the next word (redacted), a header option swallows the next word
    (redacted by name), every other word is treated on its own -/
def sanArgs (cfg : Config) : List Arg → List ArgOut
  | [] => []
  | [a] => if a.isOpt authOpts || a.isOpt headerOpts then [.word a.raw] else [sanArg0 cfg a]
  | a :: b :: rest =>
    if a.isOpt authOpts then .word a.raw :: .word cfg.replacement :: sanArgs cfg rest
    else if a.isOpt headerOpts then .word a.raw :: .word (sanHeaderArg cfg b.raw) :: sanArgs cfg rest
    else sanArg0 cfg a :: sanArgs cfg (b :: rest)

def rawArgs (args : List Arg) : List ArgOut := args.map fun a => .word a.raw

inductive Command where
  | unknown                       -- "<unknown entrypoint>"
  | st (args : List ArgOut)       -- "st " + " ".join(args)
  deriving Repr, DecidableEq

/-- `get_command_representation` as called by `vcr_writer` (`sanitize` = the writer's `sanitize_output`) -/
def commandRepr (v : Variant) (cfg : Config) (sanitize : Bool) (argv0 : Str) (args : List Arg) : Command :=
  if !(endsWith argv0 "schemathesis".toList || endsWith argv0 "st".toList) then .unknown
  else match v with
    | .asFound => .st (rawArgs args)
    | .repaired => .st (if sanitize then sanArgs cfg args else rawArgs args)

/-! ## channels 4, 5: JUnit `<failure message>` and the console failure block
    `format_failures(..., curl=group.code_sample, ...)` embeds the code sample that `as_curl_command` produced when the
    failure was recorded; nothing is sanitized (or de-sanitized) afterwards. -/

def failureBlock (codeSample : Prepared) : Prepared := codeSample

/-! ## console: "Loaded specification from <location>" and the "Base URL:" row -/

def consoleIntro (v : Variant) (cfg : Config) (sanitize : Bool) (location baseUrl : Url) : Url × Url :=
  match v with
  | .asFound => (location, baseUrl)
  | .repaired => if sanitize then (sanitizeUrl cfg location, sanitizeUrl cfg baseUrl) else (location, baseUrl)

end SV.Model.C15
