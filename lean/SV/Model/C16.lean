/-
  Model of the report writers (C16).
  Python anchors (src/schemathesis):
    cli/commands/run/handlers/cassettes.py : write_double_quoted, vcr_writer (every interpolation site), har_writer
                                             header look-ups, _extract_cookies
    cli/commands/run/handlers/junitxml.py  : JunitXMLHandler.handle_event
    cli/commands/run/context.py            : Statistic.on_scenario_finished (unique-failure map, per-label groups)
    engine/recorder.py                     : serialize_payload (base64), Request/Response.encoded_body
    core/transport.py                      : Response.__init__ (lower-cased header names), body_size, encoded_body
    cli/commands/run/executor.py           : initialize_handlers (which writers, own queue each), _execute (start / event loop /
                                             shutdown in finally, a handler raising), CassetteWriter.start/handle_event/shutdown,
                                             the `while True: item = queue.get()` loops of vcr_writer / har_writer as
                                             steps of an explicit interleaving; get_command_representation
  Text is modelled on code points (`Str = List Nat`, every element < 0x110000 — lone surrogates included, as in a
  Python `str`).  Core Lean only.
-/
import SV.Json

namespace SV.Model.C16

abbrev Str := List Nat

/-- a string literal as code points -/
def lit (s : String) : Str := s.toList.map Char.toNat

/-! ## `write_double_quoted` -/

/-- one upper-case hex digit (`format(d, "X")`) -/
def hexDigit (d : Nat) : Nat := if d < 10 then 48 + d else 55 + d

/-- `f"{c:02X}"` for `c ≤ 0xFF` -/
def hex2 (c : Nat) : Str := [hexDigit (c / 16 % 16), hexDigit (c % 16)]
/-- `f"{c:04X}"` for `c ≤ 0xFFFF` -/
def hex4 (c : Nat) : Str := [hexDigit (c / 4096 % 16), hexDigit (c / 256 % 16), hexDigit (c / 16 % 16), hexDigit (c % 16)]
/-- `f"{c:08X}"` for `c < 16^8` -/
def hex8 (c : Nat) : Str :=
  [hexDigit (c / 268435456 % 16), hexDigit (c / 16777216 % 16), hexDigit (c / 1048576 % 16), hexDigit (c / 65536 % 16),
   hexDigit (c / 4096 % 16), hexDigit (c / 256 % 16), hexDigit (c / 16 % 16), hexDigit (c % 16)]

/-- `yaml.emitter.Emitter.ESCAPE_REPLACEMENTS` (compared with the live table on every run). -/
def escapeTable : List (Nat × Nat) :=
  [(0, 48), (7, 97), (8, 98), (9, 116), (10, 110), (11, 118), (12, 102), (13, 114), (27, 101), (34, 34), (92, 92),
   (0x85, 78), (0xA0, 95), (0x2028, 76), (0x2029, 80)]

def escRepl (c : Nat) : Option Nat := (escapeTable.find? (fun p => p.1 == c)).map (·.2)

/-- the condition of the `if` in the loop of `write_double_quoted` (for a character, i.e. `ch is not None`):
    `ch in {'"', '\\', U+0085, U+2028, U+2029, U+FEFF} or not (U+0020 <= ch <= U+007E or U+00A0 <= ch <= U+D7FF
    or U+E000 <= ch <= U+FFFD)` -/
def needsEscape (c : Nat) : Bool :=
  c == 34 || c == 92 || c == 0x85 || c == 0x2028 || c == 0x2029 || c == 0xFEFF ||
  !((0x20 ≤ c && c ≤ 0x7E) || (0xA0 ≤ c && c ≤ 0xD7FF) || (0xE000 ≤ c && c ≤ 0xFFFD))

/-- the `data` written for an escaped character -/
def escapeOf (c : Nat) : Str :=
  match escRepl c with
  | some r => [92, r]
  | none =>
    if c ≤ 0xFF then 92 :: 120 :: hex2 c          -- \xNN
    else if c ≤ 0xFFFF then 92 :: 117 :: hex4 c    -- \uNNNN
    else 92 :: 85 :: hex8 c                        -- \UNNNNNNNN

def dqChar (c : Nat) : Str := if needsEscape c then escapeOf c else [c]

/-- what the loop writes between the two quotes.  The Python loop flushes maximal unescaped runs `text[start:end]`
    and then the escape; character by character this is the concatenation below. -/
def dqBody : Str → Str
  | [] => []
  | c :: s => dqChar c ++ dqBody s

/-- `write_double_quoted(stream, text)` for `text` a string -/
def writeDQ (s : Str) : Str := 34 :: (dqBody s ++ [34])

/-- `write_double_quoted(stream, text)` with `text: str | None` -/
def writeDQOpt : Option Str → Str
  | none => lit "null"
  | some s => writeDQ s

/-! ## `json.dumps(str)` (ensure_ascii=True), used for header values and the reason phrase -/

def hexDigitLower (d : Nat) : Nat := if d < 10 then 48 + d else 87 + d
/-- `'\\u{0:04x}'.format(c)` -/
def uEsc (c : Nat) : Str :=
  [92, 117, hexDigitLower (c / 4096 % 16), hexDigitLower (c / 256 % 16), hexDigitLower (c / 16 % 16), hexDigitLower (c % 16)]

def jsonChar (c : Nat) : Str :=
  if c = 34 then [92, 34] else if c = 92 then [92, 92] else if c = 10 then [92, 110] else if c = 13 then [92, 114]
  else if c = 9 then [92, 116] else if c = 12 then [92, 102] else if c = 8 then [92, 98]
  else if 0x20 ≤ c ∧ c ≤ 0x7E then [c]
  else if c < 0x10000 then uEsc c
  else uEsc (0xD800 + (c - 0x10000) / 1024 % 1024) ++ uEsc (0xDC00 + (c - 0x10000) % 1024)

def jsonBody : Str → Str
  | [] => []
  | c :: s => jsonChar c ++ jsonBody s

def jsonDumps (s : Str) : Str := 34 :: (jsonBody s ++ [34])

/-! ## `repr(str)` for ASCII text (the check-message site `{message!r}`) -/

def reprChar (q : Nat) (c : Nat) : Str :=
  if c = q ∨ c = 92 then [92, c]
  else if c = 9 then [92, 116] else if c = 10 then [92, 110] else if c = 13 then [92, 114]
  else if c < 0x20 ∨ c = 0x7F then 92 :: 120 :: [hexDigitLower (c / 16 % 16), hexDigitLower (c % 16)]
  else [c]

def reprBody (q : Nat) : Str → Str
  | [] => []
  | c :: s => reprChar q c ++ reprBody q s

/-- CPython `unicode_repr`: single quotes unless the text has a `'` and no `"`. Exact for code points < 0x80. -/
def pyRepr (s : Str) : Str :=
  let q := if s.contains 39 && !s.contains 34 then 34 else 39
  q :: (reprBody q s ++ [q])

/-! ## base64 (`serialize_payload`) -/

def b64Alphabet : Str := lit "ABCDEFGHIJKLMNOPQRSTUVWXYZabcdefghijklmnopqrstuvwxyz0123456789+/"

def b64Char (i : Nat) : Nat :=
  if i < 26 then 65 + i else if i < 52 then 71 + i else if i < 62 then i - 4 else if i = 62 then 43 else 47

/-- `base64.b64encode(bytes).decode()` -/
def b64encode : List Nat → Str
  | [] => []
  | [a] => [b64Char (a / 4), b64Char (a % 4 * 16), 61, 61]
  | [a, b] => [b64Char (a / 4), b64Char (a % 4 * 16 + b / 16), b64Char (b % 16 * 4), 61]
  | a :: b :: c :: rest =>
    b64Char (a / 4) :: b64Char (a % 4 * 16 + b / 16) :: b64Char (b % 16 * 4 + c / 64) :: b64Char (c % 64) :: b64encode rest

/-! ## `vcr_writer`: one interaction as text -/

inductive Variant where
  | asFound | repaired
  deriving Repr, DecidableEq

structure CheckRec where
  name : Str
  failed : Bool                 -- check.status == Status.FAILURE
  title : Option Str            -- check.failure_info.failure.title
  deriving Repr

inductive PhaseData where
  | other                                                             -- explicit / generate phases: `{}`
  | coverage (description : Str) (location parameter parameterLocation : Option Str)
  deriving Repr

structure Meta where
  time : Str                    -- str(meta.generation.time)
  mode : Str                    -- meta.generation.mode.value
  components : List (Str × Str) -- (kind.value, info.mode.value)
  phaseName : Str
  data : PhaseData
  deriving Repr

structure Resp where
  code : Str                    -- str(status_code)
  message : Str
  elapsed : Str                 -- str(elapsed)
  headers : List (Str × List Str)
  content : List Nat            -- bytes
  decoded : Str                 -- content.decode(<effective codec>, "replace")   (CPython codec, trusted)
  encoding : Option Str
  codecKnown : Bool             -- Python knows the declared codec (`codecs.lookup` succeeds); true when none declared
  httpVersion : Str
  deriving Repr

structure Entry where
  id : Str
  cmeta : Option Meta
  recordedAt : Str
  checks : Option (List CheckRec)   -- `none`: case id not in recorder.checks
  uri : Str
  method : Str
  headers : List (Str × List Str)
  body : Option (List Nat)          -- request.body (bytes)
  bodyDecoded : Str                 -- body.decode("utf8", "replace")
  response : Option Resp
  deriving Repr

/-- the status scalar of an interaction -/
def statusOf (e : Entry) : Str :=
  match e.response with
  | none => lit "ERROR"
  | some _ =>
    match e.checks with
    | none => lit "SKIP"
    | some cs => if cs.any (·.failed) then lit "FAILURE" else lit "SUCCESS"

/-- a string interpolated between single quotes (`'{x}'`); the repaired writer routes it through
    `write_double_quoted` -/
def quoteS (v : Variant) (s : Str) : Str :=
  match v with
  | .asFound => 39 :: (s ++ [39])
  | .repaired => writeDQ s

/-- header name written raw between double quotes (`"{name}"`) -/
def quoteK (v : Variant) (s : Str) : Str :=
  match v with
  | .asFound => 34 :: (s ++ [34])
  | .repaired => writeDQ s

/-- `format_check_message` -/
def checkMessage (v : Variant) : Option Str → Str
  | none => [126]
  | some t => match v with
    | .asFound => pyRepr t
    | .repaired => writeDQ t

def spaces (n : Nat) : Str := List.replicate n 32

/-- the text after `key:` and how the writer quotes it -/
inductive VText where
  | none                          -- nothing (a nested block follows)
  | trailing                      -- `key: ` (nested block follows; the template has a trailing space)
  | plain (s : Str)               -- `{x}` interpolated bare
  | sq (s : Str)                  -- `'{x}'`
  | sqJunk (s junk : Str)         -- `'{x}'` immediately followed by another write on the same line
  | dq (s : Option Str)           -- write_double_quoted
  | json (s : Str)                -- json.dumps
  | msg (t : Option Str)          -- format_check_message
  deriving Repr

/-- one line of the cassette: every `\n` of the writer's templates separates two lines -/
inductive Line where
  | kv (indent : Nat) (dash : Bool) (key : Str) (val : VText)
  | qkey (indent : Nat) (name : Str)           -- `"{name}":`
  | item (indent : Nat) (val : Str)            -- `- {json.dumps(v)}`
  | blank
  deriving Repr

def VText.text (v : Variant) : VText → Str
  | .none => []
  | .trailing => [32]
  | .plain s => 32 :: s
  | .sq s => 32 :: quoteS v s
  | .sqJunk s junk => 32 :: (quoteS v s ++ junk)
  | .dq o => 32 :: writeDQOpt o
  | .json s => 32 :: jsonDumps s
  | .msg t => 32 :: checkMessage v t

def Line.text (v : Variant) : Line → Str
  | .kv n dash key val => spaces n ++ ((if dash then [45, 32] else []) ++ (key ++ 58 :: val.text v))
  | .qkey n name => spaces n ++ (quoteK v name ++ [58])
  | .item n x => spaces n ++ (45 :: 32 :: jsonDumps x)
  | .blank => []

def headerLines (hs : List (Str × List Str)) : List Line :=
  hs.flatMap fun (name, values) => Line.qkey 6 name :: values.map (Line.item 6)

def checkLines (cs : List CheckRec) : List Line :=
  cs.flatMap fun c =>
    [.kv 4 true (lit "name") (.sq c.name),
     .kv 6 false (lit "status") (.sq (if c.failed then lit "FAILURE" else lit "SUCCESS")),
     .kv 6 false (lit "message") (.msg c.title)]

def metaLines (m : Meta) : List Line :=
  [.kv 2 false (lit "generation") .none, .kv 4 false (lit "time") (.plain m.time), .kv 4 false (lit "mode") (.plain m.mode),
   .kv 2 false (lit "components") .none] ++
  (m.components.flatMap fun (k, mode) => [Line.kv 4 false k .none, .kv 6 false (lit "mode") (.sq mode)]) ++
  [.kv 2 false (lit "phase") .none, .kv 4 false (lit "name") (.sq m.phaseName)] ++
  (match m.data with
   | .other => [.kv 4 false (lit "data") (.plain (lit "{}"))]
   | .coverage d l p pl =>
     [.kv 4 false (lit "data") .trailing, .kv 6 false (lit "description") (.dq (some d)), .kv 6 false (lit "location") (.dq l),
      .kv 6 false (lit "parameter") (.dq p), .kv 6 false (lit "parameter_location") (.dq pl)])

/-- request body block (`format_request_body`) -/
def reqBodyLines (preserve : Bool) (e : Entry) : List Line :=
  match e.body with
  | none => []
  | some b =>
    if preserve then [.kv 4 false (lit "body") .none, .kv 6 false (lit "encoding") (.sq (lit "utf-8")),
                      .kv 6 false (lit "base64_string") (.sq (b64encode b))]
    else [.kv 4 false (lit "body") .none, .kv 6 false (lit "encoding") (.sq (lit "utf-8")),
          .kv 6 false (lit "string") (.dq (some e.bodyDecoded))]

/-- response body block (`format_response_body`); with preserve-bytes `encoded_body` is `None` for empty content and
    a missing encoding is interpolated as `str(None)` -/
def respBodyLines (preserve : Bool) (r : Resp) : List Line :=
  if preserve then
    if r.content.isEmpty then []
    else [.kv 4 false (lit "body") .none, .kv 6 false (lit "encoding") (.sq (r.encoding.getD (lit "None"))),
          .kv 6 false (lit "base64_string") (.sq (b64encode r.content))]
  else [.kv 4 false (lit "body") .none,
        -- as found `decode` raises for an unknown codec (`writerRaises`); the repaired writer falls back to utf8
        .kv 6 false (lit "encoding") (.sq (if r.codecKnown then r.encoding.getD (lit "utf8") else lit "utf8")),
        .kv 6 false (lit "string") (.dq (some r.decoded))]

/-- `response.content.decode(encoding, "replace")` raises `LookupError`: the writer thread dies -/
def writerRaises (v : Variant) (preserve : Bool) (e : Entry) : Bool :=
  match v, e.response with
  | .asFound, some r => !preserve && !r.codecKnown
  | _, _ => false

def orBlank (ls : List Line) : List Line := if ls.isEmpty then [.blank] else ls

def responseLines (preserve : Bool) : Option Resp → List Line
  | none => [.kv 2 false (lit "response") (.plain (lit "null"))]
  | some r =>
    [.kv 2 false (lit "response") .none, .kv 4 false (lit "status") .none, .kv 6 false (lit "code") (.sq r.code),
     .kv 6 false (lit "message") (.json r.message), .kv 4 false (lit "elapsed") (.sq r.elapsed),
     .kv 4 false (lit "headers") .none] ++
    -- `{format_headers(...)}\n`: an empty line when there is no header; the next write starts with "\n" when there is
    -- no body block
    orBlank (headerLines r.headers) ++ orBlank (respBodyLines preserve r) ++
    [.kv 4 false (lit "http_version") (.sq r.httpVersion)]

/-- the lines of one interaction -/
def entryLinesS (v : Variant) (preserve : Bool) (e : Entry) : List Line :=
  [.kv 0 true (lit "id") (.sq e.id)] ++
  (match e.cmeta with
   | some m => Line.kv 2 false (lit "status") (.sq (statusOf e)) :: metaLines m
   | none => match v with
     | .asFound => [.kv 2 false (lit "status") (.sqJunk (statusOf e) (lit "null"))]   -- `stream.write("null")`
     | .repaired => [.kv 2 false (lit "status") (.sq (statusOf e))]) ++
  [.kv 2 false (lit "recorded_at") (.sq e.recordedAt)] ++
  (match e.checks with
   | none => [.kv 2 false (lit "checks") (.plain (lit "[]"))]
   | some [] => [.kv 2 false (lit "checks") (.plain (lit "[]"))]
   | some cs => Line.kv 2 false (lit "checks") .none :: checkLines cs) ++
  [.kv 2 false (lit "request") .none, .kv 4 false (lit "uri") (.sq e.uri), .kv 4 false (lit "method") (.sq e.method),
   .kv 4 false (lit "headers") .none] ++
  orBlank (headerLines e.headers) ++ reqBodyLines preserve e ++ responseLines preserve e.response

def entryLines (v : Variant) (preserve : Bool) (e : Entry) : List Str := (entryLinesS v preserve e).map (Line.text v)

def joinLines : List Str → Str
  | [] => []
  | l :: ls => 10 :: (l ++ joinLines ls)

/-- what `vcr_writer` appends to the stream for one interaction -/
def renderEntry (v : Variant) (preserve : Bool) (e : Entry) : Str := joinLines (entryLines v preserve e)

/-- the preamble written for `Initialize` -/
def preambleLinesS (command version seed : Str) : List Line :=
  [.kv 0 false (lit "command") (.sq command), .kv 0 false (lit "recorded_with") (.sq (lit "Schemathesis " ++ version)),
   .kv 0 false (lit "seed") (.plain seed), .kv 0 false (lit "http_interactions") .none]

def preambleLines (v : Variant) (command version seed : Str) : List Str :=
  (preambleLinesS command version seed).map (Line.text v)

/-- The queue protocol of `CassetteWriter`: `Initialize`, then one `Process` per delivered `ScenarioFinished` (FIFO),
    then `Finalize`.  The file is the preamble followed by every interaction of every recorder, in order. -/
def renderCassette (v : Variant) (preserve : Bool) (command version seed : Str) (recorders : List (List Entry)) : Str :=
  (joinLines (preambleLines v command version seed)).drop 1 ++
  (recorders.flatMap fun r => r.flatMap (renderEntry v preserve))

/-! ## `har_writer`: header look-ups -/

/-- `str.lower()` on a latin-1 character (header names arrive as latin-1) -/
def lowerCp (c : Nat) : Nat :=
  if 65 ≤ c ∧ c ≤ 90 then c + 32 else if 0xC0 ≤ c ∧ c ≤ 0xDE ∧ c ≠ 0xD7 then c + 32 else c

def lower (s : Str) : Str := s.map lowerCp

def dictGet {α : Type} (k : Str) : List (Str × α) → Option α
  | [] => none
  | (k', v) :: rest => if k = k' then some v else dictGet k rest

def dictSet {α : Type} (k : Str) (v : α) : List (Str × α) → List (Str × α)
  | [] => [(k, v)]
  | (k', v') :: rest => if k = k' then (k, v) :: rest else (k', v') :: dictSet k v rest

/-- `Response.__init__`: `{key.lower(): value for key, value in headers.items()}` -/
def lowerHeaders : List (Str × List Str) → List (Str × List Str) → List (Str × List Str)
  | [], acc => acc
  | (k, v) :: rest, acc => lowerHeaders rest (dictSet (lower k) v acc)

/-- the name `har_writer` looks a response header up by -/
def harKey (v : Variant) (name : Str) : Str :=
  match v with
  | .asFound => name
  | .repaired => lower name

/-- `headers.get(name, [""])[0]` on the stored (lower-cased) response headers -/
def harFirst (v : Variant) (name : Str) (stored : List (Str × List Str)) : Str :=
  match dictGet (harKey v name) stored with
  | some (x :: _) => x
  | _ => []

/-! ## `Statistic.on_scenario_finished` and `JunitXMLHandler.handle_event`

Labels, case ids and failures are abstract identifiers (`Nat`): two failures carry the same number iff they are equal
under `Failure.__eq__` (class, operation, unique key). -/

def ndGet {α : Type} (k : Nat) : List (Nat × α) → Option α
  | [] => none
  | (k', v) :: rest => if k = k' then some v else ndGet k rest

/-- `d[k] = v` on an insertion-ordered dict -/
def ndSet {α : Type} (k : Nat) (v : α) : List (Nat × α) → List (Nat × α)
  | [] => [(k, v)]
  | (k', v') :: rest => if k = k' then (k, v) :: rest else (k', v') :: ndSet k v rest

structure CaseRec where
  id : Nat
  checks : List (Option Nat)        -- per recorded check: `none` success, `some f` failure `f`
  deriving Repr

structure Recorder where
  label : Nat
  cases : List CaseRec              -- `recorder.cases` in insertion order
  deriving Repr

/-- `GroupedFailures` (case id, the failures first seen in that case) -/
abbrev Group := Nat × List Nat

structure Stat where
  failures : List (Nat × List (Nat × Group))   -- label ↦ (case id ↦ group)
  unique : List (Nat × Nat)                    -- failure ↦ case id where it was first seen
  deriving Repr

def Stat.init : Stat := ⟨[], []⟩

/-- `for check in checks:` — returns the updated `unique_failures_map` and `current_case_failures` -/
def checkLoop (caseId : Nat) : List (Option Nat) → List (Nat × Nat) → List Nat → List (Nat × Nat) × List Nat
  | [], u, cur => (u, cur)
  | none :: cs, u, cur => checkLoop caseId cs u cur
  | some f :: cs, u, cur =>
    match ndGet f u with
    | some _ => checkLoop caseId cs u cur
    | none => checkLoop caseId cs (ndSet f caseId u) (cur ++ [f])

/-- `for case_id, case in recorder.cases.items():` -/
def caseLoop : List CaseRec → List (Nat × Nat) → List (Nat × Group) → List (Nat × Nat) × List (Nat × Group)
  | [], u, fs => (u, fs)
  | c :: cs, u, fs =>
    if c.checks.isEmpty then caseLoop cs u fs
    else
      let r := checkLoop c.id c.checks u []
      caseLoop cs r.1 (if r.2.isEmpty then fs else ndSet c.id (c.id, r.2) fs)

/-- `Statistic.on_scenario_finished` restricted to the failure bookkeeping (`sorted(set(..))` only reorders a list
    that has no duplicates). -/
def onScenarioFinished (st : Stat) (r : Recorder) : Stat :=
  let fs0 := (ndGet r.label st.failures).getD []
  let res := caseLoop r.cases st.unique fs0
  ⟨if res.2.isEmpty then st.failures else ndSet r.label res.2 st.failures, res.1⟩

inductive Status where
  | success | failure | error | interrupted | skip
  deriving Repr, DecidableEq

inductive Event where
  | scenarioFinished (status : Status) (hasSkipReason : Bool) (recorder : Recorder)
  | nonFatalError (label : Nat)
  | engineFinished
  | other
  deriving Repr

/-- a sub-element of a JUnit test case -/
inductive Sub where
  | failure (groups : List Group)
  | skipped
  | error
  deriving Repr

structure JUnit where
  testCases : List (Nat × List Sub)
  written : Option (List (Nat × List Sub))      -- the suite handed to `to_xml_report_file`
  deriving Repr

def JUnit.init : JUnit := ⟨[], none⟩

/-- `get_or_create_test_case` -/
def getOrCreate (label : Nat) (tcs : List (Nat × List Sub)) : List (Nat × List Sub) :=
  match ndGet label tcs with
  | some _ => tcs
  | none => tcs ++ [(label, [])]

def addSub (label : Nat) (sub : Sub) (tcs : List (Nat × List Sub)) : List (Nat × List Sub) :=
  ndSet label ((ndGet label tcs).getD [] ++ [sub]) tcs

/-- `JunitXMLHandler.handle_event`; `none` = the handler raised (`KeyError`) -/
def junitStep (v : Variant) (st : Stat) (j : JUnit) : Event → Option JUnit
  | .scenarioFinished status hasSkip r =>
    let tcs := getOrCreate r.label j.testCases
    match status with
    | .failure =>
      match ndGet r.label st.failures with
      | some groups => some { j with testCases := addSub r.label (.failure (groups.map (·.2))) tcs }
      | none =>
        match v with
        | .asFound => none                                   -- `ctx.statistic.failures[label]`
        | .repaired => some { j with testCases := addSub r.label (.failure []) tcs }
    | .skip => some { j with testCases := if hasSkip then addSub r.label .skipped tcs else tcs }
    | _ => some { j with testCases := tcs }
  | .nonFatalError label => some { j with testCases := addSub label .error (getOrCreate label j.testCases) }
  | .engineFinished => some { j with written := some j.testCases }
  | .other => some j

/-- `ExecutionContext.on_event` -/
def ctxStep (st : Stat) : Event → Stat
  | .scenarioFinished _ _ r => onScenarioFinished st r
  | _ => st

/-- `_execute`'s loop: `ctx.on_event(event)` and then the handler; `none` as soon as the handler raises -/
def runEvents (v : Variant) : Stat → JUnit → List Event → Option (Stat × JUnit)
  | st, j, [] => some (st, j)
  | st, j, ev :: rest =>
    let st' := ctxStep st ev
    match junitStep v st' j ev with
    | none => none
    | some j' => runEvents v st' j' rest

/-! ## `get_command_representation` -/

/-- `sys.argv[0].endswith(("schemathesis", "st"))`, `"st " + " ".join(sys.argv[1:])` -/
def joinSp : List Str → Str
  | [] => []
  | [a] => a
  | a :: rest => a ++ 32 :: joinSp rest

def commandRepr : List Str → Str
  | [] => lit "<unknown entrypoint>"          -- (an empty argv does not occur; `sys.argv[0]` would raise)
  | a0 :: args =>
    if (lit "schemathesis").isSuffixOf a0 || (lit "st").isSuffixOf a0 then lit "st " ++ joinSp args
    else lit "<unknown entrypoint>"

/-! ## `_execute` with several report handlers: queues, writer threads, schedules

`initialize_handlers` builds one `CassetteWriter` per enabled cassette format (VCR before HAR); every writer owns a
`Queue` object (dataclass field) and a worker thread running `vcr_writer` / `har_writer` on that queue.  The main
thread (`_execute`) only ever `put`s: `Initialize` from `start`, one `Process(recorder)` per `ScenarioFinished` from
`handle_event`, `Finalize` from `shutdown` (in `finally`, i.e. also when a handler raised).  Worker threads `get`.
Everything else is interleaving, which the model leaves to an explicit schedule. -/

inductive Fmt where
  | vcr | har
  deriving Repr, DecidableEq

/-- a queue message; `process` carries the interaction ids of the recorder, in `recorder.interactions` order -/
inductive Msg where
  | initialize (seed : Option Nat)
  | process (ids : List Nat)
  | finalize
  deriving Repr, DecidableEq

/-- what a writer appends to its file for one message -/
inductive Chunk where
  | preamble (seed : Option Nat)         -- `command: … recorded_with: … seed: … http_interactions:`
  | entry (id : Nat)                     -- one interaction (`renderEntry` / `har.add_entry`)
  deriving Repr, DecidableEq

structure WState where
  out : List Chunk
  done : Bool                            -- the writer function returned (file closed)
  deriving Repr, DecidableEq

def WState.init : WState := ⟨[], false⟩

def Msg.isFin : Msg → Bool
  | .finalize => true
  | _ => false

/-- the body of the `while True:` loop of `vcr_writer` / `har_writer` (`har_writer` ignores `Initialize`) -/
def chunksOf : Fmt → Msg → List Chunk
  | .vcr, .initialize s => [.preamble s]
  | .har, .initialize _ => []
  | _, .process ids => ids.map .entry
  | _, .finalize => []

def consume (f : Fmt) (w : WState) (m : Msg) : WState :=
  if w.done then w else ⟨w.out ++ chunksOf f m, m.isFin⟩

/-- one `CassetteWriter`: its format and the identity of the `Queue` object its field holds (the worker thread is
    started with the same object) -/
structure HCfg where
  fmt : Fmt
  queue : Nat
  deriving Repr, DecidableEq

structure Sys where
  queues : Nat → List Msg                -- the heap of `Queue` objects (FIFO)
  ws : Nat → WState                      -- writer threads, by handler index
  pc : List (Nat × Msg)                  -- what the main thread still has to `put`: (handler index, message)

def Sys.init (pc : List (Nat × Msg)) : Sys := ⟨fun _ => [], fun _ => WState.init, pc⟩

def upd {α : Type} (f : Nat → α) (k : Nat) (v : α) : Nat → α := fun j => if j = k then v else f j

/-- the main thread performs its next `self.queue.put(...)` -/
def stepMain (cfg : Nat → HCfg) (s : Sys) : Sys :=
  match s.pc with
  | [] => s
  | (i, m) :: rest => ⟨upd s.queues (cfg i).queue (s.queues (cfg i).queue ++ [m]), s.ws, rest⟩

/-- writer thread `i` performs one `queue.get()` + loop body; blocked (no change) on an empty queue -/
def stepWorker (cfg : Nat → HCfg) (n i : Nat) (s : Sys) : Sys :=
  if i < n ∧ (s.ws i).done = false then
    match s.queues (cfg i).queue with
    | [] => s
    | m :: rest => ⟨upd s.queues (cfg i).queue rest, upd s.ws i (consume (cfg i).fmt (s.ws i) m), s.pc⟩
  else s

inductive Act where
  | main
  | work (i : Nat)
  deriving Repr, DecidableEq

def step (cfg : Nat → HCfg) (n : Nat) (s : Sys) : Act → Sys
  | .main => stepMain cfg s
  | .work i => stepWorker cfg n i s

/-- an interleaving of the main thread and the writer threads -/
def run (cfg : Nat → HCfg) (n : Nat) (sched : List Act) (s : Sys) : Sys := sched.foldl (step cfg n) s

/-- an engine event as the cassette writers see it: `some ids` = `ScenarioFinished` whose recorder holds these
    interactions, `none` = any other event -/
abbrev Ev := Option (List Nat)

def putAll (n : Nat) (m : Msg) : List (Nat × Msg) := (List.range n).map fun i => (i, m)

def eventPuts (n : Nat) : Ev → List (Nat × Msg)
  | none => []
  | some ids => putAll n (.process ids)

/-- `_execute` for `n` cassette writers: `start` for every handler, the event loop, `shutdown` in `finally`.
    `crash = some (k, p)`: a handler placed after the first `p` cassette writers raises while handling event `k`
    (the loop stops there; `p = 0` for `JunitXMLHandler`, `p = n` for custom handlers and the console). -/
def mainProgram (n : Nat) (seed : Option Nat) (evs : List Ev) (crash : Option (Nat × Nat)) : List (Nat × Msg) :=
  putAll n (.initialize seed) ++
  ((match crash with
    | none => evs.flatMap (eventPuts n)
    | some (k, p) => (evs.take k).flatMap (eventPuts n) ++
        (match evs[k]? with
         | some e => eventPuts (min p n) e
         | none => [])) ++
   putAll n .finalize)

/-- `initialize_handlers`: which cassette writers exist, in order -/
inductive Report where
  | junit | vcr | har
  deriving Repr, DecidableEq

def initCassettes (formats : List Report) : List Fmt :=
  (if formats.contains .vcr then [Fmt.vcr] else []) ++ (if formats.contains .har then [Fmt.har] else [])

/-- `queue: Queue = field(default_factory=Queue)`: the `i`-th writer gets a queue object of its own -/
def cfgOf (fs : List Fmt) : Nat → HCfg := fun i => ⟨fs.getD i .vcr, i⟩

end SV.Model.C16
