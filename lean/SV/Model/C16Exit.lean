/-
  C16, the end of the run: `shutdown`'s join, `_execute` leaving, click closing the report files it opened, the
  interpreter waiting for the (non-daemon) writer threads.

  Anchors:
    cassettes.py  CassetteWriter.shutdown / _stop_worker   `self.queue.put(Finalize()); self.worker.join(WRITER_WORKER_JOIN_TIMEOUT)`
    executor.py   _execute                                  `finally: shutdown()` then `sys.exit(ctx.exit_code)` (or the exception)
    run/__init__  --report-{vcr,har}-path                   `type=click.File("w", ...)`: a lazy file, click registers
                                                            `close_intelligently` on the command's context (runs when the
                                                            command function is left, also through SystemExit)
    reports.py    ReportConfig.get_path                     `--report=vcr` without a path: a `LazyFile` nobody but the writer closes
    threading     the writer threads are not daemons: the interpreter joins them (without time-out) before it exits

  The layer sits on top of `SV.Model.C16.Sys` (`run`): the base system changes only through base steps, so everything
  proved about `run` carries over.  A writer that writes to a closed file gets `ValueError` and dies; its message stays
  accounted for in the queue (nobody else reads that queue, so whether the dead thread had popped it is unobservable).

  Joins are modelled after all the puts (`pc = []`) although `shutdown` alternates `put(Finalize)` / `join` per handler:
  a join has no effect but to let the main thread go on, and its guard ("the thread has terminated") is monotone, so
  every real execution is also an execution here with the joins moved right past the remaining puts.
-/
import SV.Model.C16

namespace SV.Model.C16

/-- who opened the `LazyFile` a cassette writer was given -/
inductive Owner where
  | option      -- `--report-vcr-path` / `--report-har-path`: click closes it when the command's context is closed
  | reportDir   -- `--report=...` (+ `--report-dir`): `ReportConfig.get_path`; only the writer itself closes it
  deriving Repr, DecidableEq

/-- does the loop body for this message call `write` on the stream?  (`vcr_writer`: `Finalize` only does
    `path.close()`, a no-op on a closed file; `har_writer`: `Initialize` is ignored, `Finalize` leaves the
    `with harfile.open(...)` block, which writes the closing brackets.) -/
def writesTo : Fmt → Msg → Bool
  | .vcr, .initialize _ => true
  | .har, .initialize _ => false
  | _, .process ids => !ids.isEmpty
  | .vcr, .finalize => false
  | .har, .finalize => true

/-- the message writer `i` would take next makes it write -/
def headWrites (cfg : Nat → HCfg) (i : Nat) (s : Sys) : Bool :=
  match s.queues (cfg i).queue with
  | [] => false
  | m :: _ => writesTo (cfg i).fmt m

/-- the process: the threads of `Sys` + where the main thread is after its last `put` + the state of the files -/
structure PSys where
  sys : Sys
  joined : Nat               -- `_stop_worker` calls that have returned (handlers are shut down in list order)
  exited : Bool              -- `_execute` was left (SystemExit / exception) and click closed the context
  closed : Nat → Bool        -- the file of writer `i` was closed by the main thread while the writer was still running
  torn : Nat → Bool          -- … in the middle of a loop body: the file ends with a fragment of that body's output
  dead : Nat → Bool          -- writer thread `i` died with `ValueError` (write to a closed file)

def PSys.init (pc : List (Nat × Msg)) : PSys :=
  ⟨Sys.init pc, 0, false, fun _ => false, fun _ => false, fun _ => false⟩

inductive PAct where
  | base (a : Act)           -- a `put` of the main thread / one `get` + loop body of a writer, as in `run`
  | join (waited : Bool)     -- the next `self.worker.join(...)` returns; `waited = false`: because of the time-out
  | exit (mid : List Nat)    -- `_execute` is left, click closes its files; the writers in `mid` are inside a loop body
  deriving Repr, DecidableEq

/-- writer `i`'s next step, now that its file may have been closed under it -/
def pWork (cfg : Nat → HCfg) (n i : Nat) (p : PSys) : PSys :=
  if p.dead i = true then p
  else if p.closed i = true ∧ (p.sys.ws i).done = false ∧ headWrites cfg i p.sys = true then
    { p with dead := upd p.dead i true }
  else { p with sys := stepWorker cfg n i p.sys }

/-- `self.worker.join(timeout)` of the next handler returns.  `.asFound`: also by time-out (1 s), whatever the
    writer is doing; `.repaired`: `join()` - only when the thread has terminated. -/
def pJoin (v : Variant) (n : Nat) (waited : Bool) (p : PSys) : PSys :=
  if p.sys.pc = [] ∧ p.joined < n ∧ p.exited = false ∧
      (((p.sys.ws p.joined).done = true ∨ p.dead p.joined = true) ∨ (v = .asFound ∧ waited = false)) then
    { p with joined := p.joined + 1 }
  else p

/-- file `i` is closed by click under a writer that has not returned -/
def hitBy (owner : Nat → Owner) (n : Nat) (p : PSys) (i : Nat) : Bool :=
  decide (i < n) && (owner i == .option) && !(p.sys.ws i).done && !p.dead i

/-- `shutdown()` is over, `_execute` is left: click closes the files that came from `--report-*-path` options.  A
    writer caught in the middle of a loop body (`mid`) leaves a fragment and dies at its next `write`. -/
def pExit (cfg : Nat → HCfg) (owner : Nat → Owner) (n : Nat) (mid : List Nat) (p : PSys) : PSys :=
  if p.sys.pc = [] ∧ p.joined = n ∧ p.exited = false then
    { p with
      exited := true
      closed := fun i => p.closed i || hitBy owner n p i
      torn := fun i => p.torn i || (hitBy owner n p i && mid.contains i && headWrites cfg i p.sys)
      dead := fun i => p.dead i || (hitBy owner n p i && mid.contains i && headWrites cfg i p.sys) }
  else p

def pstep (v : Variant) (cfg : Nat → HCfg) (owner : Nat → Owner) (n : Nat) (p : PSys) : PAct → PSys
  | .base .main => { p with sys := stepMain cfg p.sys }
  | .base (.work i) => pWork cfg n i p
  | .join w => pJoin v n w p
  | .exit mid => pExit cfg owner n mid p

def prun (v : Variant) (cfg : Nat → HCfg) (owner : Nat → Owner) (n : Nat) (sched : List PAct) (p : PSys) : PSys :=
  sched.foldl (pstep v cfg owner n) p

/-- the process is over: `_execute` was left and every writer thread has returned or died (the interpreter waits for
    non-daemon threads) -/
def Terminated (n : Nat) (p : PSys) : Prop :=
  p.exited = true ∧ ∀ i, i < n → (p.sys.ws i).done = true ∨ p.dead i = true

/-- what is in report file `i` -/
structure Disk where
  chunks : List Chunk        -- the complete chunks, in file order
  torn : Bool                -- followed by a fragment of an exchange
  closedDoc : Bool           -- HAR: the closing `]}}` was written (a VCR cassette has no terminator: always true)
  deriving Repr, DecidableEq

def diskOf (cfg : Nat → HCfg) (p : PSys) (i : Nat) : Disk :=
  ⟨(p.sys.ws i).out, p.torn i, match (cfg i).fmt with | .vcr => true | .har => (p.sys.ws i).done⟩

/-- which files `initialize_handlers` hands out: the option's file if `--report-<fmt>-path` was given -/
def ownerOf (customPath : Fmt → Bool) (fs : List Fmt) : Nat → Owner :=
  fun i => if customPath (fs.getD i .vcr) then .option else .reportDir

end SV.Model.C16
