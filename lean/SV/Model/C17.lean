/-
  Model of the explicit-examples pipeline (C17).
  Python anchors (src/schemathesis):
    specs/openapi/examples.py : produce_combinations, _produce_parameter_combinations (cycle/islice round-robin),
                                _expand_subschemas (incl. the allOf merge), extract_top_level, extract_inner_examples,
                                extract_from_schemas / extract_from_schema, get_strategies_from_examples ({**parameters, **kwargs})
    specs/openapi/_hypothesis.py : get_parameters_value (fill-in of the parts without example)
    generation/hypothesis/builder.py : add_examples (exception arm, invalid-header drop)
    engine/phases/unit/_executor.py  : run_test (marks -> ERROR, no example -> SKIP)
  Example values, definitions and schemas are raw `SV.Json` exactly as the Python code sees them (objects are
  association lists in dict insertion order).  Not modelled (inputs of the model, computed by the real code):
  `find_in_responses/find_matching_in_responses` (`respValues`), `as_json_schema` (`jsonSchema`), the unresolved
  `examples` mapping, `_generate_single_example` (oracle `gen`), header validity (`find_invalid_headers`).
  Core Lean only.
-/
import SV.Json

namespace SV.Model.C17
open SV

/-! ## `next(islice(cycle(xs), idx, None))` -/

/-- walk `n` steps through `rem`, restarting from `all` when exhausted (itertools.cycle), then take the next item.
    `none` is Python's `StopIteration` (only for an empty list). -/
def cycleNext (all : List α) : Nat → List α → Option α
  | 0, x :: _ => some x
  | 0, [] => all.head?
  | n + 1, _ :: rest => cycleNext all n rest
  | n + 1, [] =>
    match all with
    | [] => none
    | _ :: rest => cycleNext all n rest

def cycleGet (xs : List α) (idx : Nat) : Option α := cycleNext xs idx xs

/-! ## produce_combinations -/

inductive Example where
  | param (container name : String) (value : Json)
  | body (value : Json) (mediaType : String)
  deriving Inhabited

/-- `dict[str, list]` in insertion order -/
abbrev Variants := List (String × List Json)
/-- `dict[str, dict[str, list]]` -/
abbrev Params := List (String × Variants)

/-- `d.setdefault(name, []).append(v)` -/
def addVariant (name : String) (v : Json) : Variants → Variants
  | [] => [(name, [v])]
  | (n, vs) :: rest => if n == name then (n, vs ++ [v]) :: rest else (n, vs) :: addVariant name v rest

/-- `parameters.setdefault(container, {}).setdefault(name, []).append(v)` -/
def addParam (c name : String) (v : Json) : Params → Params
  | [] => [(c, [(name, [v])])]
  | (c', vars) :: rest =>
    if c' == c then (c', addVariant name v vars) :: rest else (c', vars) :: addParam c name v rest

def splitStep (acc : Params × Variants) : Example → Params × Variants
  | .param c n v => (addParam c n v acc.1, acc.2)
  | .body v mt => (acc.1, addVariant mt v acc.2)

/-- the first loop of `produce_combinations` -/
def split (exs : List Example) : Params × Variants := exs.foldl splitStep ([], [])

abbrev Container := List (String × Json)          -- name ↦ value
abbrev Containers := List (String × Container)    -- container ↦ …

/-- the keyword arguments handed to `openapi_cases` -/
structure Combo where
  params : Containers
  body : Option (String × Json)                   -- (media_type, body)

def maxLen (ps : Params) : Nat :=
  ps.foldl (fun m cv => cv.2.foldl (fun m nv => max m nv.2.length) m) 0

def comboAt (ps : Params) (idx : Nat) : Containers :=
  ps.map fun cv => (cv.1, cv.2.map fun nv => (nv.1, (cycleGet nv.2 idx).getD .null))

/-- `_produce_parameter_combinations` -/
def paramCombos (ps : Params) : List Containers := (List.range (maxLen ps)).map (comboAt ps)

def bodyCombos (bs : Variants) : List (String × Json) := bs.flatMap fun mv => mv.2.map fun v => (mv.1, v)

def produceCombinations (exs : List Example) : List Combo :=
  let sp := split exs
  if !sp.2.isEmpty then
    if !sp.1.isEmpty then
      let pcs := paramCombos sp.1
      let bcs := bodyCombos sp.2
      (List.range (max pcs.length bcs.length)).map fun idx =>
        ⟨(cycleGet pcs idx).getD [], cycleGet bcs idx⟩
    else (bodyCombos sp.2).map fun b => ⟨[], some b⟩
  else if !sp.1.isEmpty then (paramCombos sp.1).map fun p => ⟨p, none⟩
  else []

/-! ## dict helpers on association lists -/

/-- `d[k] = v` (in place when the key exists, appended otherwise) -/
def objSet (k : String) (v : Json) : List (String × Json) → List (String × Json)
  | [] => [(k, v)]
  | (k', v') :: rest => if k' == k then (k', v) :: rest else (k', v') :: objSet k v rest

/-- `d.update(other)` -/
def objUpdate (d other : List (String × Json)) : List (String × Json) :=
  other.foldl (fun acc kv => objSet kv.1 kv.2 acc) d

def arrItems : Json → List Json
  | .arr xs => xs
  | _ => []

def objItems : Json → List (String × Json)
  | .obj kvs => kvs
  | _ => []

/-! ## _expand_subschemas -/

/-- one `for key, value in sub.items()` iteration of the allOf merge -/
def mergeKey (acc : List (String × Json)) (kv : String × Json) : List (String × Json) :=
  if kv.1 == "properties" then
    objSet "properties" (.obj (objUpdate (objItems ((Json.lookup "properties" acc).getD (.obj []))) (objItems kv.2))) acc
  else if kv.1 == "required" then
    objSet "required" (.arr (arrItems ((Json.lookup "required" acc).getD (.arr [])) ++ arrItems kv.2)) acc
  else if kv.1 == "examples" then
    objSet "examples" (.arr (arrItems ((Json.lookup "examples" acc).getD (.arr [])) ++ arrItems kv.2)) acc
  else if kv.1 == "example" then
    objSet "examples" (.arr (arrItems ((Json.lookup "examples" acc).getD (.arr [])) ++ [kv.2])) acc
  else objSet kv.1 kv.2 acc

/-- `for sub in schema["allOf"][1:]: if isinstance(sub, dict): …` -/
def mergeSub (acc : List (String × Json)) : Json → List (String × Json)
  | .obj kvs => kvs.foldl mergeKey acc
  | _ => acc

/-- the merged allOf subschema (`allOf[0]` must be an object when a later item is one — precondition of the
    Python code, which raises otherwise; a non-object first item is yielded unchanged) -/
def mergeAllOf : List Json → List Json
  | [] => []                                   -- Python: IndexError (not generated)
  | .obj first :: rest => [.obj (rest.foldl mergeSub first)]
  | other :: _ => [other]

def expandSubschemas (schema : Json) : List Json :=
  match schema with
  | .obj kvs =>
    schema ::
      ((match Json.lookup "anyOf" kvs with | some subs => arrItems subs | none => []) ++
       (match Json.lookup "oneOf" kvs with | some subs => arrItems subs | none => []) ++
       (match Json.lookup "allOf" kvs with | some subs => mergeAllOf (arrItems subs) | none => []))
  | _ => [schema]

/-! ## extract_inner_examples / extract_top_level -/

def hasKey (j : Json) (k : String) : Bool := (j.get? k).isSome

inductive Variant where
  | asFound      -- the pinned snapshot
  | repaired     -- the proposed fix
  deriving Repr, DecidableEq

/-- `needle` occurs in `hay` as a contiguous run -/
def isInfixChars (needle : List Char) : List Char → Bool
  | [] => needle.isEmpty
  | c :: rest => needle.isPrefixOf (c :: rest) || isInfixChars needle rest

/-- Python's `k in x` for the values an example can resolve to: a key of a dict, a substring of a string, an element
    of a list (numbers, booleans and null raise TypeError in Python; not generated) -/
def pyIn (k : String) : Json → Bool
  | .obj kvs => (Json.lookup k kvs).isSome
  | .str s => isInfixChars k.toList s.toList
  | .arr xs => xs.any fun x => x == .str k
  | _ => false

/-- the `"value" not in example` test of `extract_inner_examples`.  asFound: Python's `in` on whatever the reference
    resolved to.  repaired: only an Example Object (a dict) can have the key. -/
def hasKeyV (v : Variant) (j : Json) (k : String) : Bool :=
  match v with
  | .asFound => pyIn k j
  | .repaired => hasKey j k

/-- one `for name, example in examples.items()` iteration (externalValue needs the network: yields nothing) -/
def innerOf (vRef : Variant) (unresolved : Json) (kv : String × Json) : List Json :=
  (if hasKey ((unresolved.get? kv.1).getD .null) "$ref" && !hasKeyV vRef kv.2 "value" && !hasKeyV vRef kv.2 "externalValue"
   then [kv.2] else []) ++
  (match kv.2.get? "value" with
   | some v => [v]
   | none => [])

def extractInner (vRef : Variant) (examples unresolved : Json) : List Json :=
  (objItems examples).flatMap (innerOf vRef unresolved)

/-- `for value in schema[examples_field]` — a list yields its items, a dict its keys -/
def iterValues : Json → List Json
  | .arr xs => xs
  | .obj kvs => kvs.map fun kv => .str kv.1
  | _ => []

/-- a parameter or a body alternative as `extract_top_level` / `extract_from_schemas` see it -/
structure Source where
  isBody : Bool
  container : String            -- LOCATION_TO_CONTAINER[location]; unused for bodies
  name : String                 -- parameter name / media type
  definition : Json
  exampleFields : List String   -- iteration order of `{"example", example_field}`
  examplesField : String
  unresolved : Json             -- the unresolved `examples` mapping (null when absent)
  respValues : List Json        -- find_matching_in_responses (parameters only)
  jsonSchema : Json             -- as_json_schema(operation)
  schemaFields : List (String × String)   -- (example_field, examples_field) pairs tried by extract_from_schemas

def Source.mk' (s : Source) (v : Json) : Example :=
  if s.isBody then .body v s.name else .param s.container s.name v

def definitionsOf (s : Source) : List Json :=
  match s.definition.get? "schema" with
  | some sch => s.definition :: expandSubschemas sch
  | none => [s.definition]

def topValues (vRef : Variant) (s : Source) : List Json :=
  (definitionsOf s).flatMap (fun d => s.exampleFields.filterMap fun f => d.get? f) ++
  (match s.definition.get? s.examplesField with
   | some exs => extractInner vRef exs s.unresolved
   | none => []) ++
  (match s.definition.get? "schema" with
   | some sch => (expandSubschemas sch).flatMap fun sub =>
       match sub.get? s.examplesField with
       | some vs => iterValues vs
       | none => []
   | none => []) ++
  (if s.isBody then [] else s.respValues)

def extractTopLevel (vRef : Variant) (srcs : List Source) : List Example :=
  srcs.flatMap fun s => (topValues vRef s).map s.mk'

/-! ## extract_from_schema -/

/-- state of the per-property loop over `_expand_subschemas(subschema)` -/
structure PropState where
  values : List Json
  toGen : Option Json        -- `to_generate[name]`
  inVariants : Bool          -- `variants[name] = values` was executed

/-- what one expanded subschema contributes to `values` -/
def contrib (rec : Json → List Json) (ef esf : String) : Json → List Json
  | .bool _ => []
  | sub =>
    (match sub.get? ef with | some v => [v] | none => []) ++
    (match sub.get? esf with | some (.arr vs) => vs | _ => []) ++
    rec sub

def propStep (rec : Json → List Json) (ef esf : String) (required : Bool) (st : PropState) (sub : Json) : PropState :=
  match sub with
  | .bool _ => { st with toGen := some sub }
  | _ =>
    let values := st.values ++ contrib rec ef esf sub
    if values.isEmpty then { st with values := values, toGen := if required then some sub else st.toGen }
    else { st with values := values, inVariants := true }

def propLoop (rec : Json → List Json) (ef esf : String) (required : Bool) (subschema : Json) : PropState :=
  (expandSubschemas subschema).foldl (propStep rec ef esf required) ⟨[], none, false⟩

def isRequired (schema : Json) (name : String) : Bool :=
  (arrItems (schema.getD "required" (.arr []))).any fun r => r == Json.str name

def maxLenV (vs : Variants) : Nat := vs.foldl (fun m nv => max m nv.2.length) 0

def objectAt (vs : Variants) (idx : Nat) : Json :=
  .obj (vs.map fun nv => (nv.1, (cycleGet nv.2 idx).getD .null))

/-- the `properties` arm of `extract_from_schema`, given the per-property loop results -/
def combineProps (gen : Json → Json) (states : List (String × PropState)) : List Json :=
  let variants : Variants := states.filterMap fun ns => if ns.2.inVariants then some (ns.1, ns.2.values) else none
  if variants.isEmpty then []
  else
    let generated : Variants := states.filterMap fun ns =>
      match ns.2.toGen with
      | some sub => if ns.2.inVariants then none else some (ns.1, [gen sub])
      | none => none
    let all := variants ++ generated
    (List.range (maxLenV all)).map (objectAt all)

/-- `extract_from_schema` (fuel bounds the nesting of `properties` / `items`) -/
def extractFromSchemaF (gen : Json → Json) (ef esf : String) : Nat → Json → List Json
  | 0, _ => []
  | fuel + 1, schema =>
    match schema.get? "properties" with
    | some props =>
      combineProps gen ((objItems props).map fun ns =>
        (ns.1, propLoop (extractFromSchemaF gen ef esf fuel) ef esf (isRequired schema ns.1) ns.2))
    | none =>
      match schema.get? "items" with
      | some (.obj items) => (extractFromSchemaF gen ef esf fuel (.obj items)).map fun v => .arr [v]
      | _ => []

/-- `extract_from_schemas` -/
def extractFromSchemas (gen : Json → Json) (fuel : Nat) (srcs : List Source) : List Example :=
  srcs.flatMap fun s => s.schemaFields.flatMap fun ff =>
    (extractFromSchemaF gen ff.1 ff.2 fuel s.jsonSchema).map s.mk'

/-- the example list of `get_strategies_from_examples` (`iter_parameters()` first, then `operation.body`) -/
def allExamples (vRef : Variant) (gen : Json → Json) (fuel : Nat) (params bodies : List Source) : List Example :=
  extractTopLevel vRef (params ++ bodies) ++ extractFromSchemas gen fuel (params ++ bodies)

/-! ## `{**parameters, **kwargs}` in get_strategies_from_examples -/

def setContainer (k : String) (v : Container) : Containers → Containers
  | [] => [(k, v)]
  | (k', v') :: rest => if k' == k then (k', v) :: rest else (k', v') :: setContainer k v rest

def lookupC (k : String) : List (String × α) → Option α
  | [] => none
  | (k', v) :: rest => if k' == k then some v else lookupC k rest

/-- user-configured containers (`headers=…`, overrides) merged into the example's keyword arguments.
    asFound: the user's dict replaces the whole container.  repaired: merged per name, the user's value wins. -/
def mergeKwargs (v : Variant) (combo user : Containers) : Containers :=
  user.foldl (fun acc kc =>
    match v with
    | .asFound => setContainer kc.1 kc.2 acc
    | .repaired => setContainer kc.1 (objUpdate ((lookupC kc.1 acc).getD []) kc.2) acc) combo

/-! ## get_parameters_value -/

/-- `value`: the explicit container (`none` = NOT_SET); `new`: what the strategy for the *other* names drew
    (`none` when the location has no further parameters) -/
def fillIn (value : Option Container) (new : Option Container) : Option Container :=
  match value with
  | none => new
  | some [] => new
  | some val =>
    match new with
    | some n => some (objUpdate val n)
    | none => some val

/-! ## add_examples + run_test -/

/-- what `get_strategies_from_examples` + `generate_one` may raise -/
inductive Exc where
  | invalidSchema | refResolution | unsatisfiable | serializationNotPossible | schemaError
  | other                      -- anything else propagates out of `create_test` (reported by the worker)
  deriving Repr, DecidableEq

inductive Mark where
  | unsatisfiable | nonSerializable | invalidRegex | invalidHeaders | examplesNotBuilt
  deriving Repr, DecidableEq

/-- a generated example case: its keyword arguments and the names of its headers that cannot be sent -/
structure ECase where
  params : Containers
  body : Option (String × Json)
  invalidHeaders : List String

structure AddResult where
  sent : List ECase          -- `hypothesis.example(case=…)` registered
  marks : List Mark
  raised : Bool              -- the exception left `add_examples`

def excMarks (v : Variant) : Exc → List Mark
  | .unsatisfiable => [.unsatisfiable]
  | .serializationNotPossible => [.nonSerializable]
  | .schemaError => [.invalidRegex]
  | .invalidSchema => match v with | .asFound => [] | .repaired => [.examplesNotBuilt]
  | .refResolution => match v with | .asFound => [] | .repaired => [.examplesNotBuilt]
  | .other => []

def dropHeaders (bad : List String) (ps : Containers) : Containers :=
  ps.map fun kc => if kc.1 == "headers" then (kc.1, kc.2.filter fun nv => !bad.contains nv.1) else kc

/-- the `for example in result` loop.  asFound: a case with an invalid header is skipped entirely.
    repaired: only the unsendable headers are removed, the rest of the example is still sent. -/
def addLoop (v : Variant) : List ECase → List ECase × List Mark
  | [] => ([], [])
  | c :: rest =>
    let r := addLoop v rest
    if c.invalidHeaders.isEmpty then (c :: r.1, r.2)
    else match v with
      | .asFound => (r.1, .invalidHeaders :: r.2)
      | .repaired => ({ c with params := dropHeaders c.invalidHeaders c.params, invalidHeaders := [] } :: r.1,
                      .invalidHeaders :: r.2)

def addExamples (vExc vHdr : Variant) : Except Exc (List ECase) → AddResult
  | .ok cases => let r := addLoop vHdr cases; ⟨r.1, r.2, false⟩
  | .error .other => ⟨[], [], true⟩
  | .error e => ⟨[], excMarks vExc e, false⟩

inductive Status where
  | success | skip | failure | error
  deriving Repr, DecidableEq

/-- `run_test` for the examples phase when every sent request passes its checks -/
def runStatus (r : AddResult) : Status :=
  if r.raised then .error
  else if !r.marks.isEmpty then .error
  else if r.sent.isEmpty then .skip
  else .success

/-! ## create_test: which Hypothesis phases the test is given -/

inductive HPhase where
  | explicit | reuse | generate | target | shrink | explain
  deriving Repr, DecidableEq

/-- `HypothesisTestMode` (the engine passes exactly one: `modes=[mode]`) -/
inductive Mode where
  | examples | coverage | fuzzing
  deriving Repr, DecidableEq

def defaultPhases : List HPhase := [.explicit, .reuse, .generate, .target, .shrink, .explain]

/-- the merge of the user's `hypothesis.settings` into the test's settings, `phases` component
    (`none`: no settings / phases left at their default) -/
def settingsPhases (user : Option (List HPhase)) : List HPhase := user.getD defaultPhases

/-- `create_test`: `explain` is removed; without FUZZING among the modes `reuse` and `generate` are removed as soon
    as one of them is present -/
def dropExplain (phases : List HPhase) : List HPhase :=
  if phases.contains .explain then phases.filter (fun p => p != .explain) else phases

def createPhases (modes : List Mode) (phases : List HPhase) : List HPhase :=
  let p1 := dropExplain phases
  if !modes.contains .fuzzing && (p1.contains .generate || p1.contains .reuse) then
    p1.filter fun p => !(p == .reuse || p == .generate)
  else p1

/-- the guard in front of `add_examples` -/
def registersExamples (modes : List Mode) (final : List HPhase) (supportsExamples : Bool) : Bool :=
  modes.contains .examples && final.contains .explicit && supportsExamples

/-! ## what Hypothesis does with the test (contract of `@given` + `@example`, an assumption of this model) -/

/-- what happens to one input: every check passes / a check fails (`Failure`) / the request itself errors
    (time-out, connection error, … collected in `errors`, `UnexpectedError` raised) -/
inductive Verdict where
  | pass | fail | error
  deriving Repr, DecidableEq

/-- how the call `test_function(...)` inside `run_test` ends -/
inductive Outcome where
  | returned | skipped | failed | errored
  deriving Repr, DecidableEq

/-- does the test go on to the next input after this one?  A failed check ends it at once (`FailureGroup` is a
    `BaseExceptionGroup`, not an `Exception`: Hypothesis never continues after it); an error of the request itself
    (`UnexpectedError`, an `Exception`) lets the remaining *explicit* examples run when `report_multiple_bugs` is on -/
def goesOn (rmb : Bool) (v : Verdict) : Bool := v == .pass || (rmb && v == .error)

/-- run the inputs in order, up to and including the first one after which the test does not go on -/
def runUntil (rmb : Bool) (verdict : α → Verdict) : List α → List α
  | [] => []
  | x :: rest => if goesOn rmb (verdict x) then x :: runUntil rmb verdict rest else [x]

def worst (vs : List Verdict) : Outcome :=
  if vs.contains .error then .errored else if vs.contains .fail then .failed else .returned

structure Exec (α : Type) where
  explicitRan : List α       -- `@example` inputs the test body ran on
  engineRan : List α         -- inputs replayed from the database / generated by the conjecture engine
  outcome : Outcome

def Exec.executed (e : Exec α) : List α := e.explicitRan ++ e.engineRan

/-- `wrapped_test` of `@given`: the explicit examples first (see `goesOn` for where they stop); a failure there is
    raised at once.  Without `reuse` and `generate` nothing else runs (SkipTest
    when nothing ran at all).  Otherwise the conjecture engine replays the database entries of this test (`reuse`) and
    generates new inputs (`generate`) until the first one that does not pass. -/
def hypRun (phases : List HPhase) (rmb : Bool) (explicit db gen : List α) (verdict : α → Verdict) : Exec α :=
  let ex := if phases.contains .explicit then runUntil rmb verdict explicit else []
  let exOut := worst (ex.map verdict)
  if exOut != .returned then ⟨ex, [], exOut⟩
  else if !(phases.contains .reuse || phases.contains .generate) then
    ⟨ex, [], if ex.isEmpty then .skipped else .returned⟩
  else
    let pool := (if phases.contains .reuse then db else []) ++ (if phases.contains .generate then gen else [])
    let ran := runUntil false verdict pool
    ⟨ex, ran, if ex.isEmpty && ran.isEmpty then .skipped else worst (ran.map verdict)⟩

/-! ## run_test: exception arms, marks, collected errors -/

/-- how `test_function(...)` ends, by `except` arm of `run_test` (Flaky, AssertionError, KeyboardInterrupt not modelled) -/
inductive Raised where
  | returned | skipTest | failure | unexpectedError | exceptionGroup | unsatisfiable | refResolution
  | invalidArgument | deadlineExceeded | jsonSchemaError | other
  deriving Repr, DecidableEq

/-- the `NonFatalError`s of one scenario, by kind -/
inductive Report where
  | unsatisfiable                          -- hypothesis.errors.Unsatisfiable (arm or mark)
  | nonSerializable                        -- SerializationNotPossible
  | invalidRegex                           -- InvalidRegexPattern
  | invalidHeaders (names : List String)   -- InvalidHeadersExample.from_headers
  | schemaProblem                          -- UnsupportedRecursiveReference / the InvalidSchema kept by the mark
  | deadline
  | testError                              -- an exception of the test itself or one collected in `errors`
  deriving Repr, DecidableEq

def armOf : Raised → Status × List Report
  | .returned => (.success, [])
  | .skipTest => (.skip, [])
  | .failure => (.failure, [])
  | .unexpectedError => (.error, [])       -- the errors themselves are in `errors`, yielded at the end
  | .exceptionGroup => (.error, [])
  | .unsatisfiable => (.error, [.unsatisfiable])
  | .refResolution => (.error, [.schemaProblem])
  | .invalidArgument => (.error, [.testError])
  | .deadlineExceeded => (.error, [.deadline])
  | .jsonSchemaError => (.error, [.invalidRegex])
  | .other => (.error, [.testError])

/-- one `if <mark> [and status != Status.ERROR]: status = Status.ERROR; yield non_fatal_error(…)` -/
def markStep (isSet guarded : Bool) (rep : Report) (acc : Status × List Report) : Status × List Report :=
  if isSet && !(guarded && acc.1 == .error) then (.error, acc.2 ++ [rep]) else acc

/-- the value of `InvalidHeadersExampleMark` after the loop of `add_examples`: every `set` overwrites the previous
    one, so it holds the unsendable header names of the *last* example that has any -/
def lastInvalid : List ECase → List String
  | [] => []
  | c :: rest =>
    match lastInvalid rest with
    | [] => c.invalidHeaders
    | l => l

/-- asFound: the overwritten mark.  repaired: the mark accumulates the unsendable headers of every example. -/
def invalidMark (v : Variant) (cases : List ECase) : List String :=
  match v with
  | .asFound => lastInvalid cases
  | .repaired => cases.flatMap fun c => c.invalidHeaders

/-- `run_test` after `test_function(...)` ended as `raised`: `cofFailure` = continue_on_failure is on and a recorded
    check failed; `nErrors` = exceptions collected in `errors` (after de-duplication) -/
def runTest (raised : Raised) (cofFailure : Bool) (nErrors : Nat) (marks : List Mark) (badHeaders : List String) :
    Status × List Report :=
  let a0 := armOf raised
  let a1 : Status × List Report := if a0.1 == .success && cofFailure then (.failure, a0.2) else a0
  let a2 := markStep (marks.contains .unsatisfiable) false .unsatisfiable a1
  let a3 := markStep (marks.contains .nonSerializable) true .nonSerializable a2
  let a4 := markStep (marks.contains .invalidRegex) true .invalidRegex a3
  let a5 := markStep (!badHeaders.isEmpty) false (.invalidHeaders badHeaders) a4
  let a6 := markStep (marks.contains .examplesNotBuilt) true .schemaProblem a5
  (a6.1, a6.2 ++ List.replicate nErrors .testError)

/-- the report each mark of `add_examples` stands for -/
def Mark.report : Mark → Report
  | .unsatisfiable => .unsatisfiable
  | .nonSerializable => .nonSerializable
  | .invalidRegex => .invalidRegex
  | .invalidHeaders => .invalidHeaders []
  | .examplesNotBuilt => .schemaProblem

def raisedOf : Outcome → Raised
  | .returned => .returned
  | .skipped => .skipTest
  | .failed => .failure
  | .errored => .unexpectedError

/-! ## one scenario of a unit phase, and histories of runs that share the Hypothesis example database -/

structure RunCfg where
  mode : Mode                  -- examples / coverage / fuzzing phase of the engine
  phases : List HPhase         -- `hypothesis_settings.phases`
  rmb : Bool                   -- `report_multiple_bugs`
  cof : Bool                   -- `continue_on_failure`: failed checks are recorded, not raised
  unique : Bool                -- `unique_inputs`: an input whose hash was seen before is not sent again
  sensitive : List (String × String)   -- (container, name) of the parameters output sanitization masks
  useDb : Bool                 -- `hypothesis_settings.database` is the shared database (not None)
  gen : List ECase             -- what the conjecture engine would generate in this run
  verdict : ECase → Verdict    -- behaviour of the API / transport per input

/-- what the test body raises for an input: with continue_on_failure a failed check is only recorded -/
def RunCfg.ctl (cfg : RunCfg) (c : ECase) : Verdict :=
  if cfg.cof && cfg.verdict c == .fail then .pass else cfg.verdict c

structure ScenarioResult where
  executed : List ECase        -- the inputs a request was sent for
  engineRan : List ECase       -- the part of them that came from the database / the generator
  status : Status
  reports : List Report

/-- the case as the sanitized code sample shows it: sensitive values replaced -/
def maskCase (sensitive : List (String × String)) (c : ECase) : ECase :=
  { c with params := c.params.map fun cv =>
      (cv.1, cv.2.map fun nv => if sensitive.contains (cv.1, nv.1) then (nv.1, Json.str "[Filtered]") else nv) }

/-- what `Case.__hash__` looks at.  asFound: the *sanitized* curl command.  repaired: the request itself. -/
def caseKey (v : Variant) (sensitive : List (String × String)) (c : ECase) : ECase :=
  match v with
  | .asFound => maskCase sensitive c
  | .repaired => c

def sameReq (a b : ECase) : Bool := a.params == b.params && a.body == b.body

/-- the inputs that are really sent with `unique_inputs`: the first one of every key -/
def dedupKey (key : ECase → ECase) : List ECase → List ECase → List ECase
  | _, [] => []
  | seen, c :: rest =>
    if seen.any (fun x => sameReq (key x) (key c)) then dedupKey key seen rest
    else c :: dedupKey key (c :: seen) rest

/-- the outcome `cached_test_func` replays for an input: that of the first input with the same key -/
def firstWithKey (key : ECase → ECase) (l : List ECase) (c : ECase) : ECase :=
  (l.find? fun x => sameReq (key x) (key c)).getD c

/-- `run_test` on the test `create_test` built: `final` phases, registered examples + marks `add`, value `bad` of the
    invalid-header mark -/
def runScenario (vHash : Variant) (final : List HPhase) (add : AddResult) (bad : List String) (db : List ECase)
    (cfg : RunCfg) : ScenarioResult :=
  if add.raised then ⟨[], [], .error, [.testError]⟩       -- `on_error` of the worker
  else
    let registered := add.sent.reverse
    let key := caseKey vHash cfg.sensitive
    let ctl : ECase → Verdict := if cfg.unique then fun c => cfg.ctl (firstWithKey key registered c) else cfg.ctl
    let ex := hypRun final cfg.rmb registered (if cfg.useDb then db else []) cfg.gen ctl
    let sent := if cfg.unique then dedupKey key [] ex.executed else ex.executed
    let nErr := (sent.filter fun c => cfg.verdict c == .error).length
    let cofFailure := cfg.cof && sent.any fun c => cfg.verdict c == .fail
    let r := runTest (raisedOf ex.outcome) cofFailure nErr add.marks bad
    ⟨sent, ex.engineRan, r.1, r.2⟩

/-- the `add_examples` call of `create_test` (made only behind its guard) -/
def builtExamples (vExc vHdr vMark : Variant) (built : Except Exc (List ECase)) (registers : Bool) :
    AddResult × List String :=
  if registers then
    (addExamples vExc vHdr built, match built with | .ok cases => invalidMark vMark cases | .error _ => [])
  else (⟨[], [], false⟩, [])

/-- `worker_task` for one operation: `create_test` (phases, `add_examples`), then `run_test`.
    `built` = what `get_strategies_from_examples` + `generate_one` give for the operation. -/
def scenario (vExc vHdr vMark vHash : Variant) (built : Except Exc (List ECase)) (db : List ECase) (cfg : RunCfg) :
    ScenarioResult :=
  let final := createPhases [cfg.mode] cfg.phases
  let b := builtExamples vExc vHdr vMark built (registersExamples [cfg.mode] final true)
  runScenario vHash final b.1 b.2 db cfg

/-- the database after the run: the conjecture engine saves the inputs it ran that did not pass -/
def dbAfter (db : List ECase) (cfg : RunCfg) (res : ScenarioResult) : List ECase :=
  if cfg.useDb then db ++ res.engineRan.filter (fun c => cfg.verdict c != .pass) else db

def runHistory (vExc vHdr vMark vHash : Variant) (built : Except Exc (List ECase)) : List ECase → List RunCfg →
    List (RunCfg × ScenarioResult)
  | _, [] => []
  | db, cfg :: rest =>
    let res := scenario vExc vHdr vMark vHash built db cfg
    (cfg, res) :: runHistory vExc vHdr vMark vHash built (dbAfter db cfg res) rest

end SV.Model.C17
